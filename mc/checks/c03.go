package checks

import (
	"bytes"
	"encoding/json"
	"fmt"
	"os"
	"os/exec"
	"regexp"
	"sort"
	"strings"

	"verif/mc/fw"
)

// C03: concurrent requests are independent and race-free.
//  - "sched" cases: stateless model checking of the real ServeHTTP under the
//    controlled scheduler (c03sched.go; only in the instrumented build)
//  - "race-pass": the same harness bodies free-running under Go's race detector

type c03Case struct {
	Kind     string    `json:"kind"` // race-pass | sched | cache-seam | nested
	Thorough bool      `json:"thorough,omitempty"`
	Iters    int       `json:"iters,omitempty"`
	Sched    *schedCfg `json:"sched,omitempty"`
}

var raceBlock = regexp.MustCompile(`(?s)WARNING: DATA RACE\n(.*?)\n==================`)
var ruxFrame = regexp.MustCompile(`github\.com/gookit/rux\.([^\s(]*(?:\([^)]*\))?[^\s(]*)\(\)`)

func c03RacePass(c c03Case, st *fw.Stats) []fw.Viol {
	bin := os.Getenv("VERIF_RACEBIN")
	if bin == "" {
		st.Cap("race pass binary not built (VERIF_RACEBIN unset)")
		return nil
	}
	args := []string{fmt.Sprintf("-iters=%d", c.Iters)}
	if c.Thorough {
		args = append(args, "-thorough")
	}
	cmd := exec.Command(bin, args...)
	cmd.Env = append(os.Environ(), "GORACE=halt_on_error=0 exitcode=0")
	var out, errb bytes.Buffer
	cmd.Stdout, cmd.Stderr = &out, &errb
	runErr := cmd.Run()
	var res struct {
		Shapes     int      `json:"shapes"`
		Goroutines int      `json:"goroutines"`
		Requests   int64    `json:"requests"`
		Mismatches int64    `json:"mismatches"`
		First      []string `json:"first_mismatches"`
		Stuck      bool     `json:"stuck"`
		Shape      string   `json:"shape"`
	}
	if err := json.Unmarshal(bytes.TrimSpace(out.Bytes()), &res); err != nil {
		// the free-running process died: a Go runtime "fatal error" (concurrent map access, corrupted memory) or an
		// unrecovered panic with rux on the stack is what concurrent requests did to the router
		es := errb.String()
		if i := strings.Index(es, "fatal error:"); i >= 0 && strings.Contains(es[i:], "gookit/rux") {
			line := es[i:]
			if j := strings.IndexByte(line, '\n'); j > 0 {
				line = line[:j]
			}
			sig := "crash:free-running"
			if strings.Contains(line, "concurrent map") {
				sig = "race:concurrent-map-access"
			}
			return []fw.Viol{{Sig: sig, Msg: fmt.Sprintf("free-running pass: the process serving concurrent requests died with %q; %s", line, tail2(es[i:], 1800))}}
		}
		if i := strings.Index(es, "panic:"); i >= 0 && strings.Contains(es[i:], "gookit/rux.") {
			return []fw.Viol{{Sig: "crash:free-running", Msg: fmt.Sprintf("free-running pass: the process serving concurrent requests died with an unrecovered panic outside any request's own recovery: %s", tail2(es[i:], 1800))}}
		}
		panic(fmt.Sprintf("race pass produced no result (%v, %v): %s", runErr, err, tail(es, 2000)))
	}
	if res.Stuck {
		// the pass's own watchdog: not a single request completed for two minutes. It counts as a deadlock among the
		// requests when the goroutine dump shows requests parked inside rux; otherwise it is only noted.
		dump := errb.String()
		if i := strings.Index(dump, "NO-PROGRESS"); i >= 0 {
			dump = dump[i:]
		}
		var parked []string
		for _, g := range strings.Split(dump, "\n\n") {
			if strings.Contains(g, "gookit/rux.") && (strings.Contains(g, "[sync.") || strings.Contains(g, "[semacquire") || strings.Contains(g, "[chan ") || strings.Contains(g, "[select")) {
				lines := strings.Split(g, "\n")
				var fr []string
				for _, l := range lines {
					if strings.Contains(l, "gookit/rux.") || strings.HasPrefix(l, "goroutine ") || strings.HasPrefix(l, "sync.") {
						fr = append(fr, strings.TrimSpace(l))
					}
				}
				if len(parked) < 3 {
					parked = append(parked, strings.Join(fr[:min(len(fr), 6)], " <- "))
				}
			}
		}
		if len(parked) == 0 {
			st.Cap("the free-running pass stalled for 120 s without any request parked inside rux (machine stall?): not counted")
			return nil
		}
		st.Evals += res.Requests
		return []fw.Viol{{Sig: "deadlock:free-running", Msg: fmt.Sprintf("free-running pass: after %d requests on shape{%s} no request completed for 120 s; requests are parked inside rux and never resume (a deadlock among concurrent requests), e.g. %s", res.Requests, res.Shape, strings.Join(parked, " ## "))}}
	}
	st.Evals += res.Requests
	st.Inc("race_pass_requests", res.Requests)
	st.Inc("race_pass_goroutines", int64(res.Goroutines))
	st.Inc("race_pass_shapes", int64(res.Shapes))
	var vs []fw.Viol
	// race reports with a rux frame
	sigs := map[string]string{}
	n := 0
	for _, m := range raceBlock.FindAllStringSubmatch(errb.String(), -1) {
		frames := ruxFrame.FindAllStringSubmatch(m[1], -1)
		if len(frames) == 0 {
			continue
		}
		n++
		// the innermost rux frame of each of the two stacks
		parts := strings.Split(m[1], "\n\n")
		var tops []string
		for _, p := range parts[:min(2, len(parts))] {
			if f := ruxFrame.FindStringSubmatch(p); f != nil {
				tops = append(tops, f[1])
			}
		}
		sort.Strings(tops)
		sig := "race:" + strings.Join(tops, "|")
		if _, ok := sigs[sig]; !ok {
			sigs[sig] = tail2(m[0], 1500)
		}
	}
	st.Inc("race_reports", int64(n))
	keys := make([]string, 0, len(sigs))
	for k := range sigs {
		keys = append(keys, k)
	}
	sort.Strings(keys)
	for _, k := range keys {
		if len(vs) < 4 {
			vs = append(vs, fw.Viol{Sig: "race:data-race-in-rux", Msg: fmt.Sprintf("free-running pass (%d goroutines, %d requests): Go's race detector reports %d data races with a rux frame; e.g. %s: %s", res.Goroutines, res.Requests, n, k, sigs[k])})
			break
		}
	}
	if res.Mismatches > 0 {
		vs = append(vs, fw.Viol{Sig: "independence:free-running", Msg: fmt.Sprintf("free-running pass: %d of %d responses differ from what the request observes alone; e.g. %s", res.Mismatches, res.Requests, strings.Join(res.First, " ## "))})
	}
	if st.WantSample() {
		st.Sample(map[string]any{"kind": "race-pass", "shapes": res.Shapes, "goroutines": res.Goroutines, "requests": res.Requests, "race_reports": n, "mismatches": res.Mismatches})
	}
	return vs
}

func tail(s string, n int) string {
	if len(s) > n {
		return s[len(s)-n:]
	}
	return s
}

func tail2(s string, n int) string {
	if len(s) > n {
		return s[:n]
	}
	return s
}

var c03Spec = fw.Spec[c03Case]{
	ID:         "C03",
	Level:      "model_checking",
	StateGraph: true,
	Rule: "stateless model checking: for every scenario (router shape x set of 2-3 in-flight requests) every interleaving of the requests at the scheduling points (lock/unlock, pool get/put, list steps, every visible statement of rux, handler boundaries) up to a preemption bound iterated 0,1,2(,3) is executed on the real ServeHTTP under a controlled scheduler; each thread's observation must equal its solo observation, no panic/deadlock, cache invariants hold afterwards, the vector-clock monitor reports no race on the cache list, the pool, Router fields or package-level variables; " +
		"plus the same bodies free-running under -race; non-trivial = an execution with at least one preemption; states = distinct (scenario, schedule) executions, transitions = scheduling decisions taken",
	Assume: []string{
		"the scheduler is sequentially consistent (no weak-memory effects)",
		"writes to Router fields and package-level variables (rux and its pkg/* packages) are declared to the vector-clock monitor by the instrumenter; other memory the shims cannot see (slice backing arrays, reads of such fields) is covered for the race clause only by the free-running -race pass, a dynamic happens-before detector, not an enumeration",
	},
	Bounds: func(tier string) map[string]any {
		b := c03Bounds(tier)
		if conf := os.Getenv("VERIF_CONFORMANCE"); conf != "" {
			b["conformance_rux_suite_under_overlay"] = conf
		}
		return b
	},
	Guard: func(tier string, st *fw.Stats) []string {
		if conf := os.Getenv("VERIF_CONFORMANCE"); strings.HasPrefix(conf, "fail") {
			return []string{"conformance run of rux's own suite under the instrumented build failed: " + conf}
		}
		return nil
	},
	Gen: func(tier string, emit func(c03Case)) {
		// the free-running pass first (it must never be the part a budget cuts off)
		if tier == "quick" {
			emit(c03Case{Kind: "race-pass", Iters: 150})
		} else {
			emit(c03Case{Kind: "race-pass", Iters: 1500, Thorough: true})
		}
		c03GenSched(tier, emit)
	},
	Run: func(c c03Case, st *fw.Stats) []fw.Viol {
		if c.Kind == "race-pass" {
			return c03RacePass(c, st)
		}
		return c03RunSched(c, st)
	},
	Batch: 1,
	// the free-running race pass is a dynamic detector: a race it reported may need a few runs to show again
	ReplayAttempts: 4,
	BudgetSec: func(tier string) int {
		if tier == "thorough" {
			return 5400
		}
		return 150
	},
}

func init() {
	Registry["C03"] = func(args []string) int { return fw.Main(c03Spec, args) }
}
