package checks

import (
	"bytes"
	"fmt"
	"net/http/httptest"
	"regexp"
	"sort"
	"strings"

	"github.com/gookit/color"
	"github.com/gookit/rux"

	"verif/mc/fw"
	"verif/mc/refmodel"
)

// C16: Resource registers exactly the documented REST table for the controller.

var c16Actions = []string{"Index", "Create", "Store", "Show", "Edit", "Update", "Delete"}

type c16Spec_ struct {
	methods []string
	path    string // relative to the resource path
}

var c16Table = map[string]c16Spec_{
	"Index":  {[]string{"GET"}, ""},
	"Create": {[]string{"GET"}, "/create"},
	"Store":  {[]string{"POST"}, ""},
	"Show":   {[]string{"GET"}, "/{id}"},
	"Edit":   {[]string{"GET"}, "/{id}/edit"},
	"Update": {[]string{"PUT", "PATCH"}, "/{id}"},
	"Delete": {[]string{"DELETE"}, "/{id}"},
}

type c16Rec struct {
	log  []string
	uses map[string][]rux.HandlerFunc
}

func (r *c16Rec) hit(x *rux.Context, action string) {
	r.log = append(r.log, "action:"+action+":"+x.Param("id"))
}

type c16Uses struct{ rec *c16Rec }

// Uses returns distinct middleware for every action, implemented or not. The table is built once per
// recorder and handed out again on every call (a controller may well keep it in a field).
func (u c16Uses) Uses() map[string][]rux.HandlerFunc {
	if u.rec.uses == nil {
		m := map[string][]rux.HandlerFunc{}
		for _, a := range c16Actions {
			a := a
			// two middleware per action, both closures of ONE function literal (like the output of a middleware factory)
			m[a] = []rux.HandlerFunc{c16MW(u.rec, "mw:"+a), c16MW(u.rec, "mw2:"+a)}
		}
		u.rec.uses = m
	}
	return u.rec.uses
}

// c16MW is the one factory all per-action middleware come from (not inlined: every closure it returns shares one code pointer)
//
//go:noinline
func c16MW(rec *c16Rec, tag string) rux.HandlerFunc {
	return func(c *rux.Context) { rec.log = append(rec.log, tag) }
}

// wrong-shaped controllers
type C16Bad struct{ rec *c16Rec }

func (c *C16Bad) Show(x *rux.Context, extra int) {}
func (c *C16Bad) index(x *rux.Context)           {}
func (c *C16Bad) Store()                         {}
func (c *C16Bad) Edit(x *rux.Context) string     { return "" }
func (c *C16Bad) Delete(x *rux.Context)          { c.rec.hit(x, "Delete") }

// two controller types whose names differ only by case (same resource name), with different action sets
type Gadget struct{ rec *c16Rec }

func (c *Gadget) Index(x *rux.Context) { c.rec.hit(x, "Index") }

type GADGET struct{ rec *c16Rec }

func (c *GADGET) Index(x *rux.Context)  { c.rec.hit(x, "Index") }
func (c *GADGET) Show(x *rux.Context)   { c.rec.hit(x, "Show") }
func (c *GADGET) Create(x *rux.Context) { c.rec.hit(x, "Create") }

type c16Case struct {
	Thorough bool   `json:"thorough,omitempty"`
	Mask     int    `json:"action_mask"`
	Uses     bool   `json:"uses"`
	Base     string `json:"base"`
	Group    bool   `json:"in_group"`
	Root     bool   `json:"group_prefix_is_root,omitempty"` // the enclosing group is Group("/")
	Kind     string `json:"kind"`                           // subset | bad
	Cache    int    `json:"route_cache_capacity,omitempty"` // > 0: the router caches dynamic matches (the probes are then issued twice, in two orders)
	// CustomNF: a custom NotFound handler is installed (no global middleware); the probes are issued twice, in two orders
	CustomNF bool `json:"custom_not_found_handler,omitempty"`
	// Fallback: HandleFallbackRoute is on and a catch-all route "/*" for all nine methods is registered after the resource
	Fallback bool `json:"fallback_route_for_all_methods,omitempty"`
}

func c16Gen(tier string, emit func(c16Case)) {
	emit(c16Case{Kind: "bad"})
	// a resource registered on a router that has ALREADY served requests for its paths (through generic routes, with
	// the route cache on), and after a group without middleware whose body called Use
	for _, capN := range []int{0, 2, 64} {
		emit(c16Case{Kind: "late", Cache: capN})
	}
	// three routers built from one slice of option values (every caching option)
	for o := 0; o < 3; o++ {
		for _, capN := range []int{1, 2, 16} {
			emit(c16Case{Kind: "shared-options", Mask: o, Cache: capN})
		}
	}
	// several resources (12+ routes of one method in one bucket) next to another dynamic route of the same first segment
	for where := 0; where < 4; where++ {
		for _, base := range []string{"/api/{t}/", "/{t}/", "/api/"} {
			emit(c16Case{Kind: "multi", Base: base, Mask: where})
		}
	}
	for mask := 0; mask < 128; mask++ {
		for _, uses := range []bool{false, true} {
			for bi, base := range []string{"/", "/api/", "", "/{t}/", "/{t:[a-z]{4}}/", "/v1.2/", "/{all}/"} {
				for _, grp := range []bool{false, true} {
					if tier == "quick" && (mask+bi+b2i(grp)+b2i(uses))%2 == 1 {
						continue
					}
					emit(c16Case{Kind: "subset", Mask: mask, Uses: uses, Base: base, Group: grp, Thorough: tier == "thorough"})
					if !grp {
						// the same table on a router that caches dynamic matches (capacity 1 or 2: constant eviction)
						emit(c16Case{Kind: "subset", Mask: mask, Uses: uses, Base: base, Thorough: tier == "thorough", Cache: 1 + (mask+bi)%2})
					}
					if !grp && (mask+bi)%2 == 1 {
						// HandleFallbackRoute with a catch-all for all nine methods: the REST table still wins, HEAD included
						emit(c16Case{Kind: "subset", Mask: mask, Uses: uses, Base: base, Thorough: tier == "thorough", Fallback: true})
					}
					if !grp && (mask+bi)%2 == 0 {
						// with a custom NotFound handler (and no global middleware): matched and unmatched requests alternate
						emit(c16Case{Kind: "subset", Mask: mask, Uses: uses, Base: base, Thorough: tier == "thorough", CustomNF: true})
					}
					if grp && (mask+bi)%4 == 0 {
						emit(c16Case{Kind: "subset", Mask: mask, Uses: uses, Base: base, Group: true, Root: true, Thorough: tier == "thorough"})
					}
				}
			}
		}
	}
}

var c16DebugLine = regexp.MustCompile(`\[RUX-DEBUG\][^\n]*?\s([A-Z,]+)\s+(/\S*)\s+-->`)

func permutations(xs []string) [][]string {
	if len(xs) <= 1 {
		return [][]string{append([]string(nil), xs...)}
	}
	var out [][]string
	for i := range xs {
		rest := append(append([]string(nil), xs[:i]...), xs[i+1:]...)
		for _, p := range permutations(rest) {
			out = append(out, append([]string{xs[i]}, p...))
		}
	}
	return out
}

func c16Run(c c16Case, st *fw.Stats) []fw.Viol {
	var vs []fw.Viol
	add := func(sig, msg string) {
		if len(vs) < 6 {
			vs = append(vs, fw.Viol{Sig: sig, Msg: msg})
		}
	}
	if c.Kind == "bad" {
		st.Evals++
		st.Nontrivial++
		rec := &c16Rec{}
		for _, ctl := range []any{Res127{rec}, 7, "x", new(int), &[]int{1}, map[string]int{}} {
			rb := rux.New()
			if pv := try(func() { rb.Resource("/", ctl) }); pv == nil {
				add("resource:accepted-bad-controller", fmt.Sprintf("Resource(\"/\", %T) was accepted; a non-pointer or non-struct controller must be rejected", ctl))
			} else {
				// the rejected call left nothing behind: a resource registered on the same router afterwards gets its table
				_ = try(func() { rb.Resource("/", &Gadget{rec}) })
				if got := strings.Join(routeSet(rb), "; "); got != "GET /gadget gadget_index mw=0" {
					add("resource:after-rejected-controller", fmt.Sprintf("Resource(\"/\", %T) was rejected (panic recovered); Resource(\"/\", &Gadget{}) on the same router then registers [%s], the documented table gives [GET /gadget gadget_index mw=0]", ctl, got))
				}
			}
		}
		// the first registration of a resource name must not decide what a later, different type of that name gets
		for _, order := range [][]any{{&Gadget{rec}, &GADGET{rec}}, {&GADGET{rec}, &Gadget{rec}}} {
			for _, ctl := range order {
				r := rux.New()
				r.Resource("/", ctl)
				want := "GET /gadget gadget_index mw=0"
				if _, big := ctl.(*GADGET); big {
					want = "GET /gadget gadget_index mw=0; GET /gadget/create gadget_create mw=0; GET /gadget/{id} gadget_show mw=0"
				}
				if got := strings.Join(routeSet(r), "; "); got != want {
					add("resource:same-name-controllers", fmt.Sprintf("Resource(\"/\", %T) after another controller type of the same resource name: routes [%s], expected [%s]", ctl, got, want))
				}
			}
		}
		// the same resource mounted twice under different base paths: every name points at the route registered last
		{
			r2 := rux.New()
			r2.Resource("/v1/", &GADGET{rec})
			r2.Resource("/v2/", &GADGET{rec})
			for n, want := range map[string]string{"gadget_index": "/v2/gadget", "gadget_create": "/v2/gadget/create", "gadget_show": "/v2/gadget/{id}"} {
				if rt := r2.GetRoute(n); rt == nil || rt.Path() != want {
					gp := "<nil>"
					if rt != nil {
						gp = rt.Path()
					}
					add("resource:names", fmt.Sprintf("Resource(\"/v1/\", ctl) then Resource(\"/v2/\", ctl): the name %q points at %s, the route registered last under that name is %s", n, gp, want))
				}
			}
		}
		r := rux.New()
		r.Resource("/", &C16Bad{rec})
		got := routeSet(r)
		want := "DELETE /c16bad/{id} c16bad_delete mw=0"
		if strings.Join(got, "; ") != want {
			add("resource:wrong-shaped-methods", fmt.Sprintf("controller with unexported / wrong-signature action methods: routes [%s], expected only [%s]", strings.Join(got, "; "), want))
		}
		return vs
	}
	if c.Kind == "late" {
		rec := &c16Rec{}
		r := rux.New()
		if c.Cache > 0 {
			r = rux.New(rux.CachingWithNum(uint16(c.Cache)))
		}
		generic := func(x *rux.Context) { rec.log = append(rec.log, "generic") }
		guard := func(x *rux.Context) { rec.log = append(rec.log, "guard") }
		res := "/res127"
		type q struct{ m, p, want string }
		qs := []q{{"GET", res, "action:Index:"}, {"GET", res + "/create", "action:Create:"}, {"POST", res, "action:Store:"}, {"GET", res + "/1", "action:Show:1"}, {"GET", res + "/2", "action:Show:2"},
			{"GET", res + "/1/edit", "action:Edit:1"}, {"PUT", res + "/1", "action:Update:1"}, {"PUT", res + "/2", "action:Update:2"}, {"PATCH", res + "/1", "action:Update:1"}, {"PATCH", res + "/2", "action:Update:2"},
			{"DELETE", res + "/1", "action:Delete:1"}, {"DELETE", res + "/2", "action:Delete:2"}, {"HEAD", res + "/2", "generic"}} // (the generic route allows HEAD itself: a direct match beats the HEAD->GET fallback)
		if pv := try(func() {
			r.Any("/{a}", generic)
			r.Any("/{a}/{b}", generic)
			r.Any("/{a}/{b}/{c}", generic)
			// a group WITHOUT middleware of its own whose body adds one with Use (it belongs to that group only)
			r.Group("/admin", func() {
				r.Use(guard)
				r.GET("/panel", generic)
			})
			for round := 0; round < 2; round++ {
				for _, x := range qs {
					r.ServeHTTP(httptest.NewRecorder(), httptest.NewRequest(x.m, x.p, nil))
				}
			}
			r.Resource("/", c16New(127, false, rec))
		}); pv != nil {
			add("resource:panic", fmt.Sprintf("late resource registration (cache capacity %d) panicked: %v", c.Cache, pv))
			return vs
		}
		for round := 0; round < 2; round++ {
			for _, x := range qs {
				st.Evals++
				st.Nontrivial++
				rec.log = rec.log[:0]
				if pv := try(func() { r.ServeHTTP(httptest.NewRecorder(), httptest.NewRequest(x.m, x.p, nil)) }); pv != nil {
					add("resource:serve-panic", fmt.Sprintf("resource registered late: %s %s panicked: %v", x.m, x.p, pv))
				} else if got := strings.Join(rec.log, " "); got != x.want {
					add("resource:dispatch", fmt.Sprintf("router (route cache capacity %d) with generic routes /{a}, /{a}/{b}, /{a}/{b}/{c} and a group without middleware whose body called Use; every request was served twice, THEN Resource(\"/\", all seven actions) was registered: %s %s ran [%s], the documented table gives [%s]", c.Cache, x.m, x.p, got, x.want))
				}
			}
		}
		return vs
	}
	if c.Kind == "shared-options" {
		// ONE slice of option values is applied to three routers: A and B register the same resource type with their
		// own controller instance, C registers nothing. A is requested first. Every router must dispatch by its own table.
		mk := [](func() func(*rux.Router)){
			func() func(*rux.Router) { return rux.CachingWithNum(uint16(max(c.Cache, 1))) },
			func() func(*rux.Router) { return rux.MaxNumCaches(uint16(max(c.Cache, 1))) },
			func() func(*rux.Router) { return rux.EnableCaching },
		}[c.Mask]
		opts := []func(*rux.Router){rux.HandleMethodNotAllowed, mk()}
		recA, recB := &c16Rec{}, &c16Rec{}
		var a, b, cc *rux.Router
		if pv := try(func() {
			a = rux.New(opts...)
			a.Resource("/", c16New(127, false, recA))
			b = rux.New(opts...)
			b.Resource("/", c16New(127, false, recB))
			cc = rux.New(opts...)
			cc.GET("/other/{id}", func(*rux.Context) {})
		}); pv != nil {
			add("resource:panic", fmt.Sprintf("three routers built from one options slice panicked: %v", pv))
			return vs
		}
		res := "/res127"
		type q struct{ m, p, want string }
		qs := []q{{"GET", res + "/1", "action:Show:1"}, {"GET", res + "/1/edit", "action:Edit:1"}, {"PUT", res + "/1", "action:Update:1"}, {"PATCH", res + "/2", "action:Update:2"}, {"DELETE", res + "/1", "action:Delete:1"}, {"GET", res, "action:Index:"}, {"GET", res + "/create", "action:Create:"}}
		for round := 0; round < 2; round++ {
			for _, x := range qs {
				for ri, r := range []*rux.Router{a, b, cc} {
					st.Evals++
					st.Nontrivial++
					recA.log, recB.log = recA.log[:0], recB.log[:0]
					w := httptest.NewRecorder()
					if pv := try(func() { r.ServeHTTP(w, httptest.NewRequest(x.m, x.p, nil)) }); pv != nil {
						add("resource:serve-panic", fmt.Sprintf("three routers built from one options slice: %s %s on router %c panicked: %v", x.m, x.p, 'A'+ri, pv))
						continue
					}
					got := fmt.Sprintf("A's controller ran [%s], B's controller ran [%s], status %d", strings.Join(recA.log, " "), strings.Join(recB.log, " "), w.Code)
					want := [3]string{fmt.Sprintf("A's controller ran [%s], B's controller ran [], status 200", x.want), fmt.Sprintf("A's controller ran [], B's controller ran [%s], status 200", x.want), "A's controller ran [], B's controller ran [], status 404"}[ri]
					if got != want {
						add("resource:dispatch", fmt.Sprintf("routers A, B, C built from ONE slice of option values (caching option #%d, capacity %d); A and B register Resource(\"/\", all seven actions) with their own controller instance, C has no resource; each request goes to A, then B, then C: %s %s on router %c: %s; expected: %s", c.Mask, c.Cache, x.m, x.p, 'A'+ri, got, want))
					}
				}
			}
		}
		return vs
	}
	if c.Kind == "multi" {
		rec := &c16Rec{}
		r := rux.New()
		masks := []int{27, 31, 91, 127} // every one has Index, Create, Show, Edit (four GET routes)
		extra := func() {
			// a more specific dynamic route under the same first segment
			first := strings.Split(strings.Trim(c.Base, "/"), "/")[0]
			if strings.HasPrefix(first, "{") {
				first = "acme"
			}
			r.GET("/"+first+"/v1/status/{probe}", func(x *rux.Context) { rec.log = append(rec.log, "status") })
		}
		if pv := try(func() {
			for i, m := range masks {
				if i == c.Mask {
					extra()
				}
				r.Resource(c.Base, c16New(m, false, rec))
			}
			if c.Mask >= len(masks)-1 {
				extra()
			}
		}); pv != nil {
			add("resource:panic", fmt.Sprintf("registering four resources under %q panicked: %v", c.Base, pv))
			return vs
		}
		for _, m := range masks {
			res := strings.ReplaceAll(refmodel.Norm(c.Base+fmt.Sprintf("res%03d", m), false), "{t}", "acme")
			for _, q := range [][3]string{{"GET", res + "/create", "action:Create:"}, {"GET", res + "/7", "action:Show:7"}, {"GET", res + "/7/edit", "action:Edit:7"}, {"GET", res, "action:Index:"}, {"HEAD", res + "/create", "action:Create:"}} {
				st.Evals++
				st.Nontrivial++
				rec.log = rec.log[:0]
				if pv := try(func() { r.ServeHTTP(httptest.NewRecorder(), httptest.NewRequest(q[0], q[1], nil)) }); pv != nil {
					add("resource:serve-panic", fmt.Sprintf("four resources under %q: %s %s panicked: %v", c.Base, q[0], q[1], pv))
				} else if got := strings.Join(rec.log, " "); got != q[2] {
					sig := "resource:dispatch"
					if strings.HasSuffix(q[1], "/create") {
						sig = "resource:create-vs-show"
					}
					add(sig, fmt.Sprintf("four resources registered under %q (a more specific dynamic route of the same first segment registered at position %d): %s %s ran [%s], the documented table gives [%s]", c.Base, c.Mask, q[0], q[1], got, q[2]))
				}
			}
		}
		return vs
	}
	var impl []string
	for i, a := range c16Actions {
		if c.Mask>>i&1 == 1 {
			impl = append(impl, a)
		}
	}
	orig := rux.RESTFulActions
	defer func() { rux.RESTFulActions = orig; rux.Debug(false); color.ResetOutput() }()
	resName := fmt.Sprintf("res%03d", c.Mask)
	if c.Uses {
		resName = fmt.Sprintf("resu%03d", c.Mask)
	}
	prefix := ""
	gp := "/g"
	if c.Root {
		gp = "/"
	}
	if c.Group {
		prefix = gp
	}
	resPath := refmodel.Norm(refmodel.Norm(prefix, false)+refmodel.Norm(c.Base+resName, false), false)
	desc := fmt.Sprintf("controller implementing %v (Uses=%v) Resource(%q) in group=%v", impl, c.Uses, c.Base, c.Group)
	if c.Cache > 0 {
		desc += fmt.Sprintf(" on a router with a route cache of capacity %d", c.Cache)
	}
	if c.CustomNF {
		desc += " on a router with a custom NotFound handler"
	}
	if c.Fallback {
		desc += " on a HandleFallbackRoute router with a catch-all route /* for all nine methods"
	}

	// expected table
	var defs []refmodel.RouteDef
	var defAction []string
	for _, a := range impl {
		defs = append(defs, refmodel.RouteDef{Path: resPath + c16Table[a].path, Methods: c16Table[a].methods})
		defAction = append(defAction, a)
	}
	tbOpts := refmodel.Opts{}
	if c.Fallback {
		defs = append(defs, refmodel.RouteDef{Path: "/*", Methods: refmodel.Methods})
		defAction = append(defAction, "*")
		tbOpts.Fallback = true
	}
	tb, err := refmodel.NewTable(defs, tbOpts)
	if err != nil {
		panic(err)
	}
	// the orders of registration to cover: every permutation of the implemented actions (k <= 4), else all rotations of two base orders
	var orders [][]string
	if len(impl) <= 4 || (c.Thorough && len(impl) <= 6 && c.Base == "/" && !c.Group) {
		orders = permutations(impl)
	} else {
		rev := append([]string(nil), impl...)
		for i, j := 0, len(rev)-1; i < j; i, j = i+1, j-1 {
			rev[i], rev[j] = rev[j], rev[i]
		}
		for _, base := range [][]string{impl, rev} {
			for r := 0; r < len(base); r++ {
				orders = append(orders, append(append([]string(nil), base[r:]...), base[:r]...))
			}
		}
	}
	if len(orders) == 0 {
		orders = [][]string{nil}
	}
	pathToAction := map[string]string{}
	for _, a := range impl {
		for _, m := range c16Table[a].methods {
			pathToAction[m+" "+resPath+c16Table[a].path] = a
		}
	}
	seenOrders := map[string]bool{}
	// When Resource registers in an order of its own (not in the map's), driving the map cannot change what is observed:
	// a small map iterated from a random offset shows k rotations of the insertion order, so 12 registrations that all
	// produced one and the same order of k >= 2 actions mean the order does not come from the map; the remaining
	// permutations are then not waited for (the one order that exists has been checked).
	driven, totalDraws, fixedOrder := 0, 0, false
	for _, want := range orders {
		wantKey := strings.Join(want, ",")
		if seenOrders[wantKey] {
			continue
		}
		if fixedOrder {
			break
		}
		driven++
		// Uses() has keys for unimplemented actions too, and those are invisible in the debug print: their position
		// in the iteration is varied by extra draws (Go starts a small map's iteration at a random slot)
		minDraws := 1
		if c.Uses && len(impl) < len(c16Actions) {
			minDraws = 10
		}
		for draw := 0; (draw < minDraws || !seenOrders[wantKey]) && draw < 400; draw++ {
			if totalDraws++; totalDraws > 12 && draw >= minDraws && len(seenOrders) == 1 && len(impl) >= 2 {
				fixedOrder = true
				st.Inc("registration_order_independent_of_map_order", 1)
				break
			}
			// drive Go's map order through the insertion order: the wanted order of the implemented actions,
			// the unimplemented ones before them (even draws) or after them (odd draws)
			m := map[string][]string{}
			unimpl := func() {
				for _, a := range c16Actions {
					if c.Mask>>indexOf(c16Actions, a)&1 == 0 {
						m[a] = orig[a]
					}
				}
			}
			if draw%2 == 0 {
				unimpl()
			}
			for _, a := range want {
				m[a] = orig[a]
			}
			if draw%2 == 1 {
				unimpl()
			}
			rux.RESTFulActions = m
			var buf bytes.Buffer
			color.SetOutput(&buf)
			rux.Debug(true)
			buf.Reset()
			rec := &c16Rec{}
			r := rux.New()
			if c.Cache > 0 {
				r = rux.New(rux.CachingWithNum(uint16(c.Cache)))
			}
			if c.Fallback {
				r = rux.New(rux.HandleFallbackRoute)
			}
			pv := try(func() {
				if c.Fallback {
					defer r.Any("/*", func(x *rux.Context) { rec.log = append(rec.log, "catch-all") })
				}
				ctl := c16New(c.Mask, c.Uses, rec)
				if c.Group {
					// two group middleware passed in a slice with spare capacity (append-in-place would alias)
					gm := make([]rux.HandlerFunc, 2, 8)
					gm[0] = func(x *rux.Context) { rec.log = append(rec.log, "g0") }
					gm[1] = func(x *rux.Context) { rec.log = append(rec.log, "g1") }
					r.Group(gp, func() { r.Resource(c.Base, ctl) }, gm...)
				} else {
					r.Resource(c.Base, ctl)
				}
			})
			rux.Debug(false)
			color.ResetOutput()
			if pv != nil {
				add("resource:panic", fmt.Sprintf("%s: registration panicked: %v", desc, pv))
				return vs
			}
			if c.CustomNF {
				r.NotFound(func(x *rux.Context) {
					rec.log = append(rec.log, "custom-not-found")
					x.Text(404, "nf")
				})
			}
			// the order actually taken, from rux's own debug print of each registered route
			var got []string
			for _, mm := range c16DebugLine.FindAllStringSubmatch(buf.String(), -1) {
				if mm[2] == "/*" {
					continue // (the catch-all route of the Fallback cases is not part of the resource)
				}
				ms := strings.Split(mm[1], ",")
				if a, ok := pathToAction[ms[0]+" "+mm[2]]; ok {
					got = append(got, a)
				} else {
					got = append(got, "?"+mm[1]+" "+mm[2])
				}
			}
			gotKey := strings.Join(got, ",")
			st.Inc("registrations", 1)
			if c.Uses && draw == 0 && !c.Group {
				// the same controller registered a second time (another router): it must get the same table again
				r2 := rux.New()
				if pv := try(func() { r2.Resource(c.Base, c16New(c.Mask, c.Uses, rec)) }); pv != nil {
					add("resource:panic", fmt.Sprintf("%s: second registration panicked: %v", desc, pv))
					return vs
				}
				c2 := c
				c2.Fallback = false // (the second router holds the resource only)
				if !c16CheckTable(r2, c2, desc+" (registered a second time; its Uses() table is a shared map)", impl, resPath, resName, add) {
					return vs
				}
			}
			// the registered table is compared on every draw (cheap); the request probes once per distinct order
			if !c16CheckTable(r, c, desc+fmt.Sprintf(", registration order %v", got), impl, resPath, resName, add) {
				return vs
			}
			if seenOrders[gotKey] {
				continue
			}
			seenOrders[gotKey] = true
			st.Inc("distinct_registration_orders_checked", 1)
			st.Nontrivial++
			c16CheckRouter(r, rec, c, desc+fmt.Sprintf(", registration order %v", got), impl, resPath, resName, tb, defAction, st, add)
			if len(vs) > 0 {
				return vs
			}
		}
		if !seenOrders[wantKey] && !fixedOrder {
			st.Cap("a wanted registration order was not observed within 400 draws")
		}
	}
	if st.WantSample() {
		st.Sample(map[string]any{"case": desc, "orders_checked": len(seenOrders), "resource_path": resPath})
	}
	return vs
}

func indexOf(xs []string, x string) int {
	for i, y := range xs {
		if y == x {
			return i
		}
	}
	return -1
}

func routeSet(r *rux.Router) []string {
	seen := map[string]bool{}
	var out []string
	for _, inf := range r.Routes() {
		ms := append([]string(nil), inf.Methods...)
		sort.Strings(ms)
		k := fmt.Sprintf("%s %s %s mw=%d", strings.Join(ms, ","), inf.Path, inf.Name, inf.HandlerNum)
		if !seen[k] {
			seen[k] = true
			out = append(out, k)
		}
	}
	sort.Strings(out)
	return out
}

// c16CheckTable: Routes() / NamedRoutes() = the documented table, exactly
func c16CheckTable(r *rux.Router, c c16Case, desc string, impl []string, resPath, resName string, add func(sig, msg string)) bool {
	var want []string
	for _, a := range impl {
		ms := append([]string(nil), c16Table[a].methods...)
		sort.Strings(ms)
		mw := 0
		if c.Uses {
			mw = 2
		}
		if c.Group {
			mw += 2
		}
		want = append(want, fmt.Sprintf("%s %s %s_%s mw=%d", strings.Join(ms, ","), resPath+c16Table[a].path, resName, strings.ToLower(a), mw))
	}
	if c.Fallback {
		ms := append([]string(nil), refmodel.Methods...)
		sort.Strings(ms)
		want = append(want, fmt.Sprintf("%s /*  mw=0", strings.Join(ms, ",")))
	}
	sort.Strings(want)
	got := routeSet(r)
	if strings.Join(got, "; ") != strings.Join(want, "; ") {
		add("resource:table", fmt.Sprintf("%s: registered routes [%s], documented table [%s]", desc, strings.Join(got, "; "), strings.Join(want, "; ")))
		return false
	}
	named := r.NamedRoutes()
	if len(named) != len(impl) {
		add("resource:names", fmt.Sprintf("%s: %d named routes, expected %d", desc, len(named), len(impl)))
		return false
	}
	for _, a := range impl {
		n := resName + "_" + strings.ToLower(a)
		if rt := named[n]; rt == nil || rt.Path() != resPath+c16Table[a].path {
			add("resource:names", fmt.Sprintf("%s: named route %q missing or wrong", desc, n))
			return false
		}
	}
	return true
}

func c16CheckRouter(r *rux.Router, rec *c16Rec, c c16Case, desc string, impl []string, resPath, resName string, tb *refmodel.Table, defAction []string, st *fw.Stats, add func(sig, msg string)) {
	// (2) every method x probe path answers as the table says, and nothing else is reachable
	// (a variable in the base path is given the value "acme")
	subst := func(v string) string {
		return strings.ReplaceAll(strings.ReplaceAll(strings.ReplaceAll(resPath, "{t:[a-z]{4}}", v), "{t}", v), "{all}", v)
	}
	cp := subst("acme")
	probes := []string{cp, cp + "/create", cp + "/7", cp + "/7/edit", cp + "/create/edit", cp + "/7/x", "/", cp + "x"}
	if cp != resPath {
		// other values of the base path's variable: one only the plain variable admits, one of two segments (only the
		// global variable {all} spans a slash)
		for _, v := range []string{"english", "acme/team1"} {
			c2 := subst(v)
			probes = append(probes, c2, c2+"/create", c2+"/7", c2+"/7/edit")
		}
	}
	if c.Cache > 0 {
		// ids long enough for the cache keys to pass 255 bytes: show and edit of one id stay different requests
		long := strings.Repeat("k", 250)
		probes = append(probes, cp+"/"+long, cp+"/"+long+"/edit", cp+"/"+long+"x")
	}
	type mp struct{ m, p string }
	var seq []mp
	for _, m := range refmodel.Methods {
		for _, p := range probes {
			seq = append(seq, mp{m, p})
		}
	}
	if c.Cache > 0 || c.CustomNF {
		// a second round, path-major and backwards: every request is repeated after the others had their turn in the cache
		for pi := len(probes) - 1; pi >= 0; pi-- {
			for mi := len(refmodel.Methods) - 1; mi >= 0; mi-- {
				seq = append(seq, mp{refmodel.Methods[mi], probes[pi]})
			}
		}
	}
	{
		for _, q := range seq {
			m, p := q.m, q.p
			st.Evals++
			res := tb.Resolve(m, p)
			rec.log = rec.log[:0]
			w := httptest.NewRecorder()
			if pv := try(func() { r.ServeHTTP(w, httptest.NewRequest(m, p, nil)) }); pv != nil {
				add("resource:serve-panic", fmt.Sprintf("%s: %s %s panicked: %v", desc, m, p, pv))
				continue
			}
			var wantLog []string
			if res.Route >= 0 && defAction[res.Route] == "*" {
				wantLog = append(wantLog, "catch-all")
			} else if res.Route >= 0 {
				a := defAction[res.Route]
				id := ""
				if ds := tb.Pats[res.Route].MatchAll(res.Path, 1); len(ds) > 0 {
					id = ds[0]["id"]
				}
				if c.Group {
					wantLog = append(wantLog, "g0", "g1")
				}
				if c.Uses {
					wantLog = append(wantLog, "mw:"+a, "mw2:"+a)
				}
				wantLog = append(wantLog, "action:"+a+":"+id)
			} else if c.CustomNF {
				wantLog = append(wantLog, "custom-not-found")
			}
			if strings.Join(rec.log, " ") != strings.Join(wantLog, " ") {
				sig := "resource:dispatch"
				if p == cp+"/create" && m == "GET" {
					sig = "resource:create-vs-show"
				}
				add(sig, fmt.Sprintf("%s: %s %s ran [%s], the documented table gives [%s]", desc, m, p, strings.Join(rec.log, " "), strings.Join(wantLog, " ")))
			}
			if res.Route < 0 && w.Code != 404 {
				add("resource:status", fmt.Sprintf("%s: %s %s answered %d, expected 404", desc, m, p, w.Code))
			}
		}
	}
}

var c16Spec = fw.Spec[c16Case]{
	ID:      "C16",
	Level:   "model_checking",
	Workers: 1,
	// the only nondeterminism is Go's map iteration order inside Resource (code under test): a confirmation replay may be retried
	ReplayAttempts: 40,
	Rule: "complete enumeration: all 128 subsets of the seven actions as controller method sets (generated types) x with/without Uses() (two distinct middleware, closures of one function literal, for every action, implemented or not) x base in {/, /api/, \"\", /{t}/, /{t:[a-z]{4}}/ (a variable in the base path, plain and with a regex), /v1.2/ (a dot in the base path), /{all}/ (a global variable that spans slashes)}, the variable of the base path probed with three values (acme, english, acme/team1); four resources at once next to a more specific dynamic route of the same first segment; three routers built from ONE slice of option values (each of the 3 caching options, capacities 1, 2, 16), two of them registering the same resource type with their own controller instance and requested alternately; a resource registered after its paths were already served by generic routes (route cache off / 2 / 64) and after a middleware-less group whose body called Use x outside a group / inside Group(/g) / inside Group(/) (group middleware passed with spare capacity) (+ outside a group on a router with a route cache of capacity 1 or 2, all probes issued twice in two orders) (+ outside a group on a HandleFallbackRoute router with a catch-all route for all nine methods) (+ outside a group on a router with a custom NotFound handler and no global middleware, all probes issued twice in two orders); the same controller (whose Uses() table is one shared map) registered twice; the registration order inside Resource is DRIVEN through the insertion order of the exported rux.RESTFulActions map and OBSERVED from rux's own debug print; registration is repeated until every permutation of the implemented actions (k<=4, thorough k<=6 on the plain base; all rotations of two base orders beyond) has been observed, or until >12 differently driven registrations all showed one and the same order of >=2 actions (the order then does not come from the map: counter registration_order_independent_of_map_order); " +
		"per observed order: Routes()/NamedRoutes() equal the documented table exactly, all 9 methods x 8 probe paths dispatch as the reference resolver says over that table (create never served by show, nothing else reachable), per-action middleware runs only for its action; non-pointer / non-struct / wrong-shaped controllers; non-trivial = a distinct (subset, order) registration",
	Assume: []string{"runs single-threaded: RESTFulActions, the debug switch and the colour output are process-global", "Go's small-map iteration starts at a random offset of the insertion order; an order not seen within 400 draws is reported as a cap, never as a violation"},
	Bounds: func(tier string) map[string]any {
		return map[string]any{"subsets": 128, "uses": 2, "bases": 7, "group": 2, "quick_takes_every_second_combination": tier == "quick"}
	},
	Gen:   c16Gen,
	Run:   c16Run,
	Batch: 4,
}

func init() {
	Registry["C16"] = func(args []string) int { return fw.Main(c16Spec, args) }
}
