package checks

import (
	"fmt"
	"io"
	"net/http/httptest"
	"sort"
	"strings"

	"github.com/gookit/color"
	"github.com/gookit/rux"

	"verif/mc/fw"
	"verif/mc/refmodel"
)

// Registration programs: shared by C04 (onion order) and C12 (groups).

type progCase struct {
	Prog []refmodel.Stmt `json:"prog"`
	// Strict: the router is built with StrictLastSlash (trailing slashes of prefixes and paths are significant)
	Strict bool `json:"strict_last_slash,omitempty"`
	// Cache: the router caches dynamic matches (capacity 8); every route is requested a second time (answered from the cache)
	Cache bool `json:"route_cache,omitempty"`
	// Debug: rux's debug mode is on while the program is registered (process-global: such a program runs alone)
	Debug bool `json:"debug_mode_at_registration,omitempty"`
}

// ---- model interpretation ---------------------------------------------------

type mRoute struct {
	Method string
	Path   string // registered (normalised) path
	Req    string // concrete request path
	Chain  []int  // group..., route..., main
	Bare   string // the route's own path without any group prefix (concrete), "" at top level
	Any    bool   // registered for all methods
	Listed string // "" or the method list the route is listed under by Routes() (a route with several methods appears once in the model per method)
}

type mResult struct {
	Global     []int
	Routes     []mRoute
	NotFound   []int
	NotAllowed []int
	N          int
}

func concrete(p string) string {
	return strings.ReplaceAll(strings.ReplaceAll(strings.ReplaceAll(p, "{id}", "7"), "{v}", "vv"), "[.html]", ".html")
}

func modelProgram(prog []refmodel.Stmt, strict bool) *mResult {
	res := &mResult{}
	ids := &refmodel.IDGen{}
	rn, cn := 0, 0
	var walk func(stmts []refmodel.Stmt, prefix string, group []int, inGroup bool)
	addRoute := func(method, prefix, own string, chain []int) {
		p := refmodel.Norm(own, strict)
		bare := ""
		if prefix != "" {
			bare = concrete(p)
			p = refmodel.Norm(prefix+p, strict)
		}
		res.Routes = append(res.Routes, mRoute{Method: method, Path: p, Req: concrete(p), Chain: chain, Bare: bare})
	}
	cat := func(a []int, b ...int) []int { return append(append([]int{}, a...), b...) }
	var sharedIDs []int
	walk = func(stmts []refmodel.Stmt, prefix string, group []int, inGroup bool) {
		for _, s := range stmts {
			switch s.Kind {
			case "use":
				h := ids.Take(s.K)
				if inGroup {
					group = cat(group, h...)
				} else {
					res.Global = append(res.Global, h...)
				}
			case "group":
				var mw []int
				if s.Via == "shared" {
					// all "shared" groups of a program are given ONE caller-owned slice (allocated at the first of them)
					if sharedIDs == nil {
						sharedIDs = ids.Take(s.K)
					}
					mw = sharedIDs
				} else {
					mw = ids.Take(s.K)
				}
				walk(s.Body, prefix+refmodel.Norm(s.Prefix, strict), cat(group, mw...), true)
			case "route":
				if s.Via == "dup" {
					// the same method and path were registered once before, with one middleware and another handler:
					// the later definition replaces the earlier one
					ids.Take(1)
					ids.Take(1)
				}
				mids := ids.Take(s.K)
				main := ids.Take(1)
				later := ids.Take(s.K2)
				own := fmt.Sprintf("/r%d", rn)
				if s.Via == "slash" {
					own += "/"
				}
				if s.Via == "opt" {
					// an optional literal tail and no variable: "/rN[.html]" (asked with the tail)
					own += "[.html]"
				}
				if s.Via == "dyn" {
					// the variable comes right behind the group prefix: all such routes of a group share their literal head
					own = "/{id}" + own
				}
				if s.Via == "hyphen" {
					// a dynamic route whose first segment merely BEGINS with the text of a group prefix used elsewhere ("/api-keys" vs "/api")
					own = "/api-keys/{id}" + own
				}
				if s.Via == "echo" {
					// the route's own path starts with the text of the enclosing groups' prefix
					own = prefix + own
				}
				addRoute("GET", prefix, own, cat(cat(cat(group, mids...), later...), main...))
				res.Routes[len(res.Routes)-1].Any = s.Via == "any"
				if s.Via == "any" {
					res.Routes[len(res.Routes)-1].Listed = "CONNECT,DELETE,GET,HEAD,OPTIONS,PATCH,POST,PUT,TRACE"
				}
				rn++
			case "notfound":
				res.NotFound = ids.Take(s.K)
			case "notallowed":
				res.NotAllowed = ids.Take(s.K)
			case "controller":
				mw := ids.Take(s.K)
				mains := ids.Take(2)
				rmw := ids.Take(1)
				gp := prefix + refmodel.Norm(fmt.Sprintf("%s%d", s.Prefix, cn), strict)
				cn++
				g := cat(group, mw...)
				addRoute("GET", gp, "/", cat(g, mains[0]))
				addRoute("GET", gp, "/{id}", cat(cat(g, rmw...), mains[1]))
			case "resource":
				mw := ids.Take(s.K)
				mains := ids.Take(4) // Index, Show, Store, Update
				uses := ids.Take(4)  // one per-action middleware each (from the controller instance's Uses())
				gp := prefix + refmodel.Norm(fmt.Sprintf("/q%d%swidget", cn, s.Prefix), strict)
				cn++
				g := cat(group, mw...)
				// (the paths Resource itself passes on: "/" and "{id}/")
				addRoute("GET", gp, "/", cat(cat(g, uses[0]), mains[0]))
				addRoute("GET", gp, "{id}/", cat(cat(g, uses[1]), mains[1]))
				addRoute("POST", gp, "/", cat(cat(g, uses[2]), mains[2]))
				// Update is the one action with two methods: both carry the action's middleware
				addRoute("PUT", gp, "{id}/", cat(cat(g, uses[3]), mains[3]))
				res.Routes[len(res.Routes)-1].Listed = "PATCH,PUT"
				addRoute("PATCH", gp, "{id}/", cat(cat(g, uses[3]), mains[3]))
				res.Routes[len(res.Routes)-1].Listed = "PATCH,PUT"
			}
		}
	}
	walk(prog, "", nil, false)
	res.N = ids.N
	return res
}

// ---- harness interpretation ---------------------------------------------------

type progCtl struct {
	hs []rux.HandlerFunc // main handlers, then one route middleware
}

func (c *progCtl) AddRoutes(r *rux.Router) {
	r.GET("/", c.hs[0])
	r.GET("/{id}", c.hs[1], c.hs[2])
}

// Widget is the resource controller of the C12 programs (Index, Show, Store, Update).
type Widget struct {
	index, show, store, update rux.HandlerFunc
	uses                       map[string][]rux.HandlerFunc // per-action middleware of THIS instance
}

// Uses hands out this instance's per-action middleware
func (w *Widget) Uses() map[string][]rux.HandlerFunc { return w.uses }

func (w *Widget) Index(c *rux.Context)  { w.index(c) }
func (w *Widget) Show(c *rux.Context)   { w.show(c) }
func (w *Widget) Store(c *rux.Context)  { w.store(c) }
func (w *Widget) Update(c *rux.Context) { w.update(c) }

// behaviour of handler id: even ids call Next once, odd ids return without calling it
func progBehaviour(id int) refmodel.Behaviour {
	if id%2 == 0 {
		return refmodel.Behaviour{refmodel.SNext}
	}
	return refmodel.Behaviour{}
}

type progRun_ struct {
	r         *rux.Router
	log       []refmodel.Event
	sentinels []string // problems found by the residue sentinels
	nSent     int
	rts       []*rux.Route // the registered routes in model order (nil where the harness holds no handle)
}

func execProgram(prog []refmodel.Stmt, sentinel, strict bool, more ...func(*rux.Router)) (pr *progRun_, pv any) {
	pr = &progRun_{}
	ids := &refmodel.IDGen{}
	rn, cn := 0, 0
	mk := func(k int) []rux.HandlerFunc {
		var hs []rux.HandlerFunc
		for _, id := range ids.Take(k) {
			hs = append(hs, mkHandler(id, progBehaviour(id), &pr.log))
		}
		return hs
	}
	// main handlers never call Next
	mkMain := func(k int) []rux.HandlerFunc {
		var hs []rux.HandlerFunc
		for _, id := range ids.Take(k) {
			hs = append(hs, mkHandler(id, refmodel.Behaviour{}, &pr.log))
		}
		return hs
	}
	spare := func(hs []rux.HandlerFunc, on bool) []rux.HandlerFunc {
		if !on {
			return hs
		}
		s := make([]rux.HandlerFunc, len(hs), len(hs)+4)
		copy(s, hs)
		return s
	}
	var walk func(stmts []refmodel.Stmt, top bool)
	var sharedMW []rux.HandlerFunc // the one caller-owned slice all "shared" groups are given
	gprefix := ""                  // the concatenated normal forms of the enclosing groups' prefixes
	pv = try(func() {
		r := rux.New(append([]func(*rux.Router){rux.HandleMethodNotAllowed}, more...)...)
		if strict {
			r = rux.New(append([]func(*rux.Router){rux.HandleMethodNotAllowed, rux.StrictLastSlash}, more...)...)
		}
		pr.r = r
		walk = func(stmts []refmodel.Stmt, top bool) {
			for _, s := range stmts {
				switch s.Kind {
				case "use":
					r.Use(mk(s.K)...)
				case "group":
					var mw []rux.HandlerFunc
					if s.Via == "shared" {
						if sharedMW == nil {
							sharedMW = mk(s.K)
						}
						mw = sharedMW
					} else {
						mw = spare(mk(s.K), s.Spare)
					}
					body := s.Body
					saved := gprefix
					gprefix += refmodel.Norm(s.Prefix, strict)
					r.Group(s.Prefix, func() { walk(body, false) }, mw...)
					gprefix = saved
				case "route":
					var dupMW, dupMain []rux.HandlerFunc
					if s.Via == "dup" {
						dupMW, dupMain = mk(1), mkMain(1)
					}
					mids := mk(s.K)
					main := mkMain(1)
					later := mk(s.K2)
					path := fmt.Sprintf("/r%d", rn)
					if s.Via == "slash" {
						path += "/"
					}
					if s.Via == "opt" {
						path += "[.html]"
					}
					if s.Via == "dyn" {
						path = "/{id}" + path
					}
					if s.Via == "hyphen" {
						path = "/api-keys/{id}" + path
					}
					if s.Via == "echo" {
						path = gprefix + path
					}
					rn++
					var rt *rux.Route
					switch s.Via {
					case "any":
						r.Any(path, main[0], mids...)
					case "attach":
						rt = rux.NewRoute(path, main[0], "GET").Use(mids...)
						rt.AttachTo(r)
					case "dup":
						r.GET(path, dupMain[0], dupMW...)
						rt = r.GET(path, main[0], mids...)
					default:
						rt = r.GET(path, main[0], mids...)
					}
					if len(later) > 0 {
						rt.Use(later...)
					}
					pr.rts = append(pr.rts, rt)
				case "notfound":
					r.NotFound(mk(s.K)...)
				case "notallowed":
					r.NotAllowed(mk(s.K)...)
				case "controller":
					mw := spare(mk(s.K), s.Spare)
					mains := mkMain(2)
					rmw := mk(1)
					cp := fmt.Sprintf("%s%d", s.Prefix, cn)
					cn++
					r.Controller(cp, &progCtl{hs: []rux.HandlerFunc{mains[0], mains[1], rmw[0]}}, mw...)
					pr.rts = append(pr.rts, nil, nil)
				case "resource":
					mw := spare(mk(s.K), s.Spare)
					mains := mkMain(4)
					um := mk(4)
					rp := fmt.Sprintf("/q%d%s", cn, s.Prefix)
					cn++
					r.Resource(rp, &Widget{index: mains[0], show: mains[1], store: mains[2], update: mains[3],
						uses: map[string][]rux.HandlerFunc{"Index": {um[0]}, "Show": {um[1]}, "Store": {um[2]}, "Update": {um[3]}, "Edit": {um[0], um[1]}}}, mw...)
					pr.rts = append(pr.rts, nil, nil, nil, nil, nil)
				}
				if top && sentinel {
					// residue sentinel: a route registered at top level right now has no prefix and no group middleware
					name := fmt.Sprintf("/zz%d", pr.nSent)
					pr.nSent++
					rt := r.GET(name, func(*rux.Context) {})
					if rt.Path() != name || len(rt.Handlers()) != 0 {
						pr.sentinels = append(pr.sentinels, fmt.Sprintf("after top-level statement %q a route registered as %q has path %q and %d group handlers", s.Kind, name, rt.Path(), len(rt.Handlers())))
					}
				}
			}
		}
		walk(prog, true)
	})
	return
}

func progString(prog []refmodel.Stmt) string {
	var sb strings.Builder
	var w func(stmts []refmodel.Stmt)
	w = func(stmts []refmodel.Stmt) {
		for i, s := range stmts {
			if i > 0 {
				sb.WriteString("; ")
			}
			switch s.Kind {
			case "group":
				fmt.Fprintf(&sb, "Group(%q,mw=%d%s%s){", s.Prefix, s.K, map[bool]string{true: ",spare-cap", false: ""}[s.Spare], map[bool]string{true: ",the-one-caller-owned-slice", false: ""}[s.Via == "shared"])
				w(s.Body)
				sb.WriteString("}")
			case "route":
				fmt.Fprintf(&sb, "Route%s(mw=%d,laterUse=%d)", map[string]string{"": "", "any": ":Any", "attach": ":NewRoute+Use+AttachTo", "echo": ":own-path-repeats-the-group-prefix", "slash": ":path-ends-in-a-slash", "dup": ":registered-a-second-time-for-the-same-method-and-path", "dyn": ":path-begins-with-a-variable", "hyphen": ":/api-keys/{id}/...", "opt": ":optional-literal-tail-without-variable"}[s.Via], s.K, s.K2)
			case "controller", "resource":
				fmt.Fprintf(&sb, "%s(%q,mw=%d)", s.Kind, s.Prefix, s.K)
			default:
				fmt.Fprintf(&sb, "%s(%d)", s.Kind, s.K)
			}
		}
	}
	w(prog)
	return sb.String()
}

func progRun(c progCase, mode string, st *fw.Stats) []fw.Viol {
	var vs []fw.Viol
	add := func(sig, msg string) {
		if len(vs) < 6 {
			vs = append(vs, fw.Viol{Sig: sig, Msg: msg})
		}
	}
	m := modelProgram(c.Prog, c.Strict)
	var more []func(*rux.Router)
	if c.Cache {
		more = append(more, rux.CachingWithNum(8))
	}
	if c.Debug {
		chainDebugMu.Lock()
		color.SetOutput(io.Discard)
		rux.Debug(true)
	} else {
		chainDebugMu.RLock()
	}
	pr, pv := execProgram(c.Prog, mode == "C12", c.Strict, more...)
	if c.Debug {
		rux.Debug(false)
		color.ResetOutput()
		chainDebugMu.Unlock()
	} else {
		chainDebugMu.RUnlock()
	}
	ps := progString(c.Prog)
	if c.Strict {
		ps += " | on a StrictLastSlash router"
	}
	if c.Cache {
		ps += " | on a router that caches dynamic matches"
	}
	if c.Debug {
		ps += " | registered in debug mode"
	}
	if pv != nil {
		add("program:panic", fmt.Sprintf("program [%s]: registration panicked: %v", ps, pv))
		return vs
	}
	if strings.Contains(ps, "Group") || strings.Contains(ps, "use(") || strings.Contains(ps, "controller") || strings.Contains(ps, "resource") {
		st.Nontrivial++
	}
	r := pr.r
	chainEvents := func(chain []int) []refmodel.Event {
		bs := make([]refmodel.Behaviour, len(chain))
		isMain := map[int]bool{}
		for _, rt := range m.Routes {
			isMain[rt.Chain[len(rt.Chain)-1]] = true
		}
		for i, id := range chain {
			if isMain[id] {
				bs[i] = refmodel.Behaviour{}
			} else {
				bs[i] = progBehaviour(id)
			}
		}
		res := refmodel.RunChain(bs, abortCode)
		// translate positions to handler ids
		out := make([]refmodel.Event, len(res.Events))
		for i, e := range res.Events {
			e.H = chain[e.H]
			out[i] = e
		}
		return out
	}
	request := func(method, path string) ([]refmodel.Event, int, any) {
		pr.log = pr.log[:0]
		w := httptest.NewRecorder()
		pv := try(func() { r.ServeHTTP(w, httptest.NewRequest(method, path, nil)) })
		return append([]refmodel.Event(nil), pr.log...), w.Code, pv
	}
	if c.Cache {
		// first pass: every route is requested once (dynamic matches enter the cache); the pass below is then the second
		for _, rt := range m.Routes {
			request(rt.Method, rt.Req)
		}
	}
	for i, rt := range m.Routes {
		st.Evals++
		chain := append(append([]int{}, m.Global...), rt.Chain...)
		want := chainEvents(chain)
		got, _, pv := request(rt.Method, rt.Req)
		what := fmt.Sprintf("program [%s]: route #%d %s %s", ps, i, rt.Method, rt.Path)
		if c.Cache {
			what += " (second request)"
		}
		if pv != nil {
			add("request:panic", fmt.Sprintf("%s: ServeHTTP panicked: %v", what, pv))
			continue
		}
		if evString(got) != evString(want) {
			sig := "order:route"
			if mode == "C12" {
				sig = "group:chain"
			}
			add(sig, fmt.Sprintf("%s (expected chain: global %v then %v): %s", what, m.Global, rt.Chain, diffEvents(got, want)))
		}
		if rt.Any {
			// a route registered with Any() carries the same chain, under the same path, for every method
			for _, om := range []string{"POST", "DELETE", "OPTIONS"} {
				if got2, _, pv2 := request(om, rt.Req); pv2 != nil || evString(got2) != evString(want) {
					sig := "order:route"
					if mode == "C12" {
						sig = "group:chain"
					}
					add(sig, fmt.Sprintf("%s registered with Any(), requested with %s (panic %v; expected chain: global %v then %v): %s", what, om, pv2, m.Global, rt.Chain, diffEvents(got2, want)))
					break
				}
			}
		}
		if mode == "C12" {
			mr, _, _ := r.Match(rt.Method, rt.Req)
			if mr == nil {
				add("group:unreachable", fmt.Sprintf("%s: not reachable at %q", what, rt.Req))
			} else {
				if mr.Path() != rt.Path {
					add("group:path", fmt.Sprintf("%s: registered path is %q", what, mr.Path()))
				}
				if len(mr.Handlers()) != len(rt.Chain)-1 {
					add("group:handler-count", fmt.Sprintf("%s: carries %d middleware, expected %d (%v)", what, len(mr.Handlers()), len(rt.Chain)-1, rt.Chain[:len(rt.Chain)-1]))
				}
			}
			if rt.Bare != "" {
				// exactly under the concatenated prefixes: the un-prefixed path must not reach it
				got2, _, _ := request(rt.Method, rt.Bare)
				main := rt.Chain[len(rt.Chain)-1]
				for _, e := range got2 {
					if e.Kind == "enter" && e.H == main {
						add("group:reachable-without-prefix", fmt.Sprintf("%s: its handler also runs for %q", what, rt.Bare))
					}
				}
			}
		}
	}
	if mode == "C12" {
		for _, s := range pr.sentinels {
			add("group:residue", fmt.Sprintf("program [%s]: %s", ps, s))
		}
		// and nothing else was registered
		infos := r.Routes()
		nWant := pr.nSent
		seen := map[string]bool{}
		for _, rt := range m.Routes {
			if !seen[rt.Method+rt.Path] {
				seen[rt.Method+rt.Path] = true
			}
		}
		// static routes appear once per method in stableRoutes iteration; count distinct (path, methods)
		got := map[string]bool{}
		for _, inf := range infos {
			ms := append([]string{}, inf.Methods...)
			sort.Strings(ms)
			got[strings.Join(ms, ",")+" "+inf.Path] = true
		}
		wantSet := map[string]bool{}
		for _, rt := range m.Routes {
			if rt.Listed != "" {
				wantSet[rt.Listed+" "+rt.Path] = true
				continue
			}
			wantSet[rt.Method+" "+rt.Path] = true
		}
		for i := 0; i < nWant; i++ {
			wantSet[fmt.Sprintf("GET /zz%d", i)] = true
		}
		for k := range got {
			if !wantSet[k] {
				add("group:extra-route", fmt.Sprintf("program [%s]: unexpected route %q registered (expected %d routes)", ps, k, len(wantSet)))
			}
		}
		for k := range wantSet {
			if !got[k] {
				add("group:missing-route", fmt.Sprintf("program [%s]: route %q missing from Routes()", ps, k))
			}
		}
	}
	if mode == "C04" {
		// 404 around the not-found handlers, 405 around the not-allowed handlers - issued twice with the routes in
		// between (404, route, 404 ...), so that a chain left behind by one request cannot serve the next
		for round := 0; round < 2; round++ {
			if round == 1 {
				for i, rt := range m.Routes {
					chain := append(append([]int{}, m.Global...), rt.Chain...)
					want := chainEvents(chain)
					got, _, pv := request(rt.Method, rt.Req)
					if pv == nil && evString(got) != evString(want) {
						add("order:route-after-fallback", fmt.Sprintf("program [%s]: route #%d %s %s requested again after a 404/405 request: %s", ps, i, rt.Method, rt.Path, diffEvents(got, want)))
					}
				}
			}
			st.Evals++
			want := chainEvents(append(append([]int{}, m.Global...), m.NotFound...))
			got, code, pv := request("GET", "/nope/nothing/here")
			if pv != nil {
				add("request:panic", fmt.Sprintf("program [%s]: 404 request panicked: %v", ps, pv))
			} else if evString(got) != evString(want) {
				add("order:notfound", fmt.Sprintf("program [%s]: 404 request (global %v, NotFound %v): %s", ps, m.Global, m.NotFound, diffEvents(got, want)))
			} else if m.NotFound == nil && allNext(m.Global) && code != 404 {
				add("order:notfound-status", fmt.Sprintf("program [%s]: default not-found handler should answer 404, got %d", ps, code))
			}
			for _, rt := range m.Routes {
				other := false
				for _, o := range m.Routes {
					if o.Req == rt.Req && (o.Method != "GET" || o.Any) {
						other = true // the path also has a route for another method (a resource's Store): no 405 there
					}
				}
				if rt.Method == "GET" && !rt.Any && !other && !strings.Contains(rt.Path, "{") {
					st.Evals++
					want := chainEvents(append(append([]int{}, m.Global...), m.NotAllowed...))
					got, code, pv := request("POST", rt.Req)
					if pv != nil {
						add("request:panic", fmt.Sprintf("program [%s]: 405 request panicked: %v", ps, pv))
					} else if evString(got) != evString(want) {
						add("order:notallowed", fmt.Sprintf("program [%s]: POST %s (global %v, NotAllowed %v): %s", ps, rt.Req, m.Global, m.NotAllowed, diffEvents(got, want)))
					} else if m.NotAllowed == nil && code != 405 {
						add("order:notallowed-status", fmt.Sprintf("program [%s]: default not-allowed handler should answer 405, got %d", ps, code))
					}
					// ... and an OPTIONS request for the same path (the built-in responder answers it by itself): the
					// global middleware still runs around it
					st.Evals++
					got, _, pv = request("OPTIONS", rt.Req)
					if pv != nil {
						add("request:panic", fmt.Sprintf("program [%s]: OPTIONS request panicked: %v", ps, pv))
					} else if evString(got) != evString(want) {
						add("order:notallowed-options", fmt.Sprintf("program [%s]: OPTIONS %s (global %v, NotAllowed %v): %s", ps, rt.Req, m.Global, m.NotAllowed, diffEvents(got, want)))
					}
					break
				}
			}
		}
	}
	if mode == "C04" && len(vs) == 0 && len(pr.rts) == len(m.Routes) {
		// middleware attached AFTER requests were served: one more route middleware per route (Route.Use), then one more
		// global middleware (Router.Use); every route is requested again after each step
		lateOf := map[int]int{}
		for i, rt := range m.Routes {
			if pr.rts[i] == nil {
				continue
			}
			id := m.N + 1 + i
			lateOf[i] = id
			if pv := try(func() { pr.rts[i].Use(mkHandler(id, progBehaviour(id), &pr.log)) }); pv != nil {
				add("program:panic", fmt.Sprintf("program [%s]: Route.Use on route #%d after the first requests panicked: %v", ps, i, pv))
				return vs
			}
			_ = rt
		}
		chainOf := func(i int, global []int) []int {
			rt := m.Routes[i]
			ch := append([]int{}, global...)
			ch = append(ch, rt.Chain[:len(rt.Chain)-1]...)
			if id, ok := lateOf[i]; ok {
				ch = append(ch, id)
			}
			return append(ch, rt.Chain[len(rt.Chain)-1])
		}
		global := append([]int{}, m.Global...)
		for step := 0; step < 2; step++ {
			if step == 1 {
				g := m.N + 1 + len(m.Routes)
				global = append(global, g)
				if pv := try(func() { r.Use(mkHandler(g, progBehaviour(g), &pr.log)) }); pv != nil {
					add("program:panic", fmt.Sprintf("program [%s]: Router.Use after the first requests panicked: %v", ps, pv))
					return vs
				}
			}
			for i, rt := range m.Routes {
				st.Evals++
				want := chainEvents(chainOf(i, global))
				got, _, pv := request(rt.Method, rt.Req)
				if pv != nil {
					add("request:panic", fmt.Sprintf("program [%s]: route #%d requested after late middleware was attached: panicked: %v", ps, i, pv))
				} else if evString(got) != evString(want) {
					add("order:late-middleware", fmt.Sprintf("program [%s]: route #%d %s %s, requested again after %s (expected chain %v): %s", ps, i, rt.Method, rt.Path,
						[]string{"a middleware was attached to every route with Route.Use", "then a global middleware was added with Router.Use"}[step], chainOf(i, global), diffEvents(got, want)))
				}
			}
		}
	}
	if st.WantSample() && len(c.Prog) >= 3 {
		st.Sample(map[string]any{"program": ps, "routes": len(m.Routes), "handlers": m.N})
	}
	return vs
}

func allNext(ids []int) bool { return true }

// ---- program enumeration ---------------------------------------------------

func progVariants(mode string, depth int, inGroup bool) []refmodel.Stmt {
	var v []refmodel.Stmt
	prefixes := [][]string{{"/g", "x", "/{v}"}, {"/h", "y/", "/g"}, {"/g/h"}}
	if mode == "C04" {
		prefixes = [][]string{{"/g", "/"}, {"/h"}, {"/g/h"}}
		v = append(v, refmodel.Stmt{Kind: "use", K: 1}, refmodel.Stmt{Kind: "use", K: 2})
		for _, kk := range [][2]int{{0, 0}, {1, 0}, {2, 0}, {0, 1}, {1, 1}} {
			v = append(v, refmodel.Stmt{Kind: "route", K: kk[0], K2: kk[1]})
		}
		v = append(v, refmodel.Stmt{Kind: "route", K: 1, Via: "any"}, refmodel.Stmt{Kind: "route", K: 2, K2: 1, Via: "attach"})
		v = append(v, refmodel.Stmt{Kind: "resource", Prefix: "/", K: 0})
		if !inGroup {
			v = append(v, refmodel.Stmt{Kind: "notfound", K: 1}, refmodel.Stmt{Kind: "notfound", K: 2}, refmodel.Stmt{Kind: "notallowed", K: 1})
		}
	} else {
		v = append(v, refmodel.Stmt{Kind: "use", K: 1})
		v = append(v, refmodel.Stmt{Kind: "route", K: 0}, refmodel.Stmt{Kind: "route", K: 1, K2: 1}, refmodel.Stmt{Kind: "route", K: 1, Via: "attach"})

		if inGroup {
			v = append(v, refmodel.Stmt{Kind: "route", K: 0, Via: "echo"})
			v = append(v, refmodel.Stmt{Kind: "route", K: 0, Via: "slash"})
		}
		v = append(v, refmodel.Stmt{Kind: "controller", Prefix: "/c", K: 0}, refmodel.Stmt{Kind: "controller", Prefix: "/c", K: 1, Spare: true})
		v = append(v, refmodel.Stmt{Kind: "resource", Prefix: "/", K: 0}, refmodel.Stmt{Kind: "resource", Prefix: "/Api/", K: 1})
	}
	if depth < len(prefixes) {
		for _, p := range prefixes[depth] {
			for k := 0; k <= 2; k++ {
				if p == "/{v}" && k != 1 {
					continue // the variable prefix once, with one middleware
				}
				v = append(v, refmodel.Stmt{Kind: "group", Prefix: p, K: k})
				if mode == "C12" && k == 1 {
					v = append(v, refmodel.Stmt{Kind: "group", Prefix: p, K: k, Spare: true})
				}
			}
		}
	}
	return v
}

func progEnum(mode string, budget, depth int, inGroup bool, cb func(body []refmodel.Stmt, used int)) {
	cb(nil, 0)
	if budget == 0 {
		return
	}
	for _, v := range progVariants(mode, depth, inGroup) {
		v := v
		if v.Kind == "group" {
			progEnum(mode, budget-1, depth+1, true, func(inner []refmodel.Stmt, u int) {
				g := v
				g.Body = append([]refmodel.Stmt(nil), inner...)
				progEnum(mode, budget-1-u, depth, inGroup, func(rest []refmodel.Stmt, u2 int) {
					cb(append([]refmodel.Stmt{g}, rest...), 1+u+u2)
				})
			})
		} else {
			progEnum(mode, budget-1, depth, inGroup, func(rest []refmodel.Stmt, u2 int) {
				cb(append([]refmodel.Stmt{v}, rest...), 1+u2)
			})
		}
	}
}

func progHasVia(prog []refmodel.Stmt, via string) bool {
	for _, s := range prog {
		if s.Via == via || progHasVia(s.Body, via) {
			return true
		}
	}
	return false
}

func progHasKind(prog []refmodel.Stmt, kind string) bool {
	for _, s := range prog {
		if s.Kind == kind || progHasKind(s.Body, kind) {
			return true
		}
	}
	return false
}

// progSpecials: a few programs beyond the statement bound, built around one caller-owned middleware slice that is
// passed to several groups (with groups that call Use in between)
func progSpecials() [][]refmodel.Stmt {
	route := refmodel.Stmt{Kind: "route", K: 0}
	route1 := refmodel.Stmt{Kind: "route", K: 1, K2: 1}
	use := refmodel.Stmt{Kind: "use", K: 1}
	sh := func(prefix string, k int, body ...refmodel.Stmt) refmodel.Stmt {
		return refmodel.Stmt{Kind: "group", Prefix: prefix, K: k, Via: "shared", Body: body}
	}
	g := func(prefix string, k int, body ...refmodel.Stmt) refmodel.Stmt {
		return refmodel.Stmt{Kind: "group", Prefix: prefix, K: k, Body: body}
	}
	var out [][]refmodel.Stmt
	// a fixed path registered a second time for the same method (the later definition is the route)
	for _, kk := range [][2]int{{0, 0}, {1, 0}, {0, 1}, {1, 1}, {2, 2}} {
		dup := refmodel.Stmt{Kind: "route", K: kk[0], K2: kk[1], Via: "dup"}
		out = append(out,
			[]refmodel.Stmt{dup},
			[]refmodel.Stmt{use, dup, route},
			[]refmodel.Stmt{g("/g", 1, dup, route1), dup},
			[]refmodel.Stmt{g("/g", 2, use, dup), g("/h", 0, dup)},
		)
	}
	// dynamic routes under group prefixes of two segments that are opened, left and opened again
	dyn := refmodel.Stmt{Kind: "route", K: 0, Via: "dyn"}
	dyn1 := refmodel.Stmt{Kind: "route", K: 1, K2: 1, Via: "dyn"}
	out = append(out,
		[]refmodel.Stmt{g("/api/v1", 0, dyn), g("/api/v2", 0, dyn), g("/api/v1", 0, dyn), dyn},
		[]refmodel.Stmt{g("/api/v1", 1, dyn1, dyn), g("/api/v2", 1, dyn), g("/api/v1", 1, dyn), g("/api/v3", 0, dyn), g("/api/v2", 0, dyn1)},
		[]refmodel.Stmt{g("/api", 0, g("/v1", 0, dyn), g("/v2", 0, dyn, dyn), g("/v1", 0, dyn)), g("/api/v2", 0, dyn)},
	)
	// routes registered with Any() inside groups (every method carries the chain, under the group's path)
	anyR := refmodel.Stmt{Kind: "route", K: 1, Via: "any"}
	out = append(out,
		[]refmodel.Stmt{g("/g", 1, anyR)},
		[]refmodel.Stmt{use, g("/g", 2, anyR, g("/h", 0, use, anyR)), anyR},
		[]refmodel.Stmt{g("/{v}", 1, anyR, route)},
	)
	// routes with an optional literal tail and no variable, under prefixes of one, two and three literal segments
	opt := refmodel.Stmt{Kind: "route", K: 0, Via: "opt"}
	opt1 := refmodel.Stmt{Kind: "route", K: 1, K2: 1, Via: "opt"}
	out = append(out,
		[]refmodel.Stmt{opt, g("/api", 0, opt, g("/v1", 0, opt1, route)), opt},
		[]refmodel.Stmt{g("/api/v1", 1, opt, route), g("/api", 0, opt), opt1},
		[]refmodel.Stmt{g("/a", 0, g("/b", 0, g("/c", 1, opt, opt1))), g("/a/b", 0, opt)},
	)
	hy := refmodel.Stmt{Kind: "route", K: 0, Via: "hyphen"}
	out = append(out,
		[]refmodel.Stmt{g("/api", 0, dyn), hy, route},
		[]refmodel.Stmt{g("/api", 1, route), hy, g("/api-keys", 0, dyn), hy},
		[]refmodel.Stmt{hy, g("/api", 0, g("/v1", 0, dyn)), hy, dyn},
	)
	for _, k := range []int{1, 2, 3} {
		out = append(out,
			[]refmodel.Stmt{sh("/s1", k, route), g("/g", 0, use, route), sh("/s2", k, route)},
			[]refmodel.Stmt{sh("/s1", k), g("/g", 0, use, use, route1), sh("/s2", k, route1), route},
			[]refmodel.Stmt{sh("/s1", k, route), g("/g", 0, use), g("/h", 0, use, route), sh("/s2", k, route), sh("/s3", k, use, route)},
			[]refmodel.Stmt{g("/o", 1, sh("/s1", k, route), g("/g", 0, use, route), sh("/s2", k, route))},
			[]refmodel.Stmt{sh("/s1", k, route), g("/g", 1, use, route), sh("/s2", k, route)},
			[]refmodel.Stmt{sh("/s1", k, g("/in", 0, use, route)), g("/g", 0, use, route), sh("/s2", k, route)},
		)
	}
	return out
}

func progGen(tier, mode string, emit func(progCase)) {
	for _, p := range progSpecials() {
		emit(progCase{Prog: p})
		emit(progCase{Prog: p, Strict: true})
	}
	// programs registered while rux's debug mode is on: groups / controllers / resources with 2 and 3 middleware of one call
	{
		route := refmodel.Stmt{Kind: "route", K: 1, K2: 1}
		for _, k := range []int{2, 3} {
			for _, p := range [][]refmodel.Stmt{
				{{Kind: "group", Prefix: "/g", K: k, Body: []refmodel.Stmt{route}}},
				{{Kind: "use", K: 2}, {Kind: "group", Prefix: "/g", K: k, Body: []refmodel.Stmt{{Kind: "group", Prefix: "/h", K: k, Body: []refmodel.Stmt{route}}, route}}, route},
				{{Kind: "controller", Prefix: "/c", K: k}, {Kind: "resource", Prefix: "/", K: k}},
				{{Kind: "group", Prefix: "/g", K: k, Spare: true, Body: []refmodel.Stmt{{Kind: "use", K: 2}, route, {Kind: "controller", Prefix: "/c", K: k}}}},
			} {
				emit(progCase{Prog: p, Debug: true})
			}
		}
	}
	n := 4
	if tier == "thorough" {
		n = 5
	}
	if mode == "C12" {
		n = 4
		if tier == "thorough" {
			n = 5
		}
	}
	progEnum(mode, n, 0, false, func(body []refmodel.Stmt, used int) {
		// a program with a route whose path ends in '/' runs on a StrictLastSlash router (without that option the
		// route is the same as a plain one); every program that has a group and at most 3 statements runs on both
		strict := progHasVia(body, "slash")
		emit(progCase{Prog: append([]refmodel.Stmt(nil), body...), Strict: strict})
		if mode == "C12" && !strict && used <= 3 && progHasKind(body, "group") {
			emit(progCase{Prog: append([]refmodel.Stmt(nil), body...), Strict: true})
		}
		// programs with dynamic routes (controllers, resources) also on a caching router, every route requested twice
		if !strict && used <= 3 && (progHasKind(body, "controller") || progHasKind(body, "resource")) {
			emit(progCase{Prog: append([]refmodel.Stmt(nil), body...), Cache: true})
		}
	})
}
