package checks

import (
	"errors"
	"fmt"
	"io"
	"net/http"
	"net/http/httptest"
	"strings"
	"sync"

	"github.com/gookit/color"

	"github.com/gookit/rux"

	"verif/mc/refmodel"
)

// shared chain harness for C04 / C05: a chain of n handlers (n-1 middleware
// split into global / group / route, plus the main handler) whose bodies are
// refmodel.Behaviours executed on the real Context.

type chainShape struct {
	N     int    `json:"n"`     // chain length including the main handler
	Split [3]int `json:"split"` // global, group, route middleware counts (sum = n-1)
	Via   string `json:"via"`   // how route middleware is attached: "variadic" | "use" | "mixed" | "resource:<Action>:<METHOD>" (the Uses() table of a resource controller)
	Beh   string `json:"beh"`   // one behaviour code (letter) per handler
	// Hooks: router-level hooks installed before serving: 'E' = OnError (writes nothing), 'P' = OnPanic (never fires:
	// no handler panics); neither may change what the chain does. 'W' = an extra first global middleware replaces c.Resp
	// by a pass-through wrapper that, like net/http, sends 200 itself when the first write comes without a WriteHeader.
	// 'H' = before the measured request the router served a request whose handler hijacked the connection, and a 404.
	// 'X' = before the measured request the router served a request in which a handler aborted and a suspended middleware
	// then panicked (no OnPanic hook: the panic reached the caller). 'D' = rux's debug mode is on (process-global: such
	// chains run alone, every other chain holds a read lock meanwhile).
	// 'S' = the group's middleware is added with one Use call each inside the group (spare slice capacity) and a SIBLING
	// route with a route-level middleware of its own is registered in the same group after the measured route.
	// 'V' = every list of middleware is handed over as a caller-owned spread slice WITH SPARE CAPACITY that the caller
	// uses again afterwards: the first global middleware (the others follow by single Use calls; the same slice then
	// starts a second router that adds one more), the route's variadic middleware (the same slice is then given to a
	// sibling route, which adds one more with Route.Use).
	// 'K' = the router caches dynamic matches; the measured chain belongs to a route registered for HEAD only (/x/{id});
	// a GET route with two other middleware covers the same path; the history is GET, HEAD, then the measured HEAD.
	// 'Y' = the request is sent to ANOTHER route (/fwd) whose first middleware forwards it with HandleContext to the
	// measured route; /fwd's own main handler must not run afterwards
	// (chains without global middleware only).
	// 'C' = the router caches dynamic matches, the route is dynamic (/x/{id}) and the measured request is the SECOND
	// identical one (answered from the route cache).
	Hooks string `json:"hooks,omitempty"`
}

const abortCode = 403

type chainObs struct {
	events []refmodel.Event
	status int
	body   string
	pv     any
}

func evString(es []refmodel.Event) string {
	var sb strings.Builder
	for i, e := range es {
		if i > 0 {
			sb.WriteByte(' ')
		}
		sb.WriteString(e.String())
	}
	return sb.String()
}

// compactEvents renders long traces by showing the region around the first difference
func diffEvents(got, want []refmodel.Event) string {
	i := 0
	for i < len(got) && i < len(want) && got[i] == want[i] {
		i++
	}
	lo := i - 4
	if lo < 0 {
		lo = 0
	}
	hiG, hiW := i+6, i+6
	if hiG > len(got) {
		hiG = len(got)
	}
	if hiW > len(want) {
		hiW = len(want)
	}
	return fmt.Sprintf("first difference at event %d (of %d observed / %d expected): observed …%s… expected …%s…", i, len(got), len(want), evString(got[lo:hiG]), evString(want[lo:hiW]))
}

func mkHandler(id int, b refmodel.Behaviour, log *[]refmodel.Event) rux.HandlerFunc {
	return func(c *rux.Context) {
		*log = append(*log, refmodel.Event{Kind: "enter", H: id})
		*log = append(*log, refmodel.Event{Kind: "probe", H: id, Aborted: c.IsAborted()})
		for _, s := range b {
			switch s {
			case refmodel.SNext:
				c.Next()
			case refmodel.SAbort:
				c.Abort()
			case refmodel.SAbortThen:
				c.AbortThen()
			case refmodel.SAbortSt:
				c.AbortWithStatus(abortCode)
			case refmodel.SAbortStMsg:
				c.AbortWithStatus(abortCode, "no")
			case refmodel.SStatus:
				c.SetStatus(201)
			case refmodel.SAbortSt200:
				c.AbortWithStatus(200)
			case refmodel.SRedispAbort:
				c.Req.URL.Path = "/inner"
				c.Router().HandleContext(c)
			case refmodel.SReplaceChain:
				c.SetHandlers(rux.HandlersChain{func(*rux.Context) {
					*log = append(*log, refmodel.Event{Kind: "enter", H: 700 + id})
				}})
			case refmodel.SAddErr:
				c.AddError(errors.New("recorded"))
			case refmodel.SWrite:
				c.WriteString("x")
			case refmodel.SFlush:
				c.Resp.(http.Flusher).Flush()
			case refmodel.SWriteStr:
				_, _ = io.WriteString(c.Resp, "x")
			case refmodel.SProbe:
				*log = append(*log, refmodel.Event{Kind: "probe", H: id, Aborted: c.IsAborted()})
			case refmodel.SReturn:
				*log = append(*log, refmodel.Event{Kind: "leave", H: id})
				return
			}
		}
		*log = append(*log, refmodel.Event{Kind: "leave", H: id})
	}
}

// debug mode is process-global: chains that switch it on run alone
var chainDebugMu sync.RWMutex

// statusW is a transparent ResponseWriter wrapper of the usual kind: it passes everything on and, when the first write
// arrives without a WriteHeader, announces 200 itself first
type statusW struct {
	http.ResponseWriter
	wrote bool
}

func (w *statusW) WriteHeader(code int) {
	w.wrote = true
	w.ResponseWriter.WriteHeader(code)
}

func (w *statusW) Write(b []byte) (int, error) {
	if !w.wrote {
		w.WriteHeader(200)
	}
	return w.ResponseWriter.Write(b)
}

// ChainRes is a resource controller with all seven actions; handlers and per-action middleware are set per instance
type ChainRes struct {
	h    map[string]rux.HandlerFunc
	uses map[string][]rux.HandlerFunc
}

func (c *ChainRes) Uses() map[string][]rux.HandlerFunc { return c.uses }
func (c *ChainRes) Index(x *rux.Context)               { c.h["Index"](x) }
func (c *ChainRes) Create(x *rux.Context)              { c.h["Create"](x) }
func (c *ChainRes) Store(x *rux.Context)               { c.h["Store"](x) }
func (c *ChainRes) Show(x *rux.Context)                { c.h["Show"](x) }
func (c *ChainRes) Edit(x *rux.Context)                { c.h["Edit"](x) }
func (c *ChainRes) Update(x *rux.Context)              { c.h["Update"](x) }
func (c *ChainRes) Delete(x *rux.Context)              { c.h["Delete"](x) }

// chainResVias: every (action, method) of the REST table
var chainResVias = []string{"resource:Index:GET", "resource:Create:GET", "resource:Store:POST", "resource:Show:GET", "resource:Edit:GET", "resource:Update:PUT", "resource:Update:PATCH", "resource:Delete:DELETE"}

// runChain builds the router for the shape and serves one request.
func runChain(sh chainShape, table map[byte]refmodel.Behaviour) (obs chainObs, bs []refmodel.Behaviour, regPanic any) {
	if strings.Contains(sh.Hooks, "D") {
		chainDebugMu.Lock()
		color.SetOutput(io.Discard)
		rux.Debug(true)
		defer func() {
			rux.Debug(false)
			color.ResetOutput()
			chainDebugMu.Unlock()
		}()
	} else {
		chainDebugMu.RLock()
		defer chainDebugMu.RUnlock()
	}
	n := sh.N
	bs = make([]refmodel.Behaviour, n)
	for i := 0; i < n; i++ {
		bs[i] = table[sh.Beh[i]]
	}
	var log []refmodel.Event
	hs := make([]rux.HandlerFunc, n)
	for i := range hs {
		hs[i] = mkHandler(i, bs[i], &log)
	}
	g, p, rt := sh.Split[0], sh.Split[1], sh.Split[2]
	r := rux.New()
	routePath, reqPath := "/x", "/x"
	if strings.Contains(sh.Hooks, "C") || strings.Contains(sh.Hooks, "K") || strings.Contains(sh.Hooks, "M") {
		r = rux.New(rux.CachingWithNum(4))
		routePath, reqPath = "/x/{id}", "/x/7"
	}
	method := "GET"
	if strings.Contains(sh.Hooks, "K") {
		method = "HEAD"
	}
	if strings.Contains(sh.Hooks, "M") {
		method = "PUT"
	}
	if strings.HasPrefix(sh.Via, "resource:") {
		parts := strings.Split(sh.Via, ":")
		method = parts[2]
		routePath = map[string]string{"Index": "/chainres", "Create": "/chainres/create", "Store": "/chainres", "Show": "/chainres/7", "Edit": "/chainres/7/edit", "Update": "/chainres/7", "Delete": "/chainres/7"}[parts[1]]
		reqPath = routePath
	}
	if strings.Contains(sh.Hooks, "E") {
		r.OnError = func(c *rux.Context) { _ = c.FirstError() }
	}
	if strings.Contains(sh.Hooks, "P") {
		r.OnPanic = func(c *rux.Context) { c.AbortWithStatus(599) }
	}
	if strings.Contains(sh.Hooks, "W") {
		r.Use(func(c *rux.Context) {
			c.Resp = &statusW{ResponseWriter: c.Resp}
			c.Next()
		})
	}
	if strings.Contains(sh.Hooks, "X") {
		r.GET("/abort-then-panic", func(c *rux.Context) { c.AbortWithStatus(403) }, func(c *rux.Context) {
			c.Next()
			panic("after the chain was aborted")
		})
	}
	if strings.Contains(sh.Hooks, "H") {
		r.GET("/hijack-first", func(c *rux.Context) {
			if conn, _, err := c.Resp.(http.Hijacker).Hijack(); err == nil && conn != nil {
				_ = conn.Close()
			}
		})
	}
	if sh.Via == "notfound-custom-first" {
		// the chain is: n-1 global middleware around a custom NotFound handler that was installed BEFORE they were added
		regPanic = try(func() {
			r.NotFound(hs[n-1])
			for i := 0; i < n-1; i++ {
				r.Use(hs[i])
			}
		})
		if regPanic != nil {
			return
		}
		w := httptest.NewRecorder()
		obs.pv = try(func() { r.ServeHTTP(w, httptest.NewRequest("GET", "/no/such/route", nil)) })
		obs.events, obs.status, obs.body = log, w.Code, w.Body.String()
		return
	}
	if sh.Via == "notfound-custom-only" {
		// the chain is a custom NotFound chain of n handlers on a router WITHOUT global middleware; the router has served
		// an unmatched and a matched request (twice) before the measured one
		regPanic = try(func() {
			r.NotFound(hs...)
			r.GET("/ok", func(*rux.Context) {}, func(*rux.Context) {}, func(*rux.Context) {})
		})
		if regPanic != nil {
			return
		}
		for i := 0; i < 2; i++ {
			_ = try(func() { r.ServeHTTP(httptest.NewRecorder(), httptest.NewRequest("GET", "/no/such/route/before", nil)) })
			_ = try(func() { r.ServeHTTP(httptest.NewRecorder(), httptest.NewRequest("GET", "/ok", nil)) })
		}
		log = log[:0]
		w := httptest.NewRecorder()
		obs.pv = try(func() { r.ServeHTTP(w, httptest.NewRequest("GET", "/no/such/route", nil)) })
		obs.events, obs.status, obs.body = log, w.Code, w.Body.String()
		return
	}
	if sh.Via == "notallowed" || sh.Via == "notallowed-options" {
		// the chain is: n-1 global middleware around the built-in not-allowed responder (the path exists for GET only)
		r = rux.New(rux.HandleMethodNotAllowed)
		regPanic = try(func() {
			for i := 0; i < n-1; i++ {
				r.Use(hs[i])
			}
			r.GET("/only-get", func(*rux.Context) {})
		})
		if regPanic != nil {
			return
		}
		m := "POST"
		if sh.Via == "notallowed-options" {
			m = "OPTIONS"
		}
		w := httptest.NewRecorder()
		obs.pv = try(func() { r.ServeHTTP(w, httptest.NewRequest(m, "/only-get", nil)) })
		obs.events, obs.status, obs.body = log, w.Code, w.Body.String()
		return
	}
	if sh.Via == "notfound" {
		// the chain is: n-1 global middleware around the built-in not-found responder (no route matches)
		regPanic = try(func() {
			for i := 0; i < n-1; i++ {
				r.Use(hs[i])
			}
		})
		if regPanic != nil {
			return
		}
		w := httptest.NewRecorder()
		obs.pv = try(func() { r.ServeHTTP(w, httptest.NewRequest("GET", "/no/such/route", nil)) })
		obs.events, obs.status, obs.body = log, w.Code, w.Body.String()
		return
	}
	regPanic = try(func() {
		// global middleware: added one by one (spare capacity in the slice) when there are several - in debug-mode
		// chains with one call for all of them
		noop := func(*rux.Context) {}
		ownedCopy := func(l []rux.HandlerFunc) []rux.HandlerFunc {
			c := make([]rux.HandlerFunc, len(l), len(l)+4)
			copy(c, l)
			return c
		}
		if strings.Contains(sh.Hooks, "V") && g > 0 {
			first := ownedCopy(hs[:1])
			r.Use(first...)
			for i := 1; i < g; i++ {
				r.Use(hs[i])
			}
			// the caller goes on using its slice: a second router starts from it and adds a handler of its own
			r2 := rux.New()
			r2.Use(first...)
			r2.Use(noop)
			r2.Use(noop)
		} else if strings.Contains(sh.Hooks, "D") && g > 1 {
			r.Use(hs[:g]...)
		} else {
			for i := 0; i < g; i++ {
				r.Use(hs[i])
			}
		}
		reg := func() {
			rm := hs[g+p : g+p+rt]
			if strings.HasPrefix(sh.Via, "resource:") {
				// the measured chain is that of one action of a resource controller: its route middleware comes from Uses()
				parts := strings.Split(sh.Via, ":")
				noopH := func(*rux.Context) {}
				ctl := &ChainRes{h: map[string]rux.HandlerFunc{}, uses: map[string][]rux.HandlerFunc{}}
				for _, a := range []string{"Index", "Create", "Store", "Show", "Edit", "Update", "Delete"} {
					ctl.h[a] = noopH
					ctl.uses[a] = []rux.HandlerFunc{noopH}
				}
				ctl.h[parts[1]] = hs[n-1]
				ctl.uses[parts[1]] = rm
				r.Resource("/", ctl)
				return
			}
			if strings.Contains(sh.Hooks, "V") {
				h := len(rm) / 2
				if sh.Via == "variadic" {
					h = len(rm)
				} else if sh.Via == "use" {
					h = 0
				}
				list := ownedCopy(rm[:h])
				r.GET(routePath, hs[n-1], list...).Use(rm[h:]...)
				r.GET("/siblingV", noop, list...).Use(noop, noop)
				r.POST("/siblingV", noop, list...).Use(noop)
				return
			}
			if strings.Contains(sh.Hooks, "N") {
				// registered for all methods with Any from a caller-owned slice which the caller overwrites afterwards
				list := ownedCopy(rm)
				r.Any(routePath, hs[n-1], list...)
				for i := range list {
					list[i] = func(c *rux.Context) { log = append(log, refmodel.Event{H: 300, Kind: "callers-later-slice-content"}) }
				}
				return
			}
			if strings.Contains(sh.Hooks, "M") {
				other := func(c *rux.Context) { log = append(log, refmodel.Event{H: 200, Kind: "foreign-post-put-route"}) }
				r.Add(routePath, hs[n-1], "PUT").Use(rm...)
				r.Add("/{sec}/{id}", other, "POST", "PUT").Use(other, other)
				return
			}
			if strings.Contains(sh.Hooks, "K") {
				other := func(c *rux.Context) { log = append(log, refmodel.Event{H: 200, Kind: "foreign-get-route"}) }
				r.GET(routePath, other, other, other)
				r.Add(routePath, hs[n-1], "HEAD").Use(rm...)
				return
			}
			switch sh.Via {
			case "use":
				r.GET(routePath, hs[n-1]).Use(rm...)
			case "mixed":
				h := len(rm) / 2
				r.GET(routePath, hs[n-1], rm[:h]...).Use(rm[h:]...)
			default:
				r.GET(routePath, hs[n-1], rm...)
			}
		}
		if p > 0 && strings.Contains(sh.Hooks, "S") {
			r.Group("/", func() {
				for _, m := range hs[g : g+p] {
					r.Use(m)
				}
				reg()
				r.GET("/sibling", func(*rux.Context) {}).Use(func(*rux.Context) {})
				r.GET("/sibling2", func(*rux.Context) {}, func(*rux.Context) {}, func(*rux.Context) {})
			})
			// a route outside the group, registered afterwards: the group's Use middleware is none of its business
			r.GET("/outside-the-group", func(*rux.Context) {})
		} else if p > 0 {
			r.Group("/", reg, hs[g:g+p]...)
		} else {
			reg()
		}
	})
	if regPanic != nil {
		return
	}
	if strings.Contains(sh.Hooks, "Y") {
		stray := func(c *rux.Context) { log = append(log, refmodel.Event{Kind: "enter", H: 300}) }
		target := reqPath
		// (/fwd's chain is forwarder + main: not longer than the measured chain, see DESIGN note L2)
		r.GET("/fwd", stray, func(c *rux.Context) {
			c.Req.URL.Path = target
			c.Router().HandleContext(c)
		})
		reqPath = "/fwd"
	}
	if strings.Contains(sh.Beh, "r") {
		// the route a handler may re-dispatch to: one aborting middleware, a main handler that must never start
		r.GET("/inner", mkHandler(101, refmodel.Behaviour{}, &log), mkHandler(100, refmodel.Behaviour{refmodel.SProbe, refmodel.SAbort, refmodel.SProbe}, &log))
	}
	if strings.Contains(sh.Hooks, "H") {
		_ = try(func() {
			r.ServeHTTP(&hjRec{ResponseRecorder: httptest.NewRecorder()}, httptest.NewRequest("GET", "/hijack-first", nil))
		})
		_ = try(func() { r.ServeHTTP(httptest.NewRecorder(), httptest.NewRequest("GET", "/no/such/route/either", nil)) })
		log = log[:0]
	}
	if strings.Contains(sh.Hooks, "C") {
		_ = try(func() { r.ServeHTTP(httptest.NewRecorder(), httptest.NewRequest("GET", reqPath, nil)) })
		log = log[:0]
	}
	if strings.Contains(sh.Hooks, "K") {
		_ = try(func() { r.ServeHTTP(httptest.NewRecorder(), httptest.NewRequest("GET", reqPath, nil)) })
		_ = try(func() { r.ServeHTTP(httptest.NewRecorder(), httptest.NewRequest("HEAD", reqPath, nil)) })
		log = log[:0]
	}
	if strings.Contains(sh.Hooks, "M") {
		_ = try(func() { r.ServeHTTP(httptest.NewRecorder(), httptest.NewRequest("POST", reqPath, nil)) })
		log = log[:0]
	}
	if strings.Contains(sh.Hooks, "X") {
		_ = try(func() { r.ServeHTTP(httptest.NewRecorder(), httptest.NewRequest("GET", "/abort-then-panic", nil)) })
		log = log[:0]
	}
	w := httptest.NewRecorder()
	var hw http.ResponseWriter = w
	if strings.Contains(sh.Hooks, "L") {
		hw = lostW{w}
	}
	obs.pv = try(func() { r.ServeHTTP(hw, httptest.NewRequest(method, reqPath, nil)) })
	if p > 0 && g == 0 && strings.Contains(sh.Hooks, "S") {
		// (no global middleware: a request for the route outside the group runs none of the instrumented handlers)
		n0 := len(log)
		_ = try(func() { r.ServeHTTP(httptest.NewRecorder(), httptest.NewRequest("GET", "/outside-the-group", nil)) })
		if len(log) != n0 {
			log = append(log[:n0:n0], refmodel.Event{Kind: "enter", H: 900 + log[n0].H})
		}
	}
	obs.events = log
	obs.status = w.Code
	obs.body = w.Body.String()
	return
}

// lostW is the writer of a client that is gone: the status line is accepted, every body byte is refused.
type lostW struct{ *httptest.ResponseRecorder }

func (lostW) Write([]byte) (int, error)       { return 0, errLostClient }
func (lostW) WriteString(string) (int, error) { return 0, errLostClient }

var errLostClient = errors.New("verif: write on a connection whose client is gone")
