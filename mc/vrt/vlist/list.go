// Copyright 2009 The Go Authors. All rights reserved.
// Use of this source code is governed by a BSD-style
// license that can be found in the LICENSE file.

// Package list implements a doubly linked list.
//
// To iterate over a list (where l is a *List):
//
//	for e := l.Front(); e != nil; e = e.Next() {
//		// do something with e.Value
//	}
package vlist

// This file is container/list from the Go distribution (BSD-style licence, see the
// header above) with scheduling points (vrt.Step) between the pointer writes of
// insert / remove / move and declared accesses (vrt.Access) for the happens-before
// monitor. It replaces "container/list" inside gookit/rux in the instrumented build only.

import "github.com/gookit/rux/vrt"

// Element is an element of a linked list.
type Element struct {
	// Next and previous pointers in the doubly-linked list of elements.
	// To simplify the implementation, internally a list l is implemented
	// as a ring, such that &l.root is both the next element of the last
	// list element (l.Back()) and the previous element of the first list
	// element (l.Front()).
	next, prev *Element

	// The list to which this element belongs.
	list *List

	// The value stored with this element.
	Value any
}

// Next returns the next list element or nil.
func (e *Element) Next() *Element {
	if p := e.next; e.list != nil && p != &e.list.root {
		return p
	}
	return nil
}

// Prev returns the previous list element or nil.
func (e *Element) Prev() *Element {
	if p := e.prev; e.list != nil && p != &e.list.root {
		return p
	}
	return nil
}

// List represents a doubly linked list.
// The zero value for List is an empty list ready to use.
type List struct {
	root Element // sentinel list element, only &root, root.prev, and root.next are used
	len  int     // current list length excluding (this) sentinel element
}

// Init initializes or clears list l.
func (l *List) Init() *List {
	l.root.next = &l.root
	l.root.prev = &l.root
	l.len = 0
	return l
}

// New returns an initialized list.
func New() *List { return new(List).Init() }

// Len returns the number of elements of list l.
// The complexity is O(1).
func (l *List) Len() int {
	vrt.Access(l, "route-cache list", false)
	return l.len
}

// Front returns the first element of list l or nil if the list is empty.
func (l *List) Front() *Element {
	vrt.Access(l, "route-cache list", false)
	if l.len == 0 {
		return nil
	}
	return l.root.next
}

// Back returns the last element of list l or nil if the list is empty.
func (l *List) Back() *Element {
	vrt.Access(l, "route-cache list", false)
	if l.len == 0 {
		return nil
	}
	return l.root.prev
}

// lazyInit lazily initializes a zero List value.
func (l *List) lazyInit() {
	if l.root.next == nil {
		l.Init()
	}
}

// insert inserts e after at, increments l.len, and returns e.
func (l *List) insert(e, at *Element) *Element {
	vrt.Access(l, "route-cache list", true)
	e.prev = at
	vrt.Step()
	e.next = at.next
	vrt.Step()
	e.prev.next = e
	vrt.Step()
	e.next.prev = e
	vrt.Step()
	e.list = l
	vrt.Step()
	l.len++
	vrt.Step()
	return e
}

// insertValue is a convenience wrapper for insert(&Element{Value: v}, at).
func (l *List) insertValue(v any, at *Element) *Element {
	return l.insert(&Element{Value: v}, at)
}

// remove removes e from its list, decrements l.len
func (l *List) remove(e *Element) {
	vrt.Access(l, "route-cache list", true)
	e.prev.next = e.next
	vrt.Step()
	e.next.prev = e.prev
	vrt.Step()
	e.next = nil // avoid memory leaks
	vrt.Step()
	e.prev = nil // avoid memory leaks
	vrt.Step()
	e.list = nil
	vrt.Step()
	l.len--
	vrt.Step()
}

// move moves e to next to at.
func (l *List) move(e, at *Element) {
	vrt.Access(l, "route-cache list", true)
	if e == at {
		return
	}
	e.prev.next = e.next
	vrt.Step()
	e.next.prev = e.prev
	vrt.Step()

	e.prev = at
	vrt.Step()
	e.next = at.next
	vrt.Step()
	e.prev.next = e
	vrt.Step()
	e.next.prev = e
	vrt.Step()
}

// Remove removes e from l if e is an element of list l.
// It returns the element value e.Value.
// The element must not be nil.
func (l *List) Remove(e *Element) any {
	if e.list == l {
		// if e.list == l, l must have been initialized when e was inserted
		// in l or l == nil (e is a zero Element) and l.remove will crash
		l.remove(e)
	}
	return e.Value
}

// PushFront inserts a new element e with value v at the front of list l and returns e.
func (l *List) PushFront(v any) *Element {
	l.lazyInit()
	return l.insertValue(v, &l.root)
}

// PushBack inserts a new element e with value v at the back of list l and returns e.
func (l *List) PushBack(v any) *Element {
	l.lazyInit()
	return l.insertValue(v, l.root.prev)
}

// InsertBefore inserts a new element e with value v immediately before mark and returns e.
// If mark is not an element of l, the list is not modified.
// The mark must not be nil.
func (l *List) InsertBefore(v any, mark *Element) *Element {
	if mark.list != l {
		return nil
	}
	// see comment in List.Remove about initialization of l
	return l.insertValue(v, mark.prev)
}

// InsertAfter inserts a new element e with value v immediately after mark and returns e.
// If mark is not an element of l, the list is not modified.
// The mark must not be nil.
func (l *List) InsertAfter(v any, mark *Element) *Element {
	if mark.list != l {
		return nil
	}
	// see comment in List.Remove about initialization of l
	return l.insertValue(v, mark)
}

// MoveToFront moves element e to the front of list l.
// If e is not an element of l, the list is not modified.
// The element must not be nil.
func (l *List) MoveToFront(e *Element) {
	if e.list != l || l.root.next == e {
		return
	}
	// see comment in List.Remove about initialization of l
	l.move(e, &l.root)
}

// MoveToBack moves element e to the back of list l.
// If e is not an element of l, the list is not modified.
// The element must not be nil.
func (l *List) MoveToBack(e *Element) {
	if e.list != l || l.root.prev == e {
		return
	}
	// see comment in List.Remove about initialization of l
	l.move(e, l.root.prev)
}

// MoveBefore moves element e to its new position before mark.
// If e or mark is not an element of l, or e == mark, the list is not modified.
// The element and mark must not be nil.
func (l *List) MoveBefore(e, mark *Element) {
	if e.list != l || e == mark || mark.list != l {
		return
	}
	l.move(e, mark.prev)
}

// MoveAfter moves element e to its new position after mark.
// If e or mark is not an element of l, or e == mark, the list is not modified.
// The element and mark must not be nil.
func (l *List) MoveAfter(e, mark *Element) {
	if e.list != l || e == mark || mark.list != l {
		return
	}
	l.move(e, mark)
}

// PushBackList inserts a copy of another list at the back of list l.
// The lists l and other may be the same. They must not be nil.
func (l *List) PushBackList(other *List) {
	l.lazyInit()
	for i, e := other.Len(), other.Front(); i > 0; i, e = i-1, e.Next() {
		l.insertValue(e.Value, l.root.prev)
	}
}

// PushFrontList inserts a copy of another list at the front of list l.
// The lists l and other may be the same. They must not be nil.
func (l *List) PushFrontList(other *List) {
	l.lazyInit()
	for i, e := other.Len(), other.Back(); i > 0; i, e = i-1, e.Prev() {
		l.insertValue(e.Value, &l.root)
	}
}
