// Package checks holds one harness per property.
package checks

import "sort"

// Registry maps a property id to its entry point (args after the id).
var Registry = map[string]func(args []string) int{}

func IDs() []string {
	var ids []string
	for k := range Registry {
		ids = append(ids, k)
	}
	sort.Strings(ids)
	return ids
}
