package checks

import "verif/mc/fw"

type c14RouterCfg struct{}

func c14GenRouter(tier string, emit func(c14Case)) {}

func c14RunRouter(c c14Case, st *fw.Stats) []fw.Viol { return nil }
