check('C14',
  'explicit-state model checking to fix-point of the real LRU cache against a reference LRU; BFS over request histories for the router clause',
  'Every reachable state of the real cachedRoutes for 1..4 keys x 2 values x capacities -1..4 is visited and every operation is applied in it and compared with a 30-line reference LRU (result, successor state, size invariants); the router clause is explored over all request histories up to the cache fix-point. Exhaustive within those bounds, which cover every branch of the 110-line cache.',
  'Bounded: at most 5 keys and capacity 5 (thorough). States are read through the verif hook VerifSnapshot; successors are built by replaying the shortest history on a fresh cache. Concurrency of the cache is decided under C03, not here.',
  'DESIGN.md 5 C14')
