package checks

import (
	"fmt"
	"hash/adler32"
	"hash/crc32"
	"hash/fnv"
	"io"
	"net/http"
	"net/http/httptest"
	"net/url"
	"os"
	"sort"
	"strings"

	"github.com/gookit/color"
	"github.com/gookit/rux"

	"verif/mc/fw"
	"verif/mc/refmodel"
)

// C07 (cache transparency) and the router clause of C14 share one explicit-state
// search: the state of a caching router is its cache content (keys in recency
// order with the route and params each entry holds, read through the verif
// hook); routing tables and options are frozen after registration and contexts
// are reset (C10), so the cache is the only request-to-request memory of match.
// BFS to fix-point over request histories; every transition is compared with
// the observation of the same request on the non-caching twin.

type cgReq struct {
	M string `json:"m"`
	P string `json:"p"`
}

type cgConfig struct {
	Table      int  `json:"table"`
	NotAllowed bool `json:"handle_method_not_allowed"`
	Fallback   bool `json:"handle_fallback_route"`
	Strict     bool `json:"strict_last_slash"`
	Cap        int  `json:"capacity"`
	OptStyle   int  `json:"option_style"` // how caching and its capacity are configured (4 equivalent ways)
	// Late: the last route of the table is registered by an extra action of the alphabet ("register"), enabled once, at any
	// point of the history; both routers (caching and twin) are judged against the table registered so far
	Late bool `json:"late_registration,omitempty"`
	// Sibling: a second router is built from THE SAME option values (one options slice, used twice) with the table in
	// reverse order; it is served every request right before the router under test (routers must not share anything
	// through the options they were built from)
	Sibling bool `json:"sibling_router_from_same_option_values,omitempty"`
}

var cgTables = [][]refmodel.RouteDef{
	{{Path: "/a/{x}", Methods: []string{"GET"}}, {Path: "/a/{x}", Methods: []string{"POST"}}, {Path: `/b/{y:\d+}`, Methods: []string{"GET"}}},
	{{Path: "/{x}", Methods: []string{"GET"}}, {Path: "/{x}/{y}", Methods: []string{"GET"}}, {Path: "/{x}/1", Methods: []string{"DELETE"}}},
	{{Path: "/{x}/b", Methods: []string{"GET"}}, {Path: "/a/{x}", Methods: []string{"GET"}}, {Path: "/a[/{x}]", Methods: []string{"GET"}}, {Path: "/b/{x}", Methods: []string{"HEAD"}}},
	{{Path: "/a/b", Methods: []string{"GET"}}, {Path: "/a/{x}", Methods: []string{"GET"}}, {Path: "/a/{x}", Methods: []string{"PUT"}}},
	{{Path: "/a/{x}", Methods: []string{"GET"}}, {Path: "/b/{x}", Methods: []string{"HEAD"}}, {Path: "/b/{x}", Methods: []string{"GET"}}},
	{{Path: "/{all}", Methods: []string{"GET"}}, {Path: "/a/{x}", Methods: []string{"POST"}}, {Path: "/*", Methods: refmodel.Methods}},
	{{Path: "/a/{x}[/{y}]", Methods: []string{"GET", "DELETE"}}, {Path: "/a/1", Methods: []string{"POST"}}, {Path: "/{x}/1", Methods: []string{"PUT"}}},
	{{Path: "/a/{f:.+}", Methods: []string{"GET", "PUT"}}, {Path: "/{all}", Methods: []string{"HEAD", "POST"}}},
	// a single-method route registered before a multi-method route that matches the same paths
	{{Path: "/a/{n:[a-z]+}", Methods: []string{"POST"}}, {Path: "/a/{x}", Methods: []string{"GET", "POST", "DELETE"}}, {Path: "/{x}/b", Methods: []string{"DELETE", "HEAD"}}},
	// the last route outranks the first for the paths both match (it matters when it is registered late)
	{{Path: "/{x}/{y}", Methods: []string{"GET", "DELETE"}}, {Path: "/a/{x}", Methods: []string{"GET", "POST"}}},
	// dynamic routes without any variable (an optional part only), next to an ordinary one
	{{Path: "/about[.html]", Methods: []string{"GET"}}, {Path: "/docs/index[.html]", Methods: []string{"GET", "POST"}}, {Path: "/a/{x}", Methods: []string{"GET"}}},
	// a fallback route for ONE method only
	{{Path: "/*", Methods: []string{"GET"}}, {Path: "/a/{x}", Methods: []string{"POST"}}},
	// StrictLastSlash: a route that ends in '/' next to the same route without it
	{{Path: "/a/{x}/", Methods: []string{"GET"}}, {Path: "/a/{x}", Methods: []string{"GET", "POST"}}},
}

// requests added to the alphabet for one table only
var cgTableRequests = map[int][]cgReq{
	10: {{"GET", "/about"}, {"GET", "/about.html"}, {"POST", "/docs/index.html"}, {"HEAD", "/docs/index.html"}},
	11: {{"HEAD", "/zz/y/x"}, {"POST", "/zz/y/x"}, {"DELETE", "/zz/y/x"}},
}

var cgRequests = []cgReq{
	{"GET", "/a/1"}, {"GET", "/a/2"}, {"GET", "/a/b"}, {"HEAD", "/a/1"}, {"POST", "/a/1"}, {"DELETE", "/a/1"},
	{"GET", "/b/1"}, {"HEAD", "/b/1"}, {"GET", "/1"}, {"PUT", "/a/1/"}, {"GET", "/zz/y/x"}, {"GET", "/a/1/"}, {"POST", "/a/b"},
}

var cgRequestsMore = []cgReq{{"GET", "/a/1/2"}, {"OPTIONS", "/a/1"}, {"HEAD", "/1"}}

func cgOpts(c cgConfig, caching bool) []func(*rux.Router) {
	var o []func(*rux.Router)
	if c.NotAllowed {
		o = append(o, rux.HandleMethodNotAllowed)
	}
	if c.Fallback {
		o = append(o, rux.HandleFallbackRoute)
	}
	if c.Strict {
		o = append(o, rux.StrictLastSlash)
	}
	if caching {
		switch c.OptStyle {
		case 1:
			o = append(o, rux.EnableCaching, rux.MaxNumCaches(uint16(c.Cap)))
		case 2:
			o = append(o, rux.MaxNumCaches(uint16(c.Cap)), rux.EnableCaching)
		default: // 0, and 3 (applied through WithOptions in two calls, see cgNew)
			o = append(o, rux.CachingWithNum(uint16(c.Cap)))
		}
	}
	return o
}

// cgBuild builds the router of a configuration; option style 3 = New(EnableCaching) then WithOptions(MaxNumCaches(n), rest...)
func cgBuild(defs []refmodel.RouteDef, c cgConfig, caching bool, rec *hitRec) (*rux.Router, any) {
	return cgBuildN(defs, len(defs), c, caching, rec)
}

// cgBuildN registers only the first n routes; cgLate adds the rest
func cgBuildN(all []refmodel.RouteDef, n int, c cgConfig, caching bool, rec *hitRec) (*rux.Router, any) {
	defs := all[:n]
	if caching && c.OptStyle == 3 {
		c2 := c
		c2.OptStyle = 0
		rest := cgOpts(c2, false)
		var r *rux.Router
		pv := try(func() {
			r = rux.New(rux.EnableCaching)
			r.WithOptions(append(rest, rux.MaxNumCaches(uint16(c.Cap)))...)
		})
		if pv != nil {
			return nil, pv
		}
		return registerInto(r, defs, nil, true, rec)
	}
	return buildRouterFull(defs, nil, true, rec, cgOpts(c, caching)...)
}

// everything a request lets its issuer observe
func cgObserve(r *rux.Router, rec *hitRec, q cgReq) string {
	var sb strings.Builder
	if pv := try(func() {
		rt, ps, alm := r.Match(q.M, q.P)
		al := append([]string(nil), alm...)
		sort.Strings(al)
		fmt.Fprintf(&sb, "match{route=%d params{%s} allowed=%v}", routeIdx(rt), canonParams(ps), al)
	}); pv != nil {
		fmt.Fprintf(&sb, "match{panic: %v}", pv)
	}
	rec.n, rec.idx, rec.params = 0, -1, ""
	resp, pv := serve(r, q.M, q.P)
	if pv != nil {
		fmt.Fprintf(&sb, " serve{panic: %v}", pv)
	} else {
		fmt.Fprintf(&sb, " serve{status=%d allow=%q body=%q handler=%d x%d params{%s}}", resp.Code, resp.Header().Get("Allow"), resp.Body.String(), rec.idx, rec.n, rec.params)
	}
	return sb.String()
}

func cgLate(r *rux.Router, all []refmodel.RouteDef, n int, rec *hitRec) any {
	_, pv := registerIntoAt(r, all, nil, true, rec, n)
	return pv
}

func cgSnap(r *rux.Router) (canon string, keys []string, vals []*rux.Route, ll, ml int) {
	c := r.VerifCache()
	if c == nil {
		return "<no cache>", nil, nil, 0, 0
	}
	keys, vals, ll, ml, _ = c.VerifSnapshot()
	var sb strings.Builder
	for i, k := range keys {
		if vals[i] == nil {
			fmt.Fprintf(&sb, "[%s -> <no route>]", k)
			continue
		}
		fmt.Fprintf(&sb, "[%s -> route %d {%s}]", k, routeIdx(vals[i]), canonParams(vals[i].VerifParams()))
	}
	return sb.String(), keys, vals, ll, ml
}

func histStr(h []cgReq) string {
	var p []string
	for _, q := range h {
		p = append(p, q.M+" "+q.P)
	}
	return strings.Join(p, ", ")
}

// cacheGraphRun explores the cache-state graph of one configuration.
// mode "C07": transparency oracle; mode "C14": entry-present / served-from-cache oracle.
// Histories of length <= fullDepth are all explored (no state merging), so that memory outside the canonical
// state (a flag flipped by one request, say) still shows in what follows; beyond it states are merged.
func cacheGraphRun(c cgConfig, reqs []cgReq, mode string, fullDepth int, st *fw.Stats) []fw.Viol {
	var viols []fw.Viol
	add := func(sig, msg string) {
		if len(viols) < 8 {
			viols = append(viols, fw.Viol{Sig: sig, Msg: msg})
		}
	}
	defs := cgTables[c.Table]
	nEarly := len(defs)
	if c.Late {
		nEarly--
	}
	const actReg = -1 // the "register the last route" action
	// phase 0 = before the late registration (or no late registration at all), phase 1 = after it
	var tbs [2]*refmodel.Table
	for ph, n := range []int{nEarly, len(defs)} {
		t, err := refmodel.NewTable(defs[:n], refmodel.Opts{NotAllowed: c.NotAllowed, Fallback: c.Fallback, Strict: c.Strict})
		if err != nil {
			panic(err)
		}
		tbs[ph] = t
	}
	cfg := fmt.Sprintf("table [%s] notAllowed=%v fallback=%v strict=%v capacity=%d(option style %d)", defsString(defs), c.NotAllowed, c.Fallback, c.Strict, c.Cap, c.OptStyle)
	if c.Late {
		cfg += "; the last route is registered by the action 'register' of the history"
	}
	if c.Sibling {
		cfg += "; a sibling router built from the same option values (table reversed) is served every request first"
	}
	// the non-caching twin is stateless: one expected observation per request and phase
	var exp [2][]string
	for ph := 0; ph < 2; ph++ {
		recT := &hitRec{}
		twin, pv := cgBuildN(defs, nEarly, c, false, recT)
		if pv == nil && ph == 1 {
			pv = cgLate(twin, defs, nEarly, recT)
		}
		if pv != nil {
			add("register:panic", fmt.Sprintf("%s: registration panicked: %v", cfg, pv))
			return viols
		}
		exp[ph] = make([]string, len(reqs))
		for i, q := range reqs {
			exp[ph][i] = cgObserve(twin, recT, q)
			// a second observation must be identical (the twin has no memory)
			if again := cgObserve(twin, recT, q); again != exp[ph][i] {
				add("twin:unstable", fmt.Sprintf("%s: non-caching router answers %s %s differently the second time: %s vs %s", cfg, q.M, q.P, exp[ph][i], again))
			}
		}
	}
	phaseOf := func(h []int) int {
		for _, a := range h {
			if a == actReg {
				return 1
			}
		}
		return 0
	}
	var sib *rux.Router
	recSib := &hitRec{}
	build := func(h []int) (*rux.Router, *hitRec) {
		rec := &hitRec{}
		var r *rux.Router
		var pv any
		if c.Sibling {
			// one options slice, two routers
			shared := cgOpts(c, true)
			r, pv = buildRouterFull(defs[:nEarly], nil, true, rec, shared...)
			rev := make([]refmodel.RouteDef, 0, nEarly)
			for i := nEarly - 1; i >= 0; i-- {
				rev = append(rev, defs[i])
			}
			if pv == nil {
				sib, pv = buildRouterFull(rev, nil, false, recSib, shared...)
			}
		} else {
			r, pv = cgBuildN(defs, nEarly, c, true, rec)
		}
		if pv != nil {
			panic(pv)
		}
		for _, qi := range h {
			if qi == actReg {
				if pv := cgLate(r, defs, nEarly, rec); pv != nil {
					panic(pv)
				}
				continue
			}
			if sib != nil {
				cgObserve(sib, recSib, reqs[qi])
			}
			cgObserve(r, rec, reqs[qi])
		}
		return r, rec
	}
	snap := func(r *rux.Router, ph int) (string, []string, []*rux.Route, int, int) {
		s, k, v, ll, ml := cgSnap(r)
		if c.Late {
			s = fmt.Sprintf("registered=%d ", ph) + s
		}
		return s, k, v, ll, ml
	}
	histOf := func(h []int) string {
		var p []string
		for _, i := range h {
			if i == actReg {
				p = append(p, fmt.Sprintf("register route #%d", nEarly))
			} else {
				p = append(p, reqs[i].M+" "+reqs[i].P)
			}
		}
		return strings.Join(p, ", ")
	}
	seen := map[string]bool{}
	r0, _ := build(nil)
	s0, _, _, _, _ := snap(r0, 0)
	seen[s0] = true
	st.States++
	frontier := [][]int{{}}
	for len(frontier) > 0 {
		// a defect can blow the state space up (e.g. a capacity that is not enforced): stop at the first violations
		if len(viols) >= 4 {
			return viols
		}
		if len(seen) > 50000 || st.Expired() {
			st.Cap("cache-state graph cut: more than 50000 states or budget used up")
			return viols
		}
		h := frontier[0]
		frontier = frontier[1:]
		ph := phaseOf(h)
		tb := tbs[ph]
		if c.Late && ph == 0 {
			// the registration itself: a transition to the state reached on the larger table
			r, _ := build(append(append([]int(nil), h...), actReg))
			post, _, _, ll, ml := snap(r, 1)
			st.Transitions++
			st.Inc("late_registrations", 1)
			if ll != ml || ll > c.Cap {
				add("cache:invariant", fmt.Sprintf("%s; history [%s] then register: cache list length %d, map size %d, capacity %d", cfg, histOf(h), ll, ml, c.Cap))
			}
			if !seen[post] || len(h)+1 <= fullDepth {
				if !seen[post] {
					seen[post] = true
					st.States++
				}
				frontier = append(frontier, append(append([]int(nil), h...), actReg))
			}
		}
		for qi, q := range reqs {
			r, rec := build(h)
			pre, preKeys, _, _, _ := snap(r, ph)
			if sib != nil {
				cgObserve(sib, recSib, q)
			}
			got := cgObserve(r, rec, q)
			post, keys, vals, ll, ml := snap(r, ph)
			st.Transitions++
			st.Evals++
			hs := func() string {
				return fmt.Sprintf("%s; history [%s]; cache before {%s}; request %s %s", cfg, histOf(h), pre, q.M, q.P)
			}
			res := tb.Resolve(q.M, q.P)
			dynamic := (res.Kind == "route" || res.Kind == "head-get") && !tb.Pats[res.Route].Static
			matchedMethod := q.M
			if res.Kind == "head-get" {
				matchedMethod = "GET"
			}
			key := matchedMethod + res.Path
			hit := false
			for _, k := range preKeys {
				if k == key {
					hit = true
				}
			}
			if dynamic && hit {
				st.Inc("hits", 1)
			}
			if dynamic && !hit && len(preKeys) == c.Cap && c.Cap > 0 {
				st.Inc("evictions", 1)
			}
			if mode == "C07" {
				if got != exp[ph][qi] {
					sig := "transparency:" + res.Kind
					if hit {
						sig += ":hit"
					} else {
						sig += ":miss"
					}
					add(sig, fmt.Sprintf("%s: caching router observes %s; the same router without caching observes %s", hs(), got, exp[ph][qi]))
				}
				if ll != ml || ll > c.Cap {
					add("cache:invariant", fmt.Sprintf("%s: cache list length %d, map size %d, capacity %d", hs(), ll, ml, c.Cap))
				}
			} else { // C14 router clause
				if dynamic && c.Cap >= 1 {
					if len(keys) == 0 || keys[0] != key {
						add("cache-entry:absent-or-not-most-recent", fmt.Sprintf("%s: resolved by dynamic route %d; expected entry %q to be present and most recent, cache after {%s}", hs(), res.Route, key, post))
					} else {
						if routeIdx(vals[0]) != res.Route {
							add("cache-entry:wrong-route", fmt.Sprintf("%s: entry %q holds route %d, request was resolved by route %d", hs(), key, routeIdx(vals[0]), res.Route))
						}
						// the immediate repeat is answered from the cache: it returns the cached copy itself
						var rt *rux.Route
						if pv := try(func() { rt, _, _ = r.Match(q.M, q.P) }); pv != nil {
							add("cache-entry:repeat-panic", fmt.Sprintf("%s: repeat panicked: %v", hs(), pv))
						} else if rt != vals[0] {
							add("cache-entry:repeat-not-from-cache", fmt.Sprintf("%s: the immediate repeat returned route %d (%p), not the cached copy %p", hs(), routeIdx(rt), rt, vals[0]))
						}
					}
				}
				if ll != ml || ll > c.Cap {
					add("cache:invariant", fmt.Sprintf("%s: cache list length %d, map size %d, capacity %d", hs(), ll, ml, c.Cap))
				}
				for i, k := range keys {
					// every entry must be consistent with its key: resolving the key's method and path gives that route
					for _, m := range refmodel.Methods {
						if strings.HasPrefix(k, m+"/") {
							if d := tb.Direct(m, k[len(m):]); d != routeIdx(vals[i]) {
								add("cache-entry:inconsistent", fmt.Sprintf("%s: entry %q holds route %d but that method and path resolve to route %d", hs(), k, routeIdx(vals[i]), d))
							}
						}
					}
				}
			}
			isNew := !seen[post]
			if isNew {
				seen[post] = true
				st.States++
				st.Nontrivial++
			}
			if isNew || len(h)+1 <= fullDepth {
				h2 := append(append([]int(nil), h...), qi)
				frontier = append(frontier, h2)
				st.Max("max_depth", int64(len(h2)))
				if st.WantSample() && len(h2) >= 3 {
					st.Sample(map[string]any{"config": cfg, "history": histOf(h2), "cache_state_reached": post})
				}
			}
		}
	}
	return viols
}

type c07Case struct {
	Cfg  cgConfig `json:"config"`
	Ext  bool     `json:"extended_alphabet"`
	Full int      `json:"unmerged_depth"`
	// Long > 0: instead of the graph search, request paths of every length Long..Long+19 bytes: pairs of paths that
	// differ only in their last 1-3 bytes (and only in their first variable), requested alternately
	Long int `json:"long_paths_from,omitempty"`
}

// c07Long: cache keys must not depend on the length of method + path
func c07Long(c c07Case, st *fw.Stats) []fw.Viol {
	var viols []fw.Viol
	add := func(sig, msg string) {
		if len(viols) < 6 {
			viols = append(viols, fw.Viol{Sig: sig, Msg: msg})
		}
	}
	defs := []refmodel.RouteDef{{Path: "/p/{x}", Methods: []string{"GET", "DELETE", "OPTIONS"}}, {Path: "/{y}/tail/{z}", Methods: []string{"GET", "CONNECT"}}}
	for L := c.Long; L < c.Long+20; L++ {
		for _, m := range []string{"GET", "DELETE", "OPTIONS", "CONNECT"} {
			for diff := 1; diff <= 3; diff++ {
				if L < 12+diff {
					continue
				}
				var a, b string
				if m == "CONNECT" {
					// the difference sits at the very end of the second variable
					fill := strings.Repeat("q", L-len("/yy/tail/")-diff)
					a, b = "/yy/tail/"+fill+strings.Repeat("1", diff), "/yy/tail/"+fill+strings.Repeat("2", diff)
				} else {
					fill := strings.Repeat("a", L-len("/p/")-diff)
					a, b = "/p/"+fill+strings.Repeat("1", diff), "/p/"+fill+strings.Repeat("2", diff)
				}
				recC, recT := &hitRec{}, &hitRec{}
				cfg := cgConfig{Cap: 4}
				rc, pv := cgBuild(defs, cfg, true, recC)
				rt, pv2 := cgBuild(defs, cfg, false, recT)
				if pv != nil || pv2 != nil {
					add("register:panic", fmt.Sprintf("long paths: registration panicked: %v %v", pv, pv2))
					return viols
				}
				for i, p := range []string{a, b, a, b, a} {
					st.Evals++
					st.Nontrivial++
					q := cgReq{M: m, P: p}
					got, want := cgObserve(rc, recC, q), cgObserve(rt, recT, q)
					if got != want {
						add("transparency:long-path", fmt.Sprintf("routes [%s], capacity 4: %s paths of %d bytes differing in their last %d byte(s), request #%d (%s …%s): caching router observes %s; without caching %s", defsString(defs), m, len(p), diff, i+1, m, p[len(p)-6:], got, want))
						break
					}
				}
			}
		}
	}
	st.Max("max_path_bytes", int64(c.Long+19))
	if c.Long == 10 {
		c07Special(st, add)
	}
	return viols
}

// c07Special: (a) UseEncodedPath with the route cache on: a plain URL, then a percent-encoded URL whose DECODED form is
// the plain one (and the other way round); (b) unmatched long requests next to cached long ones; (c) pairs of keys that
// collide under the common 32-bit string hashes, requested A, B, A, B.
func c07Special(st *fw.Stats, add func(sig, msg string)) {
	var extra func(r *rux.Router) // registrations made on both routers after the table (nil = none)
	run := func(what string, defs []refmodel.RouteDef, opts func(bool) []func(*rux.Router), reqs [][3]string) {
		recC, recT := &hitRec{}, &hitRec{}
		via := make([]string, len(defs))
		for i := range via {
			via[i] = "AddNamed" // (route #i is named n<i>)
		}
		rc, pv1 := buildRouterVia(defs, via, recC, opts(true)...)
		rt, pv2 := buildRouterVia(defs, via, recT, opts(false)...)
		if pv1 != nil || pv2 != nil {
			add("register:panic", fmt.Sprintf("%s: registration panicked: %v %v", what, pv1, pv2))
			return
		}
		if extra != nil {
			if pv := try(func() { extra(rc); extra(rt) }); pv != nil {
				add("register:panic", fmt.Sprintf("%s: registration panicked: %v", what, pv))
				return
			}
		}
		obs := func(r *rux.Router, rec *hitRec, q [3]string) string {
			rec.n, rec.idx, rec.params = 0, -1, ""
			w := httptest.NewRecorder()
			u := &url.URL{Path: q[1]}
			if q[2] != "" {
				u = &url.URL{Path: q[1], RawPath: q[2]}
			}
			pv := try(func() {
				r.ServeHTTP(w, &http.Request{Method: q[0], URL: u, Header: http.Header{}, Proto: "HTTP/1.1", ProtoMajor: 1, ProtoMinor: 1, Host: "x"})
			})
			name := "<no route>"
			_ = try(func() {
				if rt, _, _ := r.Match(q[0], q[1]); rt != nil {
					name = rt.Name()
				}
			})
			return fmt.Sprintf("status=%d allow=%q body=%q handler=%d x%d panic=%v; Match reports the route named %q", w.Code, w.Header().Get("Allow"), w.Body.String(), rec.idx, rec.n, pv, name)
		}
		for i, q := range reqs {
			st.Evals++
			st.Nontrivial++
			if q[0] == "BUILD-URL" {
				// the application builds the URL of a named route (n<i> = route #i) on both routers; nothing is requested
				for _, r := range []*rux.Router{rc, rt} {
					_ = try(func() { r.BuildURL(q[1], strings.Split(q[2], "=")[0], strings.Split(q[2], "=")[1]) })
				}
				continue
			}
			if got, want := obs(rc, recC, q), obs(rt, recT, q); got != want {
				shown := q[1]
				if len(shown) > 40 {
					shown = shown[:16] + "…" + shown[len(shown)-16:]
				}
				add("transparency:special", fmt.Sprintf("%s, request #%d %s %s (raw %q, %d bytes): caching router observes %s; without caching %s", what, i+1, q[0], shown, q[2], len(q[1]), got, want))
				return
			}
		}
	}
	// (a)
	encDefs := []refmodel.RouteDef{{Path: "/f/{n}", Methods: []string{"GET"}}, {Path: "/f/{d}/{n}", Methods: []string{"GET"}}, {Path: "/u/{id}", Methods: []string{"GET"}}}
	encOpts := func(caching bool) []func(*rux.Router) {
		o := []func(*rux.Router){rux.UseEncodedPath}
		if caching {
			o = append(o, rux.CachingWithNum(8))
		}
		return o
	}
	plain, enc := [3]string{"GET", "/f/a/b", ""}, [3]string{"GET", "/f/a/b", "/f/a%2Fb"}
	uA, uEnc := [3]string{"GET", "/u/A", ""}, [3]string{"GET", "/u/A", "/u/%41"}
	for _, seq := range [][][3]string{{plain, enc, plain, enc}, {enc, plain, enc}, {uA, uEnc, uA}, {uEnc, uA, uEnc}} {
		run("UseEncodedPath, routes /f/{n}, /f/{d}/{n}, /u/{id}", encDefs, encOpts, seq)
	}
	// (b)
	longDefs := []refmodel.RouteDef{{Path: "/p/{x}", Methods: []string{"GET"}}, {Path: "/p/{x}/publish", Methods: []string{"POST"}}, {Path: "/q/{x}/{y}", Methods: []string{"GET"}}}
	naOpts := func(caching bool) []func(*rux.Router) {
		o := []func(*rux.Router){rux.HandleMethodNotAllowed}
		if caching {
			o = append(o, rux.CachingWithNum(8))
		}
		return o
	}
	for L := 230; L <= 290; L += 3 {
		stem := "/p/" + strings.Repeat("a", L)
		run("HandleMethodNotAllowed, routes GET /p/{x}, POST /p/{x}/publish, GET /q/{x}/{y}", longDefs, naOpts, [][3]string{
			{"GET", stem, ""}, {"GET", stem + "/publish", ""}, {"DELETE", stem, ""}, {"POST", stem + "/publish", ""}, {"GET", stem + "x", ""}, {"GET", "/q/" + strings.Repeat("b", L) + "/1", ""}, {"GET", "/q/" + strings.Repeat("b", L) + "/2", ""}, {"HEAD", stem + "/publish", ""}})
	}
	// (c)
	colDefs := []refmodel.RouteDef{{Path: "/p/{x}", Methods: []string{"GET"}}}
	plainOpts := func(caching bool) []func(*rux.Router) {
		if caching {
			return []func(*rux.Router){rux.CachingWithNum(8)}
		}
		return nil
	}
	// (d) methods outside the supported nine, right after the same path was cached for GET / for POST
	odd := []refmodel.RouteDef{{Path: "/p/{x}", Methods: []string{"GET"}}, {Path: "/p/{x}", Methods: []string{"POST"}}, {Path: "/o/{x}", Methods: []string{"OPTIONS", "GET"}}}
	for _, m := range []string{"PROPFIND", "get", "", "PURGE", "Get", "GETX", "post", "FOO", "options"} {
		for _, o := range []func(bool) []func(*rux.Router){plainOpts, naOpts} {
			run("routes GET /p/{x}, POST /p/{x}, OPTIONS+GET /o/{x}; a method outside the supported nine", odd, o, [][3]string{{"GET", "/p/1", ""}, {m, "/p/1", ""}, {"POST", "/p/1", ""}, {m, "/p/1", ""}, {"OPTIONS", "/o/1", ""}, {m, "/o/1", ""}, {"GET", "/o/1", ""}, {m, "/o/1", ""}})
		}
	}
	// (e) the application builds URLs of named routes between the requests
	named := []refmodel.RouteDef{{Path: `/users/{id:\d+}`, Methods: []string{"GET"}}, {Path: "/users/{name}", Methods: []string{"GET", "POST"}}, {Path: "/{any}/{thing}", Methods: []string{"GET"}}}
	for _, seq := range [][][3]string{
		{{"BUILD-URL", "n1", "{name}=42"}, {"GET", "/users/42", ""}, {"POST", "/users/42", ""}},
		{{"BUILD-URL", "n2", "{any}=users"}, {"BUILD-URL", "n2", "{thing}=bob"}, {"GET", "/users/bob", ""}, {"GET", "/users/{thing}", ""}},
		{{"GET", "/users/7", ""}, {"BUILD-URL", "n1", "{name}=7"}, {"GET", "/users/7", ""}, {"BUILD-URL", "n0", "{id}=7"}, {"POST", "/users/7", ""}, {"GET", "/users/7", ""}},
	} {
		for _, o := range []func(bool) []func(*rux.Router){plainOpts, naOpts} {
			run("routes n0 = GET /users/{id:\\d+}, n1 = GET+POST /users/{name}, n2 = GET /{any}/{thing}; URLs built with BuildURL between the requests", named, o, seq)
		}
	}
	// (g) a static-directory mount registered after dynamic routes that overlap it
	extra = func(r *rux.Router) {
		r.StaticDir("/files", os.TempDir())
		r.StaticFiles("/assets", os.TempDir(), "css|js")
	}
	mountDefs := []refmodel.RouteDef{{Path: `/files/{id:\d+}`, Methods: []string{"GET"}}, {Path: "/assets/{name}", Methods: []string{"GET", "POST"}}, {Path: "/files/{a}/{b}", Methods: []string{"GET"}}}
	for _, seq := range [][][3]string{
		{{"GET", "/files/no-such-file.txt", ""}, {"GET", "/files/42", ""}, {"GET", "/files/no-such-file.txt", ""}, {"GET", "/files/42", ""}},
		{{"GET", "/files/42", ""}, {"GET", "/files/no-such-file.txt", ""}, {"GET", "/files/42", ""}, {"GET", "/files/x/y", ""}},
		{{"GET", "/assets/no-such.css", ""}, {"GET", "/assets/logo", ""}, {"POST", "/assets/no-such.css", ""}, {"GET", "/assets/no-such.css", ""}},
	} {
		for _, o := range []func(bool) []func(*rux.Router){plainOpts, naOpts} {
			run("routes GET /files/{id:\\d+}, GET+POST /assets/{name}, GET /files/{a}/{b}, then StaticDir(/files) and StaticFiles(/assets, css|js) on the temp directory (no such files exist there)", mountDefs, o, seq)
		}
	}
	// (h) several routes registered under ONE name (names are labels, not keys of the match): the cached answer is still
	// the route that matched
	extra = func(r *rux.Router) {
		r.AddNamed("user", "/users/{id}", func(c *rux.Context) { c.WriteString("show:" + c.Param("id")) }, "GET")
		r.AddNamed("user", "/users/{id}", func(c *rux.Context) { c.WriteString("update:" + c.Param("id")) }, "POST")
		r.GET("/items/{id}", func(c *rux.Context) { c.WriteString("item:" + c.Param("id")) }).NamedTo("user", r)
		rux.NewNamedRoute("user", "/things/{id}", func(c *rux.Context) { c.WriteString("thing:" + c.Param("id")) }, "GET", "DELETE").AttachTo(r)
	}
	for _, seq := range [][][3]string{
		{{"GET", "/users/7", ""}, {"GET", "/users/7", ""}, {"POST", "/users/7", ""}, {"POST", "/users/7", ""}, {"GET", "/users/7", ""}},
		{{"POST", "/users/7", ""}, {"GET", "/users/7", ""}, {"GET", "/users/7", ""}, {"GET", "/items/7", ""}, {"GET", "/items/7", ""}, {"GET", "/users/7", ""}},
		{{"GET", "/things/1", ""}, {"GET", "/items/1", ""}, {"GET", "/users/1", ""}, {"GET", "/things/1", ""}, {"GET", "/items/1", ""}, {"GET", "/users/1", ""}, {"DELETE", "/things/1", ""}, {"DELETE", "/things/1", ""}},
	} {
		for _, o := range []func(bool) []func(*rux.Router){plainOpts, naOpts} {
			run("route GET /zz/{q}, then four routes all named \"user\": GET /users/{id}, POST /users/{id} (AddNamed), GET /items/{id} (NamedTo), GET+DELETE /things/{id} (NewNamedRoute + AttachTo)", []refmodel.RouteDef{{Path: "/zz/{q}", Methods: []string{"GET"}}}, o, seq)
		}
	}
	extra = nil
	// (f) rux's debug mode (tracing output) must not make a cached answer differ from an uncached one
	func() {
		chainDebugMu.Lock()
		color.SetOutput(io.Discard)
		rux.Debug(true)
		defer func() {
			rux.Debug(false)
			color.ResetOutput()
			chainDebugMu.Unlock()
		}()
		for _, o := range []func(bool) []func(*rux.Router){plainOpts, naOpts} {
			run("debug mode on; routes n0 = GET /users/{id:\\d+}, n1 = GET+POST /users/{name}, n2 = GET /{any}/{thing}", named, o, [][3]string{{"GET", "/users/7", ""}, {"GET", "/users/7", ""}, {"POST", "/users/7", ""}, {"POST", "/users/7", ""}, {"HEAD", "/users/bob", ""}, {"HEAD", "/users/bob", ""}, {"DELETE", "/users/7", ""}, {"GET", "/x/y", ""}, {"GET", "/x/y", ""}})
		}
	}()
	for name, pair := range c07Collisions() {
		a, b := "/p/"+pair[0], "/p/"+pair[1]
		run("keys that collide under "+name, colDefs, plainOpts, [][3]string{{"GET", a, ""}, {"GET", b, ""}, {"GET", a, ""}, {"GET", b, ""}})
	}
}

// c07Collisions: per common 32-bit string hash two values v1 != v2 such that "GET/p/<v1>" and "GET/p/<v2>" (the cache
// keys of GET /p/<v>) have the same hash. The pairs were found by a birthday search and are re-verified here; a pair
// that does not collide (any more) is dropped.
func c07Collisions() map[string][2]string {
	hashes := map[string]func(string) uint32{
		"FNV-1a (32 bit)": func(s string) uint32 { h := fnv.New32a(); h.Write([]byte(s)); return h.Sum32() },
		"FNV-1 (32 bit)":  func(s string) uint32 { h := fnv.New32(); h.Write([]byte(s)); return h.Sum32() },
		"CRC-32 (IEEE)":   func(s string) uint32 { return crc32.ChecksumIEEE([]byte(s)) },
		"Adler-32":        func(s string) uint32 { return adler32.Checksum([]byte(s)) },
		"Java/BKDR 31": func(s string) uint32 {
			var h uint32
			for i := 0; i < len(s); i++ {
				h = h*31 + uint32(s[i])
			}
			return h
		},
		"djb2": func(s string) uint32 {
			h := uint32(5381)
			for i := 0; i < len(s); i++ {
				h = h*33 + uint32(s[i])
			}
			return h
		},
	}
	pairs := map[string][2]string{
		"FNV-1a (32 bit)": {"1562789", "1779192"},
		"FNV-1 (32 bit)":  {"968489", "1108800"},
		"Adler-32":        {"120", "201"},
		"CRC-32 (IEEE)":   {"cxqw5is", "g30cz6f"},
		"Java/BKDR 31":    {"zo7y90k", "1zlchxm"},
		"djb2":            {"4l6uyr", "ubtnmdl"},
	}
	out := map[string][2]string{}
	for name, p := range pairs {
		if f := hashes[name]; f("GET/p/"+p[0]) == f("GET/p/"+p[1]) {
			out[name] = p
		}
	}
	return out
}

func cgGen(tier string, emit func(cgConfig, bool)) {
	maxCap := 3
	if tier == "thorough" {
		maxCap = 4
	}
	for t := range cgTables {
		for o := 0; o < 8; o++ {
			for c := 0; c <= maxCap; c++ {
				if tier == "quick" && c == 3 && (t+o)%2 == 1 {
					continue // quick: the largest capacity on every second (table, options) combination
				}
				emit(cgConfig{Table: t, NotAllowed: o&1 != 0, Fallback: o&2 != 0, Strict: o&4 != 0, Cap: c, OptStyle: (t + o + c) % 4}, tier == "thorough")
			}
			// the same graph next to a sibling router built from the same option values
			if (t+o)%4 == 0 || tier == "thorough" {
				emit(cgConfig{Table: t, NotAllowed: o&1 != 0, Fallback: o&2 != 0, Strict: o&4 != 0, Cap: 2, OptStyle: (t + o) % 3, Sibling: true}, tier == "thorough")
			}
			// the same graph with the registration of the last route as one more action of the alphabet
			for _, c := range map[string][]int{"quick": {2}, "thorough": {1, 3}}[tier] {
				if tier == "quick" && (t+o)%2 == 1 {
					continue
				}
				emit(cgConfig{Table: t, NotAllowed: o&1 != 0, Fallback: o&2 != 0, Strict: o&4 != 0, Cap: c, OptStyle: (t + o + c) % 4, Late: true}, tier == "thorough")
			}
		}
	}
}

func cgFullDepth(tier string) int {
	if tier == "thorough" {
		return 3
	}
	return 2
}

func cgReqs(ext bool) []cgReq {
	if ext {
		return append(append([]cgReq{}, cgRequests...), cgRequestsMore...)
	}
	return cgRequests
}

func cgReqsFor(table int, ext bool) []cgReq {
	return append(append([]cgReq{}, cgReqs(ext)...), cgTableRequests[table]...)
}

var c07Spec = fw.Spec[c07Case]{
	ID:         "C07",
	Level:      "model_checking",
	StateGraph: true,
	Rule: "explicit-state search to fix-point per configuration (13 route tables x {HandleMethodNotAllowed} x {HandleFallbackRoute} x {StrictLastSlash} x capacities 0..3(4)): state = cache content in recency order with route and params per entry (verif hook); " +
		"all histories of length <=2 (thorough 3) without state merging, then every reachable state x every request of the alphabet (13 / 16 requests: hits, misses, evictions, HEAD->GET, 405 probes, fallback, 404) executed on the real caching router via Match and ServeHTTP and compared with the non-caching twin; for capacity 2 also next to a sibling router built from the very same option values; for capacity 2 (thorough 1 and 3) the graph is explored again with the registration of the table's last route as one more action, enabled once at any point; plus plain / percent-encoded URL sequences under UseEncodedPath, matched and unmatched paths of 230..290 bytes with HandleMethodNotAllowed, pairs of cache keys that collide under six common 32-bit string hashes, requests with 9 method strings outside the supported nine right after the path was cached for GET / POST / OPTIONS, URLs of named routes built with BuildURL between the requests, repeated requests while rux's debug mode is on, static mounts registered after dynamic routes that overlap them, four routes registered under one name, and pairs of request paths of every length 10..309 bytes that differ only in their last 1-3 bytes, requested alternately under four methods; non-trivial = newly reached distinct cache state",
	Assume: []string{
		"canonical state = cache content only: tables and options are frozen after registration and contexts are reset per request (C10)",
		"successor = replay of the shortest history on a fresh router plus one request",
		"handlers treat Params as read-only",
	},
	Bounds: func(tier string) map[string]any {
		return map[string]any{"tables": len(cgTables), "requests": len(cgReqs(tier == "thorough")), "capacities": map[string]string{"quick": "0..3", "thorough": "0..4"}[tier], "option_subsets": 8}
	},
	Gen: func(tier string, emit func(c07Case)) {
		for lo := 10; lo < 310; lo += 20 {
			emit(c07Case{Long: lo})
		}
		cgGen(tier, func(c cgConfig, ext bool) { emit(c07Case{Cfg: c, Ext: ext, Full: cgFullDepth(tier)}) })
	},
	Run: func(c c07Case, st *fw.Stats) []fw.Viol {
		if c.Long > 0 {
			return c07Long(c, st)
		}
		return cacheGraphRun(c.Cfg, cgReqsFor(c.Cfg.Table, c.Ext), "C07", c.Full, st)
	},
	Guard: func(tier string, st *fw.Stats) []string {
		var g []string
		if st.C["hits"] == 0 {
			g = append(g, "no request was ever answered from the cache (0 hits)")
		}
		if st.C["evictions"] == 0 {
			g = append(g, "no eviction occurred")
		}
		return g
	},
	Batch: 1,
}

func init() {
	Registry["C07"] = func(args []string) int { return fw.Main(c07Spec, args) }
}
