package checks

import (
	"fmt"
	"net/http"
	"net/http/httptest"
	"net/url"

	"github.com/gookit/rux"

	"verif/mc/fw"
	"verif/mc/refmodel"
)

// C11: registration and lookup normalise paths identically. The full P x Q
// square over ALL strings of length <= L over {'/',' ','.','a','b','\t'} in both
// StrictLastSlash modes; G x P x Q for group prefixes (length <= 3); and the
// UseEncodedPath clause over all token strings of <= 4 tokens.

var c11Alphabet = []byte{'/', ' ', '.', 'a', 'b', '\t'}

func c11Strings(maxLen int) []string {
	out := []string{""}
	prev := []string{""}
	for l := 1; l <= maxLen; l++ {
		var cur []string
		for _, p := range prev {
			for _, c := range c11Alphabet {
				cur = append(cur, p+string(c))
			}
		}
		out = append(out, cur...)
		prev = cur
	}
	return out
}

type c11Case struct {
	Kind   string `json:"kind"` // "square" | "group" | "encoded"
	Strict bool   `json:"strict"`
	P      string `json:"p,omitempty"` // registered path (square) / group prefix (group)
	L      int    `json:"max_len"`
	Enc    bool   `json:"use_encoded_path,omitempty"`
}

type c11Set struct {
	strs []string
	norm [2][]string // [strict]
}

var c11Sets = map[int]*c11Set{}

func c11Get(l int) *c11Set {
	if s, ok := c11Sets[l]; ok {
		return s
	}
	s := &c11Set{strs: c11Strings(l)}
	for m := 0; m < 2; m++ {
		s.norm[m] = make([]string, len(s.strs))
		for i, x := range s.strs {
			s.norm[m][i] = refmodel.Norm(x, m == 1)
		}
	}
	c11Sets[l] = s
	return s
}

func init() {
	for _, l := range []int{2, 3, 5, 6} {
		c11Get(l)
	}
	Registry["C11"] = func(args []string) int { return fw.Main(c11Spec, args) }
}

func c11Gen(tier string, emit func(c11Case)) {
	L := 5
	if tier == "thorough" {
		L = 6
	}
	for _, strict := range []bool{false, true} {
		for _, g := range c11Get(3).strs {
			emit(c11Case{Kind: "group", Strict: strict, P: g, L: 3})
		}
	}
	for _, strict := range []bool{false, true} {
		for _, g := range c11Get(2).strs {
			emit(c11Case{Kind: "group2", Strict: strict, P: g, L: 2})
		}
	}
	for _, enc := range []bool{false, true} {
		for _, strict := range []bool{false, true} {
			emit(c11Case{Kind: "encoded", Strict: strict, Enc: enc, L: 4})
		}
	}
	for _, strict := range []bool{false, true} {
		for _, p := range c11Get(L).strs {
			emit(c11Case{Kind: "square", Strict: strict, P: p, L: L})
		}
	}
}

func b2i(b bool) int {
	if b {
		return 1
	}
	return 0
}

func c11Opts(strict bool) []func(*rux.Router) {
	if strict {
		return []func(*rux.Router){rux.StrictLastSlash}
	}
	return nil
}

func c11Run(c c11Case, st *fw.Stats) []fw.Viol {
	var viols []fw.Viol
	add := func(sig, msg string) {
		if len(viols) < 6 {
			viols = append(viols, fw.Viol{Sig: sig, Msg: msg})
		}
	}
	h := func(*rux.Context) {}
	switch c.Kind {
	case "square":
		set := c11Get(c.L)
		var r *rux.Router
		var rt *rux.Route
		if pv := try(func() {
			r = rux.New(c11Opts(c.Strict)...)
			rt = r.GET(c.P, h)
		}); pv != nil {
			add("register:panic", fmt.Sprintf("strict=%v: GET(%q) panicked: %v", c.Strict, c.P, pv))
			return viols
		}
		np := refmodel.Norm(c.P, c.Strict)
		if rt.Path() != np {
			add("register:path", fmt.Sprintf("strict=%v: route registered as %q has path %q, normal form is %q", c.Strict, c.P, rt.Path(), np))
		}
		norms := set.norm[b2i(c.Strict)]
		for qi, q := range set.strs {
			st.Evals++
			want := norms[qi] == np
			if want {
				st.Nontrivial++
			}
			var got bool
			if pv := try(func() { m, _, _ := r.Match("GET", q); got = m != nil }); pv != nil {
				add("lookup:panic", fmt.Sprintf("strict=%v: route %q: Match(GET,%q) panicked: %v", c.Strict, c.P, q, pv))
				continue
			}
			if got != want {
				add(fmt.Sprintf("lookup:reach:want=%v", want), fmt.Sprintf("strict=%v: route registered as %q (normal form %q): request path %q (normal form %q) reaches it = %v, expected %v", c.Strict, c.P, np, q, norms[qi], got, want))
			}
			// a HEAD request is served by the GET route: the fallback lookup must normalise the path in the same way
			var gotH bool
			if pv := try(func() { m, _, _ := r.Match("HEAD", q); gotH = m != nil }); pv != nil {
				add("lookup:panic", fmt.Sprintf("strict=%v: route %q: Match(HEAD,%q) panicked: %v", c.Strict, c.P, q, pv))
			} else if gotH != want {
				add(fmt.Sprintf("lookup:head-fallback:want=%v", want), fmt.Sprintf("strict=%v: GET route registered as %q (normal form %q): HEAD request path %q (normal form %q) reaches it = %v, expected %v", c.Strict, c.P, np, q, norms[qi], gotH, want))
			}
		}
		if st.WantSample() && len(c.P) >= 4 {
			st.Sample(map[string]any{"kind": "square", "strict": c.Strict, "registered": c.P, "normal_form": np, "request_paths": len(set.strs), "e.g.": set.strs[len(set.strs)-3:]})
		}
	case "group":
		set := c11Get(3)
		norms := set.norm[b2i(c.Strict)]
		var ng string
		if pv := try(func() {
			r := rux.New(c11Opts(c.Strict)...)
			r.Group(c.P, func() {})
		}); pv != nil {
			add("group:panic", fmt.Sprintf("strict=%v: Group(%q) panicked: %v", c.Strict, c.P, pv))
			return viols
		}
		ng = refmodel.Norm(c.P, c.Strict)
		for pi, p := range set.strs {
			var r *rux.Router
			var rt *rux.Route
			if pv := try(func() {
				r = rux.New(c11Opts(c.Strict)...)
				r.Group(c.P, func() { rt = r.GET(p, h) })
			}); pv != nil {
				add("group:panic", fmt.Sprintf("strict=%v: Group(%q){GET(%q)} panicked: %v", c.Strict, c.P, p, pv))
				continue
			}
			want := refmodel.Norm(ng+norms[pi], c.Strict)
			if rt.Path() != want {
				add("group:path", fmt.Sprintf("strict=%v: Group(%q){GET(%q)}: route path %q, expected prefix and path normal forms joined and re-normalised = %q", c.Strict, c.P, p, rt.Path(), want))
				continue
			}
			for qi, q := range set.strs {
				st.Evals++
				wantReach := norms[qi] == want
				if wantReach {
					st.Nontrivial++
				}
				var got bool
				if pv := try(func() { m, _, _ := r.Match("GET", q); got = m != nil }); pv != nil {
					add("lookup:panic", fmt.Sprintf("strict=%v: Group(%q){GET(%q)}: Match(GET,%q) panicked: %v", c.Strict, c.P, p, q, pv))
					continue
				}
				if got != wantReach {
					add(fmt.Sprintf("group:reach:want=%v", wantReach), fmt.Sprintf("strict=%v: Group(%q){GET(%q)} (path %q): request %q (normal form %q) reaches it = %v", c.Strict, c.P, p, want, q, norms[qi], got))
				}
			}
		}
	case "group2":
		// nested groups: each prefix is normalised on its own, then concatenated
		set := c11Get(2)
		norms := set.norm[b2i(c.Strict)]
		more := c11Get(3)
		mnorms := more.norm[b2i(c.Strict)]
		ng1 := refmodel.Norm(c.P, c.Strict)
		for g2i, g2 := range set.strs {
			for pi, p := range set.strs {
				var r *rux.Router
				var rt *rux.Route
				if pv := try(func() {
					r = rux.New(c11Opts(c.Strict)...)
					r.Group(c.P, func() { r.Group(g2, func() { rt = r.GET(p, h) }) })
				}); pv != nil {
					add("group:panic", fmt.Sprintf("strict=%v: Group(%q){Group(%q){GET(%q)}} panicked: %v", c.Strict, c.P, g2, p, pv))
					continue
				}
				want := refmodel.Norm(ng1+norms[g2i]+norms[pi], c.Strict)
				st.Evals++
				if rt.Path() != want {
					add("group:nested-path", fmt.Sprintf("strict=%v: Group(%q){Group(%q){GET(%q)}}: route path %q, expected the prefixes' and the path's normal forms joined and re-normalised = %q", c.Strict, c.P, g2, p, rt.Path(), want))
					continue
				}
				if (g2i*len(set.strs)+pi)%7 != 0 {
					continue
				}
				for qi, q := range more.strs {
					st.Evals++
					wantReach := mnorms[qi] == want
					if wantReach {
						st.Nontrivial++
					}
					var got bool
					if pv := try(func() { m, _, _ := r.Match("GET", q); got = m != nil }); pv != nil {
						add("lookup:panic", fmt.Sprintf("strict=%v: nested groups %q,%q path %q: Match(GET,%q) panicked: %v", c.Strict, c.P, g2, p, q, pv))
					} else if got != wantReach {
						add(fmt.Sprintf("group:reach:want=%v", wantReach), fmt.Sprintf("strict=%v: Group(%q){Group(%q){GET(%q)}} (path %q): request %q reaches it = %v", c.Strict, c.P, g2, p, want, q, got))
					}
				}
			}
		}
	case "encoded":
		toks := []string{"/", "a", "%2F", "%20", " ", "%2f", "b", "|", "%7C"}
		var opts []func(*rux.Router)
		opts = append(opts, c11Opts(c.Strict)...)
		if c.Enc {
			opts = append(opts, rux.UseEncodedPath)
		}
		r := rux.New(opts...)
		var seen string
		var ran int
		r.GET("/{all}", func(ctx *rux.Context) { seen = ctx.Param("all"); ran++ })
		var rec func(cur string, n int)
		rec = func(cur string, n int) {
			if n > 0 {
				raw := "/" + cur
				dec, err := url.PathUnescape(raw)
				if err == nil {
					st.Evals++
					u := &url.URL{Path: dec, RawPath: raw}
					used := dec
					if c.Enc {
						used = u.EscapedPath()
					}
					if used != dec {
						st.Nontrivial++
					}
					want := refmodel.Norm(used, c.Strict)[1:]
					seen, ran = "<none>", 0
					// the URL is the source of truth; RequestURI is what a server saw on the wire and may be stale
					// (http.StripPrefix and friends rewrite the URL only)
					for _, ruri := range []string{"", raw, "/mounted/prefix" + raw, "*"} {
						seen, ran = "<none>", 0
						w := httptest.NewRecorder()
						req := &http.Request{Method: "GET", URL: u, Header: http.Header{}, RequestURI: ruri}
						if pv := try(func() { r.ServeHTTP(w, req) }); pv != nil {
							add("encoded:panic", fmt.Sprintf("strict=%v encoded=%v: raw path %q (RequestURI %q) panicked: %v", c.Strict, c.Enc, raw, ruri, pv))
						} else if ran != 1 || seen != want {
							add(fmt.Sprintf("encoded:path:enc=%v", c.Enc), fmt.Sprintf("strict=%v UseEncodedPath=%v: request URL raw path %q (decoded %q), RequestURI %q: route /{all} matched %q (handler runs %d), expected %q", c.Strict, c.Enc, raw, dec, ruri, seen, ran, want))
						}
					}
				}
			}
			if n == c.L {
				return
			}
			for _, t := range toks {
				rec(cur+t, n+1)
			}
		}
		rec("", 0)
	}
	return viols
}

var c11Spec = fw.Spec[c11Case]{
	ID:    "C11",
	Level: "model_checking",
	Rule: "complete enumeration: ALL strings of length <=L over {'/',' ','.','a','b',TAB} as registered path P and as request path Q - the full P x Q square in both StrictLastSlash modes (one evaluation = one GET and one HEAD lookup of Q on a router holding GET P; reach <=> Norm(Q)==Norm(P)); " +
		"all G x P x Q over strings of length <=3 for group prefixes and all nested G1 x G2 x P over strings of length <=2; all raw paths of <=4 tokens over {/,a,b,%2F,%2f,%20,space,|,%7C}, each with four RequestURI values (absent, equal, stale prefix, *) under both UseEncodedPath settings; non-trivial = a (P,Q) pair that must reach the route / an escaped path that differs from the decoded one",
	Assume: []string{"alphabet of 6 characters; L=5 quick, 6 thorough", "net/url's EscapedPath is taken as the definition of 'the escaped path'"},
	Bounds: func(tier string) map[string]any {
		L := 5
		if tier == "thorough" {
			L = 6
		}
		return map[string]any{"L": L, "strings": len(c11Get(L).strs), "group_strings": len(c11Get(3).strs), "modes": 2}
	},
	Gen:   c11Gen,
	Run:   c11Run,
	Batch: 8,
}
