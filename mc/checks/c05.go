package checks

import (
	"fmt"
	"strings"

	"verif/mc/fw"
	"verif/mc/refmodel"
)

// C05: Abort stops every later handler and only later handlers.

var c05Table = map[byte]refmodel.Behaviour{
	'p': {},
	'n': {refmodel.SNext},
	'q': {refmodel.SNext, refmodel.SProbe},
	'a': {refmodel.SProbe, refmodel.SAbort, refmodel.SProbe},
	'b': {refmodel.SAbort, refmodel.SProbe, refmodel.SNext, refmodel.SProbe},
	'c': {refmodel.SNext, refmodel.SProbe, refmodel.SAbort, refmodel.SProbe},
	't': {refmodel.SAbortThen, refmodel.SProbe},
	's': {refmodel.SAbortSt, refmodel.SProbe},
	'm': {refmodel.SAbortStMsg, refmodel.SProbe, refmodel.SNext},
	'w': {refmodel.SWrite, refmodel.SNext, refmodel.SProbe},
	'u': {refmodel.SStatus, refmodel.SNext},
	'r': {refmodel.SRedispAbort, refmodel.SProbe, refmodel.SNext, refmodel.SProbe},
	'z': {refmodel.SAbortSt200, refmodel.SProbe},
	'D': {refmodel.SSilent, refmodel.SDefault404}, // the built-in not-found responder (last handler of "notfound" chains)
	'A': {refmodel.SSilent, refmodel.SDefault405}, // the built-in not-allowed responder (last handler of "notallowed" chains)
	'O': {refmodel.SSilent, refmodel.SDefault200}, // ... answering an OPTIONS request
	// an aborted handler installs a replacement chain (error pages do) and calls Next: the abort stands
	'R': {refmodel.SAbort, refmodel.SReplaceChain, refmodel.SProbe, refmodel.SNext, refmodel.SProbe},
	'e': {refmodel.SAddErr, refmodel.SNext, refmodel.SProbe},
	'f': {refmodel.SAddErr},
	'x': {refmodel.SNext, refmodel.SWrite, refmodel.SProbe},    // writes after the rest of the chain returned
	'y': {refmodel.SNext, refmodel.SWriteStr, refmodel.SProbe}, // ... through io.WriteString(c.Resp, ...)
	'v': {refmodel.SWriteStr, refmodel.SNext},
	// an abort followed by three more Next calls (none of them may start anything)
	'B': {refmodel.SAbort, refmodel.SNext, refmodel.SNext, refmodel.SNext, refmodel.SProbe},
	// status-only aborts followed by a Flush (the flush commits the selected status); Next, then Flush on the way back
	'F': {refmodel.SAbortSt, refmodel.SFlush, refmodel.SProbe},
	'G': {refmodel.SNext, refmodel.SFlush, refmodel.SProbe},
	'H': {refmodel.SStatus, refmodel.SFlush, refmodel.SNext},
}

const c05Codes = "pnqabctsmwuz"

// compareChain runs one chain on rux and on the model and reports differences.
func compareChain(sh chainShape, table map[byte]refmodel.Behaviour, st *fw.Stats) []fw.Viol {
	obs, bs, regPanic := runChain(sh, table)
	desc := func() string {
		hooks := ""
		if sh.Hooks != "" {
			var parts []string
			for _, h := range sh.Hooks {
				parts = append(parts, string(h)+"="+map[rune]string{'E': "OnError hook", 'P': "OnPanic hook", 'W': "a first middleware wraps c.Resp in a pass-through writer", 'H': "the router served a hijacking request and a 404 before",
					'C': "dynamic route on a caching router measured on the second identical request", 'X': "the router served a request that aborted and then panicked (no hook) before", 'D': "debug mode on",
					'S': "group middleware added by separate Use calls and a sibling route with its own middleware registered afterwards",
					'V': "middleware lists handed over as caller-owned spread slices with spare capacity which the caller then reuses for a second router (first global middleware) and for two sibling routes that add more with Route.Use (variadic route middleware)",
					'M': "caching router; the measured chain belongs to a PUT route on /x/{id} registered first, a later route /{sec}/{id} for POST and PUT has other middleware; history POST /x/7, then the measured PUT /x/7",
					'N': "the route is registered for all methods with Any(path, main, list...) from a caller-owned slice whose elements the caller overwrites afterwards",
					'L': "the caller's writer refuses every body byte (a client that is gone); no handler writes body bytes itself",
					'Y': "the request goes to /fwd, whose first middleware forwards it with HandleContext to the measured route (/fwd's other handlers must not run)",
					'K': "caching router; the measured chain belongs to a route registered for HEAD only on /x/{id}, a GET route with other middleware covers the same path; history GET, HEAD, then the measured HEAD request"}[h])
			}
			hooks = fmt.Sprintf(" on a router with %q (%s)", sh.Hooks, strings.Join(parts, "; "))
		}
		return fmt.Sprintf("chain of %d handlers (global %d, group %d, route %d via %s, + main), behaviours %q%s", sh.N, sh.Split[0], sh.Split[1], sh.Split[2], sh.Via, sh.Beh, hooks)
	}
	st.Evals++
	if regPanic != nil {
		return []fw.Viol{{Sig: "register:panic", Msg: fmt.Sprintf("%s: registration panicked: %v", desc(), regPanic)}}
	}
	want := refmodel.RunChain(bs, abortCode)
	if sh.N > 63 {
		// beyond the documented limit (only global middleware can take a chain there) the cursor passes the abort
		// sentinel without any abort, so IsAborted() carries no information (DESIGN L1): only enter / leave are compared
		strip := func(es []refmodel.Event) []refmodel.Event {
			var out []refmodel.Event
			for _, e := range es {
				if e.Kind != "probe" {
					out = append(out, e)
				}
			}
			return out
		}
		obs.events, want.Events = strip(obs.events), strip(want.Events)
	}
	if obs.pv != nil {
		return []fw.Viol{{Sig: "serve:panic", Msg: fmt.Sprintf("%s: ServeHTTP panicked: %v; trace so far: %s", desc(), obs.pv, diffEvents(obs.events, want.Events))}}
	}
	var vs []fw.Viol
	if len(obs.events) != len(want.Events) || evString(obs.events) != evString(want.Events) {
		// classify the first difference
		i := 0
		for i < len(obs.events) && i < len(want.Events) && obs.events[i] == want.Events[i] {
			i++
		}
		sig := "trace:order"
		if i < len(obs.events) && i < len(want.Events) {
			g, w := obs.events[i], want.Events[i]
			switch {
			case g.Kind == "probe" && w.Kind == "probe" && g.H == w.H && g.Aborted && !w.Aborted:
				sig = "isaborted:true-without-abort"
				// after Next() returned in a long chain?
				if i > 0 && obs.events[i-1].Kind == "leave" {
					sig += ":post-next"
				}
			case g.Kind == "probe" && w.Kind == "probe" && g.H == w.H && !g.Aborted && w.Aborted:
				sig = "isaborted:false-after-abort"
			case g.Kind == "enter" && w.Kind != "enter":
				sig = "trace:handler-started-unexpectedly"
			case w.Kind == "enter" && g.Kind != "enter":
				sig = "trace:handler-not-started"
			}
		} else if len(obs.events) > len(want.Events) {
			sig = "trace:extra-events"
		} else {
			sig = "trace:missing-events"
		}
		vs = append(vs, fw.Viol{Sig: sig, Msg: fmt.Sprintf("%s: %s", desc(), diffEvents(obs.events, want.Events))})
	}
	if obs.status != want.Status {
		vs = append(vs, fw.Viol{Sig: "status", Msg: fmt.Sprintf("%s: response status %d, expected %d", desc(), obs.status, want.Status)})
	}
	return vs
}

type c05Case struct {
	Shapes []chainShape `json:"chains"`
}

func splitsOf(m int) [][3]int {
	var out [][3]int
	for g := 0; g <= m; g++ {
		for p := 0; g+p <= m; p++ {
			out = append(out, [3]int{g, p, m - g - p})
		}
	}
	return out
}

func viaFor(s [3]int) string {
	switch (s[0] + 2*s[1] + s[2]) % 3 {
	case 0:
		return "variadic"
	case 1:
		return "use"
	}
	return "mixed"
}

// all vectors of length n over codes
func vectors(codes string, n int, f func(string)) {
	buf := make([]byte, n)
	var rec func(i int)
	rec = func(i int) {
		if i == n {
			f(string(buf))
			return
		}
		for j := 0; j < len(codes); j++ {
			buf[i] = codes[j]
			rec(i + 1)
		}
	}
	rec(0)
}

// deviation bounding: default everywhere, at most d positions take another code
func deviations(n int, def byte, alts string, d int, f func(string)) {
	buf := []byte(strings.Repeat(string(def), n))
	var rec func(start, left int)
	rec = func(start, left int) {
		f(string(buf))
		if left == 0 {
			return
		}
		for i := start; i < n; i++ {
			for j := 0; j < len(alts); j++ {
				if alts[j] == def {
					continue
				}
				buf[i] = alts[j]
				rec(i+1, left-1)
			}
			buf[i] = def
		}
	}
	rec(0, d)
}

func c05Gen(tier string, emit func(c05Case)) {
	var cur []chainShape
	push := func(s chainShape) {
		cur = append(cur, s)
		if len(cur) == 64 {
			emit(c05Case{Shapes: cur})
			cur = nil
		}
	}
	maxFull := 4
	if tier == "thorough" {
		maxFull = 5
	}
	for n := 1; n <= maxFull; n++ {
		for _, sp := range splitsOf(n - 1) {
			vectors(c05Codes, n, func(b string) { push(chainShape{N: n, Split: sp, Via: viaFor(sp), Beh: b}) })
		}
	}
	// routers with an OnError and / or an OnPanic hook installed, and handlers that record errors (e = AddError,Next,probe;
	// f = AddError): the hooks may not change which handlers run nor the status an abort determines
	for n := 1; n <= 3; n++ {
		for _, sp := range splitsOf(n - 1) {
			for _, hk := range []string{"E", "P", "EP"} {
				vectors(c05Codes+"ef", n, func(b string) {
					if hk != "P" && !strings.ContainsAny(b, "ef") {
						return
					}
					push(chainShape{N: n, Split: sp, Via: viaFor(sp), Beh: b, Hooks: hk})
				})
			}
		}
	}
	// body bytes sent through io.WriteString(c.Resp, ...) (the recorder, like net/http's writer, is an io.StringWriter)
	for n := 2; n <= 3; n++ {
		for _, sp := range splitsOf(n - 1) {
			vectors(c05Codes+"yv", n, func(b string) {
				if strings.ContainsAny(b, "yv") && strings.ContainsAny(b, "tsmzabc") {
					push(chainShape{N: n, Split: sp, Via: viaFor(sp), Beh: b})
				}
			})
		}
	}
	// a transparent writer wrapper installed by a first middleware ('W'), and a router that served a hijacking request
	// and a 404 before ('H'): an abort's status still decides the response (SetStatus, which by design bypasses
	// c.Resp, is left out of the wrapped chains)
	for n := 1; n <= 3; n++ {
		for _, sp := range splitsOf(n - 1) {
			for _, hk := range []string{"W", "H", "X", "D"} {
				codes := "pnqabctsmwzxyv"
				if hk != "W" {
					codes += "u"
				}
				vectors(codes, n, func(b string) {
					if !strings.ContainsAny(b, "tsmzabc") {
						return
					}
					push(chainShape{N: n, Split: sp, Via: viaFor(sp), Beh: b, Hooks: hk})
				})
			}
		}
	}
	// the caller's writer refuses every body byte ('L'): the helpers that answer for an abort (AbortWithStatus with a
	// message) still abort, and which handlers run does not depend on the client still listening
	for n := 1; n <= 3; n++ {
		for _, sp := range splitsOf(n - 1) {
			vectors("pnqabctsmzu", n, func(b string) {
				if strings.ContainsAny(b, "mtsz") {
					push(chainShape{N: n, Split: sp, Via: viaFor(sp), Beh: b, Hooks: "L"})
					if strings.Contains(b, "m") {
						push(chainShape{N: n, Split: sp, Via: viaFor(sp), Beh: b, Hooks: "LP"})
					}
				}
			})
		}
	}
	// a sibling route with its own middleware registered after the measured one, in a group whose middleware slice has
	// spare capacity; and a custom NotFound handler installed before the global middleware
	// ... with three (and five) group middleware: append gives the slice spare capacity exactly then
	for _, sp := range [][3]int{{0, 3, 1}, {1, 3, 1}, {0, 3, 2}, {0, 5, 1}} {
		n := sp[0] + sp[1] + sp[2] + 1
		for _, via := range []string{"variadic", "use"} {
			vectors("pqs", n, func(b string) { push(chainShape{N: n, Split: sp, Via: via, Beh: b, Hooks: "S"}) })
		}
	}
	for n := 3; n <= 4; n++ {
		for _, sp := range splitsOf(n - 1) {
			if sp[1] == 0 || sp[2] == 0 {
				continue
			}
			for _, via := range []string{"variadic", "use"} {
				vectors("pqastm", n, func(b string) { push(chainShape{N: n, Split: sp, Via: via, Beh: b, Hooks: "S"}) })
			}
		}
	}
	// the chain of every action of a resource controller (route middleware from Uses()), for every method of the REST table
	for n := 1; n <= 3; n++ {
		for _, sp := range splitsOf(n - 1) {
			for _, via := range chainResVias {
				vectors("pqas", n, func(b string) { push(chainShape{N: n, Split: sp, Via: via, Beh: b}) })
			}
		}
	}
	// caller-owned spread slices with spare capacity, reused by the caller for a second router / a sibling route
	for n := 2; n <= 4; n++ {
		for _, sp := range splitsOf(n - 1) {
			for _, via := range []string{"variadic", "use", "mixed"} {
				if sp[2] < 2 && via == "mixed" {
					continue
				}
				vectors("pqas", n, func(b string) { push(chainShape{N: n, Split: sp, Via: via, Beh: b, Hooks: "V"}) })
			}
		}
	}
	// aborts followed by further Next calls / by a Flush before any body byte
	for n := 1; n <= 4; n++ {
		for _, sp := range splitsOf(n - 1) {
			vectors("qsBFGH", n, func(b string) {
				if strings.ContainsAny(b, "BFGH") {
					push(chainShape{N: n, Split: sp, Via: viaFor(sp), Beh: b})
				}
			})
		}
	}
	// a custom NotFound chain on a router without global middleware that has served unmatched and matched requests before
	for n := 1; n <= 3; n++ {
		vectors("pnqabtsm", n, func(b string) {
			push(chainShape{N: n, Split: [3]int{0, 0, n - 1}, Via: "notfound-custom-only", Beh: b})
		})
	}
	for n := 2; n <= 4; n++ {
		vectors("pnqabtsmuz", n, func(b string) {
			push(chainShape{N: n, Split: [3]int{n - 1, 0, 0}, Via: "notfound-custom-first", Beh: b})
		})
	}
	// unmatched requests: global middleware around the built-in not-found responder, which must not start after an abort
	for n := 2; n <= 4; n++ {
		vectors("pnqabtsmuz", n-1, func(b string) {
			push(chainShape{N: n, Split: [3]int{n - 1, 0, 0}, Via: "notfound", Beh: b + "D"})
		})
	}
	// an aborted handler that replaces the chain (SetHandlers) at every position of n<=4 chains
	for n := 1; n <= 4; n++ {
		for _, sp := range splitsOf(n - 1) {
			deviations(n, 'q', "R", 1, func(b string) { push(chainShape{N: n, Split: sp, Via: viaFor(sp), Beh: b}) })
			deviations(n, 'p', "R", 1, func(b string) { push(chainShape{N: n, Split: sp, Via: viaFor(sp), Beh: b}) })
		}
	}
	// ... and around the built-in not-allowed responder (HandleMethodNotAllowed; the path is registered for GET only),
	// asked with POST (405) and with OPTIONS (200): an aborting middleware decides the status, the responder does not start
	for n := 2; n <= 4; n++ {
		vectors("pnqabtsmuz", n-1, func(b string) {
			push(chainShape{N: n, Split: [3]int{n - 1, 0, 0}, Via: "notallowed", Beh: b + "A"})
			push(chainShape{N: n, Split: [3]int{n - 1, 0, 0}, Via: "notallowed-options", Beh: b + "O"})
		})
	}
	// a handler that re-dispatches (HandleContext) to a route whose middleware aborts: route-level chains only
	// (global middleware would run again inside the re-dispatch), exactly one such handler, at every position
	for n := 2; n <= 5; n++ {
		for pos := 0; pos < n; pos++ {
			vectors("pnq", n-1, func(b string) {
				push(chainShape{N: n, Split: [3]int{0, 0, n - 1}, Via: viaFor([3]int{0, pos, n}), Beh: b[:pos] + "r" + b[pos:]})
			})
		}
	}
	if tier == "quick" {
		for _, def := range []byte{'n', 'p'} {
			for _, sp := range splitsOf(4) {
				deviations(5, def, c05Codes, 3, func(b string) { push(chainShape{N: 5, Split: sp, Via: viaFor(sp), Beh: b}) })
			}
		}
	}
	// near the handler limit: uniform default, <= d deviating positions
	d := 1
	if tier == "thorough" {
		d = 2
	}
	for _, n := range []int{33, 34, 61, 62, 63} {
		splits := [][3]int{{0, 0, n - 1}, {2, 3, n - 6}, {1, 0, n - 2}}
		for _, def := range []byte{'q', 'p', 'n'} {
			for _, sp := range splits {
				deviations(n, def, "abctsmw", d, func(b string) { push(chainShape{N: n, Split: sp, Via: "use", Beh: b}) })
				if n >= 61 {
					deviations(n, def, "BF", 1, func(b string) { push(chainShape{N: n, Split: sp, Via: "use", Beh: b}) })
				}
				if n >= 61 && def != 'p' {
					deviations(n, def, "acse", 1, func(b string) { push(chainShape{N: n, Split: sp, Via: "use", Beh: b, Hooks: "EP"}) })
				}
			}
		}
	}
	if tier == "quick" {
		// bound 2 for the longest chain with the three abort kinds that differ in cursor handling
		deviations(63, 'q', "acs", 2, func(b string) { push(chainShape{N: 63, Split: [3]int{0, 0, 62}, Via: "use", Beh: b}) })
	}
	if len(cur) > 0 {
		emit(c05Case{Shapes: cur})
	}
}

func c05Run(c c05Case, st *fw.Stats) []fw.Viol {
	var vs []fw.Viol
	for _, sh := range c.Shapes {
		if strings.ContainsAny(sh.Beh, "abctsmrz") {
			st.Nontrivial++
		}
		v := compareChain(sh, c05Table, st)
		for i := range v {
			// make the replay self-contained: the message names the single chain
			if len(vs) < 6 {
				vs = append(vs, v[i])
			}
		}
		st.Max("max_chain", int64(sh.N))
	}
	if st.WantSample() {
		st.Sample(map[string]any{"chain": c.Shapes[0], "codes": "y=Next,io.WriteString,probe v=io.WriteString,Next x=Next,write,probe e=AddError,Next,probe f=AddError p=plain n=Next q=Next,probe a=probe,Abort,probe b=Abort,probe,Next,probe c=Next,probe,Abort,probe t=AbortThen,probe s=AbortWithStatus,probe m=AbortWithStatus(msg),probe,Next w=write,Next,probe u=SetStatus(201),Next z=AbortWithStatus(200),probe B=Abort,Next,Next,Next,probe F=AbortWithStatus,Flush,probe G=Next,Flush,probe H=SetStatus(201),Flush,Next D=built-in 404 responder R=Abort,SetHandlers(another chain),probe,Next,probe A=built-in 405 responder O=built-in OPTIONS responder r=HandleContext to a route whose middleware aborts,probe,Next,probe"})
	}
	return vs
}

var c05Spec = fw.Spec[c05Case]{
	ID:    "C05",
	Level: "model_checking",
	Rule: "complete product: all behaviour vectors over 12 handler behaviours (+ n<=4 over {Next+probe, AbortWithStatus, Abort followed by three more Next calls, AbortWithStatus followed by Flush, Next then Flush, SetStatus then Flush}, and those behaviours as the single deviation of chains of 61..63 handlers) (+ one handler that aborts, installs a replacement chain with SetHandlers and calls Next, at every position of n<=4 chains) (+ chains of global middleware around the built-in not-found responder, and around the built-in not-allowed responder asked with POST and with OPTIONS) (+ one handler that re-dispatches with HandleContext to an aborting route, at every position of route-level chains n<=5) (+ the n<=3 product and the near-limit chains again on routers with OnError / OnPanic hooks installed and handlers that record errors) (+ the n<=3 product of chains containing an abort behind a pass-through wrapper of c.Resp, on a router that served a hijacking request / a request that aborted and then panicked before, and in debug mode) (+ the n<=3 product of chains containing an abort helper for a caller's writer that refuses every body byte, with and without an OnPanic hook) (plain, Next, Next+probe, SetStatus(201)+Next, Abort before/after/without Next, AbortThen, AbortWithStatus with/without message, write-then-Next) for chains of n<=4 (thorough 5) handlers x every split of the middleware into global/group/route; n=5 and chains near the handler limit (33,34,61,62,63) by deviation bounding (uniform default behaviour, <=d deviating positions at every position); IsAborted() sampled at every entry and around every abort/Next; " +
		"each chain is run through ServeHTTP and compared event by event with a cursor-free chain interpreter; non-trivial = a chain containing an abort",
	Assume: []string{"chains stay within the documented limit (62 middleware + main handler); global middleware is not counted by any registration check (noted in DESIGN, outside the property)"},
	Bounds: func(tier string) map[string]any {
		if tier == "quick" {
			return map[string]any{"full_product_n": "1..4", "n5_deviations": 3, "near_limit_n": "33,34,61,62,63", "near_limit_deviations": "1 (2 for n=63 over {a,c,s})"}
		}
		return map[string]any{"full_product_n": "1..5", "near_limit_n": "33,34,61,62,63", "near_limit_deviations": 2}
	},
	Gen:   c05Gen,
	Run:   c05Run,
	Batch: 4,
}

func init() {
	Registry["C05"] = func(args []string) int { return fw.Main(c05Spec, args) }
}
