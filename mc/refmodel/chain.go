package refmodel

import "fmt"

// ---------------------------------------------------------------------------
// Handler-chain interpreter (C04, C05). No cursor arithmetic: "next" is simply
// the first handler that has not been started yet.
// ---------------------------------------------------------------------------

// Step is one action inside a handler body.
type Step string

const (
	SNext       Step = "next"         // c.Next()
	SAbort      Step = "abort"        // c.Abort()
	SAbortThen  Step = "abort-then"   // c.AbortThen()
	SAbortSt    Step = "abort-status" // c.AbortWithStatus(code)
	SAbortStMsg Step = "abort-status-msg"
	SWrite      Step = "write"  // write one body byte (commits the response)
	SProbe      Step = "probe"  // sample IsAborted()
	SReturn     Step = "return" // return early
	SStatus     Step = "status" // c.SetStatus(201): selects a status without committing it
	// SRedispAbort: the handler re-dispatches the request (HandleContext) to a route whose only middleware (id 100)
	// probes, aborts, probes; its main handler (id 101) must therefore never start, nor any later handler out here
	SRedispAbort  Step = "redispatch-to-aborting-route"
	SAbortSt200   Step = "abort-status-200" // c.AbortWithStatus(200): must replace a pending non-200 status too
	SSilent       Step = "silent"           // first step of a handler that records no events (the built-in 404 responder)
	SReplaceChain Step = "set-handlers"     // c.SetHandlers(other chain) by an aborted handler: the abort stands, nothing of it starts
	SDefault404   Step = "default-404"      // http.NotFound: status 404 unless committed, then the body
	SDefault405   Step = "default-405"      // the built-in not-allowed responder for a method other than OPTIONS: http.Error with 405
	SDefault200   Step = "default-options"  // the built-in responder for OPTIONS: selects status 200, writes nothing
	SWriteStr     Step = "write-string"     // io.WriteString(c.Resp, "x"): same as SWrite for the specification
	SAddErr       Step = "add-error"        // Context.AddError: recorded for the OnError hook, invisible to the chain
	SFlush        Step = "flush"            // c.Resp.(http.Flusher).Flush(): commits the response like a write, with the status selected so far
)

// Behaviour is the body of one handler: a sequence of steps.
type Behaviour []Step

type Event struct {
	Kind    string // enter leave probe
	H       int
	Aborted bool // for probe: the flag value the model expects
}

func (e Event) String() string {
	if e.Kind == "probe" {
		return fmt.Sprintf("probe(h%d)=%v", e.H, e.Aborted)
	}
	return fmt.Sprintf("%s(h%d)", e.Kind, e.H)
}

type ChainResult struct {
	Events    []Event
	Status    int  // status the response must carry (0 = not determined by the chain)
	Committed bool // a body byte was written
	StatusSet int
}

// RunChain interprets a chain of len(bs) handlers. abortCode is the status
// AbortWithStatus uses.
func RunChain(bs []Behaviour, abortCode int) ChainResult {
	var res ChainResult
	next := 0
	aborted := false
	pendingStatus := 0
	var drive func()
	run := func(k int) {
		silent := len(bs[k]) > 0 && bs[k][0] == SSilent
		if !silent {
			res.Events = append(res.Events, Event{Kind: "enter", H: k})
			// IsAborted is sampled at every handler entry
			res.Events = append(res.Events, Event{Kind: "probe", H: k, Aborted: aborted})
		}
	loop:
		for _, s := range bs[k] {
			switch s {
			case SNext:
				drive()
			case SAbort, SAbortThen:
				aborted = true
			case SAbortSt, SAbortStMsg:
				if !res.Committed {
					pendingStatus = abortCode
				}
				if s == SAbortStMsg {
					// http.Error writes the message: commits with the abort status
					if !res.Committed {
						res.Committed = true
						res.Status = pendingStatus
					}
				}
				aborted = true
			case SWrite, SWriteStr, SFlush:
				if !res.Committed {
					res.Committed = true
					res.Status = pendingStatus
					if res.Status == 0 {
						res.Status = 200
					}
				}
			case SStatus:
				if !res.Committed {
					pendingStatus = 201
				}
			case SAbortSt200:
				if !res.Committed {
					pendingStatus = 200
				}
				aborted = true
			case SSilent, SAddErr, SReplaceChain:
			case SDefault404:
				if !res.Committed {
					pendingStatus = 404
					res.Committed = true
					res.Status = 404
				}
			case SDefault405:
				if !res.Committed {
					pendingStatus = 405
					res.Committed = true
					res.Status = 405
				}
			case SDefault200:
				if !res.Committed {
					pendingStatus = 200
				}
			case SRedispAbort:
				res.Events = append(res.Events, Event{Kind: "enter", H: 100}, Event{Kind: "probe", H: 100, Aborted: false},
					Event{Kind: "probe", H: 100, Aborted: false}, Event{Kind: "probe", H: 100, Aborted: true}, Event{Kind: "leave", H: 100})
				aborted = true
			case SProbe:
				res.Events = append(res.Events, Event{Kind: "probe", H: k, Aborted: aborted})
			case SReturn:
				break loop
			}
		}
		if !silent {
			res.Events = append(res.Events, Event{Kind: "leave", H: k})
		}
	}
	drive = func() {
		for next < len(bs) && !aborted {
			k := next
			next++
			run(k)
		}
	}
	drive()
	if !res.Committed {
		res.Status = pendingStatus
		if res.Status == 0 {
			res.Status = 200
		}
	}
	return res
}

// ---------------------------------------------------------------------------
// Registration programs (C04, C12)
// ---------------------------------------------------------------------------

type Stmt struct {
	Kind   string `json:"kind"` // use group route route-use notfound notallowed controller resource
	K      int    `json:"k,omitempty"`
	K2     int    `json:"k2,omitempty"` // route: handlers added by a later Route.Use
	Prefix string `json:"prefix,omitempty"`
	Body   []Stmt `json:"body,omitempty"`
	// Spare: pass the middleware slice with spare capacity (aliasing shortcut)
	Spare bool `json:"spare,omitempty"`
	// Via: how a route is registered: "" = r.GET(path, h, mw...), "any" = r.Any(path, h, mw...),
	// "attach" = NewRoute(path, h).Use(mw...).AttachTo(r)  (middleware already on the route when it is added)
	Via string `json:"via,omitempty"`
}

// RegRoute is what the model expects of one registered route.
type RegRoute struct {
	Path    string
	Method  string
	Name    string
	Chain   []int // handler ids: group..., route..., main (globals are per request)
	NGroup  int
	Main    int
	Dynamic bool
}

type RegResult struct {
	Global     []int
	Routes     []RegRoute
	NotFound   []int // nil = default
	NotAllowed []int
	NextID     int
}

// helper shared by model and harness so that both allocate ids in program order
type IDGen struct{ N int }

func (g *IDGen) Take(k int) []int {
	out := make([]int, k)
	for i := range out {
		out[i] = g.N
		g.N++
	}
	return out
}
