module verif/mc

go 1.23

require github.com/gookit/rux v0.0.0

replace github.com/gookit/rux => /repo
