package checks

import (
	"encoding/base64"
	"fmt"
	"net/http"
	"net/http/httptest"
	"net/url"
	"strings"
	"time"

	"github.com/gookit/rux"
	"github.com/gookit/rux/pkg/handlers"

	"verif/mc/fw"
)

// C20: auth, method-override and http.Handler wrappers behave as gates.

// c20CapW is a writer a middleware puts in place of c.Resp: it records what passes through it
type c20CapW struct {
	http.ResponseWriter
	buf []byte
	on  bool
}

func (w *c20CapW) Write(b []byte) (int, error) {
	w.buf = append(w.buf, b...)
	return w.ResponseWriter.Write(b)
}

type c20Case struct {
	Kind     string `json:"kind"` // auth | override | wrappers | wraph
	Accounts int    `json:"accounts,omitempty"`
	Method   string `json:"method,omitempty"`
	N        int    `json:"n,omitempty"`
}

var c20Accounts = []map[string]string{nil, {}, {"u": "p"}, {"u": ""}, {"u": "p", "v": "q"}, {"u": "p:x"}}

func b64(s string) string { return base64.StdEncoding.EncodeToString([]byte(s)) }

var c20Auth = []string{
	"<absent>", "Basic " + b64("u:p"), "Basic " + b64("u:wrong"), "Basic " + b64("nobody:p"), "Basic " + b64("u:"), "Basic " + b64(":p"),
	"Basic " + b64("nocolon"), "Basic", "Basic ", "Basic !!!", "basic " + b64("u:p"), "BASIC " + b64("v:q"), "Bearer x", "Basic  " + b64("u:p"),
	"Basic " + b64("u:p:x"), "Basic " + b64("v:q"), "Basic " + b64("u:p") + "=", " Basic " + b64("u:p"), "Basic " + b64("U:p"), "",
	// unknown / empty users with empty and other passwords (the full user x password square)
	"Basic " + b64("nobody:"), "Basic " + b64(":"), "Basic " + b64("v:"), "Basic " + b64("v:p"), "Basic " + b64("nobody:q"), "Basic " + b64("u:q"), "Basic " + b64(":q"),
}

// independent reading of "well-formed Basic credentials"
func c20Parse(h string) (user, pwd string, ok bool) {
	const p = "basic "
	if len(h) < len(p) || !strings.EqualFold(h[:len(p)], p) {
		return
	}
	raw, err := base64.StdEncoding.DecodeString(h[len(p):])
	if err != nil {
		return
	}
	i := strings.IndexByte(string(raw), ':')
	if i < 0 {
		return
	}
	return string(raw[:i]), string(raw[i+1:]), true
}

func c20Gen(tier string, emit func(c20Case)) {
	for a := range c20Accounts {
		emit(c20Case{Kind: "auth", Accounts: a})
	}
	for _, m := range append(append([]string{}, c18Methods...), "post") {
		emit(c20Case{Kind: "override", Method: m})
	}
	for n := 1; n <= 4; n++ {
		emit(c20Case{Kind: "wrappers", N: n})
	}
	for n := 1; n <= 4; n++ {
		emit(c20Case{Kind: "wraph", N: n})
	}
}

func c20Run(c c20Case, st *fw.Stats) []fw.Viol {
	var vs []fw.Viol
	add := func(sig, msg string) {
		if len(vs) < 6 {
			vs = append(vs, fw.Viol{Sig: sig, Msg: msg})
		}
	}
	switch c.Kind {
	case "auth":
		accounts := c20Accounts[c.Accounts]
		for _, placement := range []string{"route", "global", "group", "global+405", "global+404", "route-dynamic-cached", "route-dynamic-cached-repeat", "nested-group-siblings", "group-use-siblings", "nested-group-siblings-single-mw", "group-use-siblings-single-mw", "global-two-gates", "group-use-two-gates", "banner-then-gate", "late-global-gate", "forwarded-to-gated-route", "notfound-chain-gate-single-mw", "resource-update-put", "resource-update-patch", "after-escaped-panic", "attached-in-group-then-use", "group-gate-controller-own-mw", "group-gate-controller-no-mw", "late-gated-route-warm-cache"} {
			for _, hdr := range c20Auth {
				st.Evals++
				st.Nontrivial++
				var trace []string
				r := rux.New(rux.HandleMethodNotAllowed)
				if strings.HasPrefix(placement, "route-dynamic-cached") || placement == "late-gated-route-warm-cache" {
					r = rux.New(rux.HandleMethodNotAllowed, rux.CachingWithNum(2))
				}
				pass := func(ctx *rux.Context) {}
				sibling := func(ctx *rux.Context) { trace = append(trace, "sibling-mw") }
				auth := handlers.HTTPBasicAuth(accounts)
				after := func(ctx *rux.Context) { trace = append(trace, "after-mw") }
				main := func(ctx *rux.Context) {
					trace = append(trace, fmt.Sprintf("main user=%v", ctx.SafeGet("username")))
					ctx.WriteString("secret")
				}
				switch placement {
				case "route":
					r.GET("/s", main, auth, after)
				case "global":
					r.Use(auth)
					r.GET("/s", main, after)
				case "group":
					r.Group("/", func() { r.GET("/s", main, after) }, auth)
				case "route-dynamic-cached", "route-dynamic-cached-repeat":
					// a dynamic route on a caching router: the second identical request is answered from the route cache
					r.Group("/", func() { r.GET("/s/{id}", main, auth, after) }, pass)
				case "nested-group-siblings":
					// the gate is route-level middleware of the first of two sibling routes inside nested groups
					r.Group("/", func() {
						r.Group("/in", func() {
							r.GET("/s", main, auth, after)
							r.GET("/t", main, sibling)
							r.GET("/u", main).Use(sibling, sibling)
						}, pass)
					}, pass, pass)
				case "nested-group-siblings-single-mw":
					// the same with exactly one route-level middleware per sibling (a single append into spare capacity)
					r.Group("/", func() {
						r.Group("/in", func() {
							r.GET("/s", main, auth)
							r.GET("/t", main, sibling)
							r.GET("/u", main).Use(sibling)
						}, pass)
					}, pass, pass)
				case "group-use-siblings-single-mw":
					r.Group("/in", func() {
						r.Use(pass)
						r.Use(pass)
						r.Use(pass)
						r.GET("/s", main, auth)
						r.GET("/t", main, sibling)
						r.GET("/u", main, sibling)
					})
				case "resource-update-put", "resource-update-patch":
					// the gate is the per-action middleware (Uses) of a resource controller's Update action, which has two methods
					ctl := &ChainRes{h: map[string]rux.HandlerFunc{}, uses: map[string][]rux.HandlerFunc{}}
					for _, a := range []string{"Index", "Create", "Store", "Show", "Edit", "Update", "Delete"} {
						ctl.h[a] = pass
					}
					ctl.h["Update"] = main
					ctl.uses["Update"] = []rux.HandlerFunc{auth, after}
					r.Resource("/", ctl)
				case "after-escaped-panic":
					// no OnPanic hook: an earlier request panicked in the first handler of its chain and the panic was
					// recovered by the caller (as net/http does); the gated route is asked next
					r.GET("/s", main, auth, after)
					r.GET("/boom", func(ctx *rux.Context) {}, func(ctx *rux.Context) { panic("boom") })
					// (whether the next request gets the very context of the panicking one is up to sync.Pool: the sequence
					// "panic, panic, request without credentials" is repeated; the gate must hold every time)
					for round := 0; round < 30; round++ {
						_ = try(func() { r.ServeHTTP(httptest.NewRecorder(), httptest.NewRequest("GET", "/boom", nil)) })
						_ = try(func() { r.ServeHTTP(httptest.NewRecorder(), httptest.NewRequest("GET", "/boom", nil)) })
						trace = nil
						w0 := httptest.NewRecorder()
						_ = try(func() { r.ServeHTTP(w0, httptest.NewRequest("GET", "/s", nil)) })
						if len(trace) != 0 || w0.Code != 401 {
							add("auth:open-for-invalid", fmt.Sprintf("HTTPBasicAuth(%v) as route middleware; two requests whose first handler panicked (no hook, the caller recovered) were served, then GET /s WITHOUT credentials (round %d): status %d, downstream ran %v", accounts, round+1, w0.Code, trace))
							break
						}
					}
					trace = nil
				case "group-gate-controller-own-mw":
					// the gate is group middleware; inside the group a controller is mounted with middleware of its own
					r.Group("/in", func() { r.Controller("/c", c20Ctl(func(g *rux.Router) { g.GET("/s", main) }), after) }, auth)
				case "group-gate-controller-no-mw":
					r.Group("/in", func() { r.Controller("/c", c20Ctl(func(g *rux.Router) { g.GET("/s", main, after) })) }, auth)
				case "late-gated-route-warm-cache":
					// caching router: a public two-variable route answered the path (twice) before the gated, more specific
					// route was registered
					r.GET("/{section}/{page}", func(ctx *rux.Context) { ctx.WriteString("public") })
					r.GET("/pre/{page}", func(ctx *rux.Context) { ctx.WriteString("public") })
					for i := 0; i < 2; i++ {
						_ = try(func() { r.ServeHTTP(httptest.NewRecorder(), httptest.NewRequest("GET", "/s/7", nil)) })
					}
					r.GET("/s/{page}", main, auth, after)
				case "attached-in-group-then-use":
					// a Route value attached inside a group; the gate is added to it afterwards with Route.Use
					rt := rux.NewRoute("/s", main, "GET")
					r.Group("/in", func() { rt.AttachTo(r) }, pass)
					rt.Use(auth, after)
				case "notfound-chain-gate-single-mw":
					// the gate is the first handler of a custom NotFound chain on a router WITHOUT global middleware; the router
					// has served an unmatched and then a matched request before
					r.NotFound(auth, main)
					r.GET("/ok", func(ctx *rux.Context) {}, pass, pass)
					_ = try(func() { r.ServeHTTP(httptest.NewRecorder(), httptest.NewRequest("GET", "/missing-first", nil)) })
					_ = try(func() { r.ServeHTTP(httptest.NewRecorder(), httptest.NewRequest("GET", "/ok", nil)) })
					_ = try(func() { r.ServeHTTP(httptest.NewRecorder(), httptest.NewRequest("GET", "/missing-first", nil)) })
					_ = try(func() { r.ServeHTTP(httptest.NewRecorder(), httptest.NewRequest("GET", "/ok", nil)) })
					trace = nil
				case "late-global-gate":
					// the route has already served a request when the global gate is installed
					r.GET("/s", main, after)
					_ = try(func() { r.ServeHTTP(httptest.NewRecorder(), httptest.NewRequest("GET", "/s", nil)) })
					trace = nil
					r.Use(auth)
				case "forwarded-to-gated-route":
					// the request reaches the gated route through a middleware of ANOTHER route that re-dispatches it with
					// HandleContext (the forwarder is not the last handler of its own chain)
					r.GET("/s", main, auth, after)
					r.GET("/fwd", func(ctx *rux.Context) {}, func(ctx *rux.Context) {
						ctx.Req.URL.Path = "/s"
						ctx.Router().HandleContext(ctx)
					}, pass)
				case "banner-then-gate":
					// an upstream middleware has already sent body bytes when the gate decides
					r.Use(func(ctx *rux.Context) { ctx.WriteString("banner;") })
					r.GET("/s", main, auth, after)
				case "global-two-gates":
					// two gates from one call site (a loop): an open one (any well-formed credentials), then the real one
					for _, acc := range []map[string]string{nil, accounts} {
						r.Use(handlers.HTTPBasicAuth(acc))
					}
					r.GET("/s", main, after)
				case "group-use-two-gates":
					r.Group("/in", func() {
						for _, acc := range []map[string]string{nil, accounts} {
							r.Use(handlers.HTTPBasicAuth(acc))
						}
						r.GET("/s", main, after)
					})
				case "group-use-siblings":
					r.Group("/in", func() {
						r.Use(pass)
						r.Use(pass)
						r.Use(pass)
						r.GET("/s", main, auth, after)
						r.GET("/t", main, sibling)
					})
				case "global+405", "global+404":
					// the gate is global: it also guards requests that end in the not-allowed / not-found handlers
					r.Use(auth)
					r.GET("/s", main, after)
					r.NotAllowed(func(ctx *rux.Context) {
						trace = append(trace, "after-mw", fmt.Sprintf("main user=%v", ctx.SafeGet("username")))
						ctx.WriteString("secret")
					})
					r.NotFound(func(ctx *rux.Context) {
						trace = append(trace, "after-mw", fmt.Sprintf("main user=%v", ctx.SafeGet("username")))
						ctx.WriteString("secret")
					})
				}
				req := httptest.NewRequest("GET", "/s", nil)
				switch placement {
				case "route-dynamic-cached", "route-dynamic-cached-repeat":
					req = httptest.NewRequest("GET", "/s/7", nil)
				case "nested-group-siblings", "group-use-siblings", "nested-group-siblings-single-mw", "group-use-siblings-single-mw", "group-use-two-gates", "attached-in-group-then-use":
					req = httptest.NewRequest("GET", "/in/s", nil)
				}
				if strings.HasPrefix(placement, "group-gate-controller") {
					req = httptest.NewRequest("GET", "/in/c/s", nil)
				}
				if placement == "late-gated-route-warm-cache" {
					req = httptest.NewRequest("GET", "/s/7", nil)
				}
				if placement == "forwarded-to-gated-route" {
					req = httptest.NewRequest("GET", "/fwd", nil)
				}
				if placement == "notfound-chain-gate-single-mw" {
					req = httptest.NewRequest("GET", "/no/such/page", nil)
				}
				if placement == "resource-update-put" {
					req = httptest.NewRequest("PUT", "/chainres/7", nil)
				}
				if placement == "resource-update-patch" {
					req = httptest.NewRequest("PATCH", "/chainres/7", nil)
				}
				if placement == "global+405" {
					req = httptest.NewRequest("DELETE", "/s", nil)
				} else if placement == "global+404" {
					req = httptest.NewRequest("GET", "/nowhere", nil)
				}
				if hdr != "<absent>" {
					req.Header["Authorization"] = []string{hdr}
				}
				if placement == "route-dynamic-cached-repeat" {
					// an earlier identical request with VALID credentials (or none, when every account list rejects) filled the cache
					warm := httptest.NewRequest("GET", "/s/7", nil)
					for u, p := range accounts {
						warm.SetBasicAuth(u, p)
						break
					}
					if len(accounts) == 0 {
						warm.SetBasicAuth("any", "one")
					}
					_ = try(func() { r.ServeHTTP(httptest.NewRecorder(), warm) })
					trace = nil
				}
				w := httptest.NewRecorder()
				if pv := try(func() { r.ServeHTTP(w, req) }); pv != nil {
					add("auth:panic", fmt.Sprintf("accounts %v Authorization %q: panicked: %v", accounts, hdr, pv))
					continue
				}
				user, pwd, ok := "", "", false
				if hdr != "<absent>" {
					user, pwd, ok = c20Parse(hdr)
				}
				open := false
				wantStatus := 401
				if ok {
					wantStatus = 403
					if len(accounts) == 0 {
						open = true
					} else if p, has := accounts[user]; has && p == pwd {
						open = true
					}
				}
				what := fmt.Sprintf("HTTPBasicAuth(%v) as %s middleware, Authorization %q", accounts, placement, hdr)
				if placement == "banner-then-gate" {
					// 200 is already on the wire: only the gate itself is judged
					body := w.Body.String()
					if open && (strings.Join(trace, ",") != "after-mw,main user="+user || body != "banner;secret") {
						add("auth:closed-for-valid", fmt.Sprintf("%s: valid credentials, but downstream trace %v body %q", what, trace, body))
					} else if !open && (len(trace) != 0 || strings.Contains(body, "secret")) {
						add("auth:open-for-invalid", fmt.Sprintf("%s (a middleware in front of the gate had already written \"banner;\"): the gate must stay closed, but downstream ran: %v (body %q)", what, trace, body))
					}
					continue
				}
				if open {
					wantTrace := "after-mw,main user=" + user
					if strings.HasSuffix(placement, "-single-mw") {
						wantTrace = "main user=" + user
					}
					if strings.Join(trace, ",") != wantTrace || w.Code != 200 || w.Body.String() != "secret" {
						add("auth:closed-for-valid", fmt.Sprintf("%s: valid credentials, but downstream trace %v status %d body %q", what, trace, w.Code, w.Body.String()))
					}
					continue
				}
				if len(trace) != 0 || strings.Contains(w.Body.String(), "secret") {
					add("auth:open-for-invalid", fmt.Sprintf("%s: the gate must stay closed, but downstream ran: %v (status %d body %q)", what, trace, w.Code, w.Body.String()))
					continue
				}
				if w.Code != wantStatus {
					add("auth:status", fmt.Sprintf("%s: status %d, expected %d", what, w.Code, wantStatus))
				}
				if wantStatus == 401 && !strings.HasPrefix(w.Header().Get("WWW-Authenticate"), "Basic") {
					add("auth:challenge", fmt.Sprintf("%s: 401 without a WWW-Authenticate challenge", what))
				}
			}
		}
	case "override":
		values := []string{"", "PUT", "put", "Patch", "DELETE", "delete", "GET", "POST", "HEAD", "X", "PUTX", " PUT", "OPTIONS"}
		// every proper fragment of the three names, and strings spanning two of them in a list
		seenV := map[string]bool{}
		for _, v := range values {
			seenV[v] = true
		}
		for _, name := range []string{"PUT", "PATCH", "DELETE", "PUT PATCH DELETE", "PUT,PATCH,DELETE"} {
			for i := 0; i < len(name); i++ {
				for j := i + 1; j <= len(name); j++ {
					for _, v := range []string{name[i:j], strings.ToLower(name[i:j])} {
						if !seenV[v] && (len(name) <= 6 || j-i >= 4 && j-i <= 9) {
							seenV[v] = true
							values = append(values, v)
						}
					}
				}
			}
		}
		carriers := []string{"none", "header", "query", "body", "header+query-agree", "header+body-disagree", "header+malformed-query", "header+malformed-body", "query+malformed-body"}
		for _, v := range values {
			for ci, carrier := range append(append([]string{}, carriers...), carriers...) {
				st.Evals++
				st.Nontrivial++
				var seenMethod string
				var seenOrig any
				seenPayload := "<not read>"
				var inner http.Handler = http.HandlerFunc(func(w http.ResponseWriter, req *http.Request) {
					seenPayload = req.PostFormValue("payload")
					seenMethod = req.Method
					seenOrig = req.Context().Value(handlers.OriginalMethodContextKey)
				})
				behind := ""
				if ci >= len(carriers) {
					// second pass: what is served is a rux router whose route sits behind the Timeout middleware (which
					// replaces the request by one with a deadline) and a wrapped net/http handler
					behind = " (downstream = a rux router, the handler behind handlers.Timeout(1h) and a wrapped net/http handler)"
					rr := rux.New()
					see := func(ctx *rux.Context) {
						// (a value of its own added to the request context must not hide what is already there)
						ctx.WithReqCtxValue("verif-own-key", "1")
						seenPayload = ctx.Req.PostFormValue("payload")
						seenMethod = ctx.Req.Method
						seenOrig = ctx.ReqCtxValue(handlers.OriginalMethodContextKey)
						// a copy of the context (kept for a background job, say) still tells how the request came in
						if cp := ctx.Copy(); cp.Req.Method != seenMethod || cp.ReqCtxValue(handlers.OriginalMethodContextKey) != seenOrig {
							seenMethod += fmt.Sprintf(" (but its Copy(): method %q original %v)", cp.Req.Method, cp.ReqCtxValue(handlers.OriginalMethodContextKey))
						}
					}
					rr.Use(handlers.Timeout(time.Hour), rux.WrapH(http.HandlerFunc(func(http.ResponseWriter, *http.Request) {})))
					rr.Any("/r", see)
					rr.NotFound(see) // (method strings the router has no routes for end here, behind the same middleware)
					inner = rr
				}
				h := handlers.HTTPMethodOverrideHandler(inner)
				target := "/r"
				var body string
				other := "PATCH"
				if strings.EqualFold(v, "patch") {
					other = "DELETE"
				}
				if strings.Contains(carrier, "query") {
					target += "?_method=" + url.QueryEscape(v)
				}
				if carrier == "body" {
					body = "_method=" + url.QueryEscape(v)
				}
				if carrier == "header+body-disagree" {
					body = "_method=" + other
				}
				// an unrelated malformed pair next to the carrier (a bad percent escape): what did parse still counts
				if carrier == "header+malformed-query" {
					target += "?x=%zz&y=1"
				}
				if carrier == "header+malformed-body" {
					body = "x=%zz&y=1"
				}
				if carrier == "query+malformed-body" {
					body = "x=%zz"
				}
				// every request also posts a form value of its own: the downstream handler still receives it
				if body == "" {
					body = "payload=P1"
				} else {
					body = "payload=P1&" + body
				}
				req := httptest.NewRequest(c.Method, target, strings.NewReader(body))
				if body != "" {
					req.Header.Set("Content-Type", "application/x-www-form-urlencoded")
				}
				if strings.Contains(carrier, "header") {
					req.Header.Set(handlers.HTTPMethodOverrideHeader, v)
				}
				if pv := try(func() { h.ServeHTTP(httptest.NewRecorder(), req) }); pv != nil {
					add("override:panic", fmt.Sprintf("method %s value %q carrier %s: panicked: %v", c.Method, v, carrier, pv))
					continue
				}
				if carrier == "header+body-disagree" {
					continue // the statement does not say which carrier wins: executed for totality only
				}
				up := strings.ToUpper(v)
				rewrite := c.Method == "POST" && carrier != "none" && (up == "PUT" || up == "PATCH" || up == "DELETE")
				// a PATCH / PUT body form value is also a form value; only POST requests may be rewritten
				wantMethod, wantOrig := c.Method, any(nil)
				if rewrite {
					wantMethod, wantOrig = up, "POST"
				}
				if c.Method == "POST" && wantMethod != "DELETE" && seenPayload != "P1" {
					// (net/http reads body form values for POST, PUT and PATCH requests)
					add("override:posted-form-lost", fmt.Sprintf("request method POST with the form body %q, override value %q via %s%s: downstream (method %q) reads the posted form value payload=%q, expected \"P1\"", body, v, carrier, behind, seenMethod, seenPayload))
				}
				if seenMethod != wantMethod || seenOrig != wantOrig {
					sig := "override:rewrite"
					if !rewrite {
						sig = "override:unexpected-rewrite"
					}
					add(sig, fmt.Sprintf("request method %s, override value %q via %s%s: downstream saw method %q original %v; expected method %q original %v", c.Method, v, carrier, behind, seenMethod, seenOrig, wantMethod, wantOrig))
				}
			}
		}
	case "wrappers":
		// all lists of length N of distinguishable wrappers: the first listed is outermost
		var trace []string
		mk := func(i int) func(http.Handler) http.Handler {
			return func(h http.Handler) http.Handler {
				return http.HandlerFunc(func(w http.ResponseWriter, req *http.Request) {
					trace = append(trace, fmt.Sprintf("enter%d", i))
					h.ServeHTTP(w, req)
					trace = append(trace, fmt.Sprintf("leave%d", i))
				})
			}
		}
		r := rux.New()
		r.GET("/x", func(ctx *rux.Context) { trace = append(trace, "route") })
		var ws []func(http.Handler) http.Handler
		var want []string
		for i := 0; i < c.N; i++ {
			ws = append(ws, mk(i))
			want = append(want, fmt.Sprintf("enter%d", i))
		}
		want = append(want, "route")
		for i := c.N - 1; i >= 0; i-- {
			want = append(want, fmt.Sprintf("leave%d", i))
		}
		for rep := 0; rep < 2; rep++ {
			st.Evals++
			st.Nontrivial++
			trace = nil
			h := r.WrapHTTPHandlers(ws...)
			h.ServeHTTP(httptest.NewRecorder(), httptest.NewRequest("GET", "/x", nil))
			if strings.Join(trace, " ") != strings.Join(want, " ") {
				add("wrappers:order", fmt.Sprintf("WrapHTTPHandlers with %d wrappers: trace %v, expected %v (first listed outermost)", c.N, trace, want))
			}
		}
		// with the method-override gate in the list: POST + header reaches the PUT route
		var hit string
		r2 := rux.New()
		r2.PUT("/x", func(ctx *rux.Context) { hit = "put" })
		r2.POST("/x", func(ctx *rux.Context) { hit = "post" })
		h2 := r2.WrapHTTPHandlers(append([]func(http.Handler) http.Handler{handlers.HTTPMethodOverrideHandler}, ws...)...)
		req := httptest.NewRequest("POST", "/x", nil)
		req.Header.Set(handlers.HTTPMethodOverrideHeader, "put")
		h2.ServeHTTP(httptest.NewRecorder(), req)
		if hit != "put" {
			add("wrappers:override-in-list", fmt.Sprintf("WrapHTTPHandlers(HTTPMethodOverrideHandler, %d wrappers): POST with override PUT reached %q", c.N, hit))
		}
	case "wraph":
		// chains of N handlers: every subset of positions is a wrapped generic http.Handler / HandlerFunc
		for mask := 0; mask < 1<<c.N; mask++ {
			for _, style := range []string{"handler", "func", "WrapH", "HTTPHandler", "WrapHF", "HTTPHandlerFunc"} {
				st.Evals++
				st.Nontrivial++
				var trace []string
				hs := make([]rux.HandlerFunc, c.N)
				var want []string
				var wantBody string
				for i := 0; i < c.N; i++ {
					i := i
					if mask>>i&1 == 1 {
						gen := func(w http.ResponseWriter, req *http.Request) {
							trace = append(trace, fmt.Sprintf("generic%d", i))
							_, _ = w.Write([]byte(fmt.Sprintf("g%d;", i)))
						}
						switch style {
						case "handler":
							hs[i] = rux.WrapHTTPHandler(http.HandlerFunc(gen))
						case "WrapH":
							hs[i] = rux.WrapH(http.HandlerFunc(gen))
						case "HTTPHandler":
							hs[i] = rux.HTTPHandler(http.HandlerFunc(gen))
						case "WrapHF":
							hs[i] = rux.WrapHF(gen)
						case "HTTPHandlerFunc":
							hs[i] = rux.HTTPHandlerFunc(gen)
						default:
							hs[i] = rux.WrapHTTPHandlerFunc(gen)
						}
						want = append(want, fmt.Sprintf("generic%d", i))
						wantBody += fmt.Sprintf("g%d;", i)
					} else {
						hs[i] = func(ctx *rux.Context) {
							trace = append(trace, fmt.Sprintf("native%d", i))
							ctx.WriteString(fmt.Sprintf("n%d;", i))
						}
						want = append(want, fmt.Sprintf("native%d", i))
						wantBody += fmt.Sprintf("n%d;", i)
					}
				}
				r := rux.New()
				// an outermost middleware replaces c.Resp: everything written downstream - natively or by a wrapped
				// generic handler - must go through the replacement
				cw := &c20CapW{}
				if mask%2 == 1 || style == "WrapH" {
					r.Use(func(ctx *rux.Context) {
						cw.ResponseWriter = ctx.Resp
						cw.on = true
						ctx.Resp = cw
					})
				}
				if c.N > 1 {
					r.Use(hs[0])
				}
				if c.N > 1 {
					r.GET("/x", hs[c.N-1], hs[1:c.N-1]...)
				} else {
					r.GET("/x", hs[0])
				}
				w := httptest.NewRecorder()
				if pv := try(func() { r.ServeHTTP(w, httptest.NewRequest("GET", "/x", nil)) }); pv != nil {
					add("wraph:panic", fmt.Sprintf("chain of %d, wrapped positions mask %b (%s): panicked: %v", c.N, mask, style, pv))
					continue
				}
				if cw.on && string(cw.buf) != wantBody {
					add("wraph:bypasses-replaced-writer", fmt.Sprintf("chain of %d, wrapped positions mask %b (%s), c.Resp replaced by an outer middleware: the replacement saw %q, expected everything written downstream: %q", c.N, mask, style, cw.buf, wantBody))
				}
				if strings.Join(trace, " ") != strings.Join(want, " ") || w.Body.String() != wantBody || w.Code != 200 {
					add("wraph:chain", fmt.Sprintf("chain of %d, wrapped positions mask %b (%s): trace %v body %q status %d; expected %v %q 200", c.N, mask, style, trace, w.Body.String(), w.Code, want, wantBody))
				}
			}
		}
	}
	if st.WantSample() {
		st.Sample(map[string]any{"case": c})
	}
	return vs
}

var c20Spec = fw.Spec[c20Case]{
	ID:    "C20",
	Level: "model_checking",
	Rule: "complete decision tables: HTTPBasicAuth: 6 account maps (nil, empty, one user, empty password, two users, password containing ':') x 27 Authorization values (incl. the full square of known / unknown / empty users x matching / other / empty passwords) (absent, valid, wrong password, unknown user, empty user / password, no colon, bare scheme, bad base64, scheme in other case, other scheme, double space, padding, leading space, case-changed user, empty) x 24 placements (a group gate around a controller mounted with / without middleware of its own; a gated dynamic route registered on a caching router after a public two-variable route had answered the path; right after a request whose first handler panicked without a hook (the caller recovered); on a Route value attached inside a group and given the gate afterwards with Route.Use; per-action middleware of a resource's two-method Update action, asked with PUT and with PATCH; first handler of a custom NotFound chain on a router without global middleware that served unmatched and matched requests before; two stacked gates with different account lists are among them; a global gate installed after the route served its first request; the gated route reached through another route's middleware that re-dispatches with HandleContext; behind a middleware that has already written body bytes; two gates registered from one call site with Router.Use, globally and inside a group; route, global, group middleware; global gate in front of the not-allowed and of the not-found handlers; a dynamic route on a caching router, first request and repeat after a valid one filled the cache; route-level gate of the first of several sibling routes inside nested groups / inside a group with three Use calls, with two and with exactly one route-level middleware per sibling); " +
		"HTTPMethodOverrideHandler: 10 request methods x 13 override values x 9 carriers (none, header, query, body, header+query agreeing, header+body disagreeing - for totality only -, and a carrier next to an unrelated malformed query / body pair) x {a plain net/http handler downstream, a rux router whose handler sits behind handlers.Timeout and a wrapped net/http handler}, every request posting a form value of its own that the downstream handler of a POST / PUT / PATCH request still reads; WrapHTTPHandlers: lists of 1..4 distinguishable wrappers (+ the override gate in the list); WrapHTTPHandler / WrapHTTPHandlerFunc and their four aliases at every subset of positions of chains n<=4; every row is non-trivial",
	Assume: []string{"'well-formed Basic credentials' = scheme Basic (any case), one space, valid base64, a colon in the decoded text", "when both override carriers disagree the statement does not say which wins; those rows are executed but not asserted"},
	Bounds: func(tier string) map[string]any {
		return map[string]any{"accounts": len(c20Accounts), "authorization_values": len(c20Auth), "wrapper_lists": "1..4", "chains": "n<=4, all subsets of wrapped positions"}
	},
	Gen:   c20Gen,
	Run:   c20Run,
	Batch: 1,
}

func init() {
	Registry["C20"] = func(args []string) int { return fw.Main(c20Spec, args) }
}

// c20Ctl is a controller (rux.ControllerFace) from a function.
type c20Ctl func(r *rux.Router)

func (c c20Ctl) AddRoutes(r *rux.Router) { c(r) }
