package checks

import (
	"bufio"
	"errors"
	"fmt"
	"io"
	"net"
	"net/http"
	"net/http/httptest"
	"strings"

	"github.com/gookit/rux"

	"verif/mc/fw"
)

// C08: exactly one header commit per request, status before body. Depth-bounded
// search over operation sequences issued by the handlers of one ServeHTTP call,
// against a recording ResponseWriter (also a Flusher) whose Write answers are
// environment choices (full / short / error); non-default answers are
// deviations, at most two per sequence.

type recW struct {
	h       http.Header
	log     []string // "WH:<code>:<X-A value>", "W:<accepted bytes>", "F"
	body    []byte
	answers map[int]byte // underlying write index -> 's' short, 'e' error
	nWrites int
}

func (w *recW) Header() http.Header { return w.h }
func (w *recW) WriteHeader(code int) {
	if code < 100 || code > 999 {
		// what net/http's writer (and httptest's recorder) do
		panic(fmt.Sprintf("invalid WriteHeader code %v", code))
	}
	w.log = append(w.log, fmt.Sprintf("WH:%d:%s", code, w.h.Get("X-A")))
}
func (w *recW) Write(b []byte) (int, error) {
	i := w.nWrites
	w.nWrites++
	n := len(b)
	var err error
	switch w.answers[i] {
	case 's':
		if n > 1 {
			n = 1
		}
		err = errors.New("short write")
	case 'e':
		n = 0
		err = errors.New("write error")
	}
	w.body = append(w.body, b[:n]...)
	w.log = append(w.log, fmt.Sprintf("W:%s", b[:n]))
	return n, err
}
func (w *recW) Flush() { w.log = append(w.log, "F") }

// recWRF is a recording writer that also implements io.ReaderFrom, like net/http's real response writer does
type recWRF struct{ *recW }

func (w recWRF) ReadFrom(src io.Reader) (int64, error) {
	b, err := io.ReadAll(src)
	n, werr := w.recW.Write(b)
	if err == nil {
		err = werr
	}
	return int64(n), err
}

// operations: one letter each
// 0..7 SetStatus(code) ; h SetHeader ; e Write("") ; w Write("ab") ; f Flush ; E http.Error(418) ; R Redirect(302) ; T Text(201,"hi") ; S Stream(203, reader without WriteTo)
var c08Status = map[byte]int{'0': -1, '1': 0, '2': 200, '3': 304, '4': 201, '5': 404, '6': 999, '7': 204, '8': 103, '9': 100}

const c08Ops = "0123456789hewfERTStWIHA"

// c08Core: one operation per kind of effect (invalid status, a status, header, empty write, write, flush, error helper,
// text helper, string write, stream)
const c08Core = "04hewfETWS"

func c08Apply(c *rux.Context, op byte) {
	switch op {
	case 'h':
		// the header is set by a rux.HandlerFunc mounted through the net/http adapter (it gets a context of its own
		// around this request's writer); it neither writes nor selects a status
		rux.WrapH(rux.HandlerFunc(func(ic *rux.Context) { ic.SetHeader("X-A", "1") }))(c)
	case 'e':
		_, _ = c.Resp.Write([]byte(""))
	case 'w':
		_, _ = c.Resp.Write([]byte("ab"))
	case 'f':
		c.Resp.(http.Flusher).Flush()
	case 'E':
		c.HTTPError("teapot", 418)
	case 'R':
		c.Redirect("/to", 302)
	case 'T':
		c.Text(201, "hi")
	case 't':
		c.Text(200, "ok")
	case 'W':
		c.WriteString("ab")
	case 'I':
		_, _ = io.WriteString(c.Resp, "ab")
	case 'A':
		// aborts the chain with a status and no message (the handlers that have not started yet never run)
		c.AbortWithStatus(403)
	case 'H':
		// a net/http handler wrapped into the chain answers with http.Error
		rux.WrapH(http.HandlerFunc(func(w http.ResponseWriter, _ *http.Request) { http.Error(w, "teapot", 418) }))(c)
	case 'S':
		c.Stream(203, "x/stream", struct{ io.Reader }{strings.NewReader("str")})
	default:
		c.SetStatus(c08Status[op])
	}
}

// the specification of C08
type c08Model struct {
	pending   int
	committed bool
	status    int
	xa        string // X-A header value at commit time
	xaCur     string
	body      string
	length    int
	log       []string
	nWrites   int
	answers   map[int]byte
	panicked  bool
	ctSet     bool // a Content-Type header is present (http.Redirect writes its body only when none is)
	head      bool // the request is a HEAD request (http.Redirect writes its body for GET only)
}

func (m *c08Model) commit() {
	if m.committed {
		return
	}
	m.committed = true
	m.status = m.pending
	if m.status == 0 {
		m.status = 200
	}
	m.xa = m.xaCur
	m.log = append(m.log, fmt.Sprintf("WH:%d:%s", m.status, m.xa))
}

func (m *c08Model) setStatus(c int) {
	if c > 0 && !m.committed {
		m.pending = c
	}
}

func (m *c08Model) write(b string) (failed bool) {
	m.commit()
	i := m.nWrites
	m.nWrites++
	n := len(b)
	switch m.answers[i] {
	case 's':
		if n > 1 {
			n = 1
		}
		failed = true
	case 'e':
		n = 0
		failed = true
	}
	m.body += b[:n]
	m.length += n
	m.log = append(m.log, "W:"+b[:n])
	return
}

func (m *c08Model) apply(op byte) {
	if m.panicked {
		return
	}
	switch op {
	case 'h':
		m.xaCur = "1"
	case 'e':
		m.write("")
	case 'w':
		m.write("ab")
	case 'f':
		m.commit()
		m.log = append(m.log, "F")
	case 'A':
		m.setStatus(403)
	case 'E', 'H':
		m.ctSet = true
		m.setStatus(418)
		m.write("teapot\n")
	case 'R':
		m.setStatus(302)
		if !m.ctSet {
			m.ctSet = true
			if !m.head {
				m.write("<a href=\"/to\">Found</a>.\n\n")
			}
		}
	case 'S':
		m.ctSet = true
		m.setStatus(203)
		m.write("str")
	case 'T':
		m.ctSet = true
		m.setStatus(201)
		// Text panics when the underlying write fails (documented: WriteBytes "will panic on error")
		if m.write("hi") {
			m.panicked = true
		}
	case 't':
		// a helper given status 200 - the writer's own default - still replaces a status selected earlier
		m.ctSet = true
		m.setStatus(200)
		if m.write("ok") {
			m.panicked = true
		}
	case 'W':
		if m.write("ab") {
			m.panicked = true
		}
	case 'I':
		m.write("ab")
	default:
		m.setStatus(c08Status[op])
	}
}

type c08Case struct {
	Prefix string `json:"prefix"` // first operations; the case enumerates all completions
	Depth  int    `json:"depth"`
	Dev    int    `json:"max_deviations"`
	Splits bool   `json:"all_splits"`
	Min    int    `json:"min_len"`
	// Builtin: instead of operation sequences, the requests the router answers itself (default / silent custom 404 and 405
	// responders, the body-less OPTIONS reply, a handler that does nothing) on every router configuration
	Builtin bool `json:"builtin_responders,omitempty"`
	// Alpha != "": the completions are drawn from this sub-alphabet instead of all operations
	Alpha string `json:"alphabet,omitempty"`
}

type c08Run_ struct {
	Ops     string       `json:"ops"`
	I, J    int          // ops[:I] middleware before Next, ops[I:J] main handler, ops[J:] middleware after Next
	Answers map[int]byte `json:"answers,omitempty"`
	Redisp  bool         `json:"redispatch,omitempty"`                                 // the main handler ends by re-dispatching the request with HandleContext
	K       int          `json:"k,omitempty"`                                          // K>0: ops[K:] run in the router's OnError hook (the main handler records an error)
	RF      bool         `json:"reader_from,omitempty"`                                // the underlying writer also implements io.ReaderFrom
	Nested  bool         `json:"nested_router,omitempty"`                              // the main handler hands the request to a second rux router, whose handler performs the main operations
	Hj      bool         `json:"after_hijacked_request,omitempty"`                     // the router served a request whose handler hijacked its connection right before
	WS      bool         `json:"websocket_upgrade_headers,omitempty"`                  // the request carries "Connection: upgrade" and "Upgrade: websocket" (no upgrade takes place)
	Pn      bool         `json:"panic_then_hook_writes,omitempty"`                     // the main handler panics at its end; the router's OnPanic hook writes "H"
	Head    bool         `json:"head_request_on_get_route,omitempty"`                  // the request is a HEAD request, served by the GET-only route
	Direct  bool         `json:"caller_owned_context_through_HandleContext,omitempty"` // the caller builds a Context itself (Init) and hands it to Router.HandleContext
}

// recWHJ is a recording writer that can be hijacked
type recWHJ struct{ *recW }

func (w recWHJ) Hijack() (net.Conn, *bufio.ReadWriter, error) {
	a, b := net.Pipe()
	_ = b.Close()
	return a, nil, nil
}

// one router per shard; the handlers read the run to perform from cur
type c08Harness struct {
	r              *rux.Router
	cur            *c08Run_
	length, status int
	sampled        bool
	req            *http.Request
}

func newC08Harness() *c08Harness {
	h := &c08Harness{r: rux.New(), req: httptest.NewRequest("GET", "/x", nil)}
	h.r.GET("/y", func(c *rux.Context) { _, _ = c.Resp.Write([]byte("cd")) })
	h.r.GET("/hj", func(c *rux.Context) {
		if conn, _, err := c.Resp.(http.Hijacker).Hijack(); err == nil && conn != nil {
			_ = conn.Close()
		}
	})
	h.r.Use(func(c *rux.Context) {
		if c.Req.URL.Path != "/x" {
			return
		}
		run := h.cur
		for k := 0; k < run.I; k++ {
			c08Apply(c, run.Ops[k])
		}
		c.Next()
		end := len(run.Ops)
		if run.K > 0 {
			end = run.K
		}
		for k := run.J; k < end; k++ {
			c08Apply(c, run.Ops[k])
		}
		h.length, h.status, h.sampled = c.Length(), c.StatusCode(), true
	})
	h.r.OnError = func(c *rux.Context) {
		run := h.cur
		if run.K > 0 {
			for k := run.K; k < len(run.Ops); k++ {
				c08Apply(c, run.Ops[k])
			}
		}
	}
	inner := rux.New()
	inner.GET("/x", func(c *rux.Context) {
		run := h.cur
		for k := run.I; k < run.J; k++ {
			c08Apply(c, run.Ops[k])
		}
	})
	h.r.GET("/x", func(c *rux.Context) {
		run := h.cur
		if run.Nested {
			// a router mounted inside a handler: it receives the outer request's writer
			inner.ServeHTTP(c.Resp, c.Req)
			return
		}
		for k := run.I; k < run.J; k++ {
			c08Apply(c, run.Ops[k])
		}
		if run.Redisp {
			c.Req.URL.Path = "/y"
			c.Router().HandleContext(c)
		}
		if run.K > 0 {
			c.AddError(errors.New("recorded"))
		}
		if run.Pn {
			panic("boom")
		}
	})
	return h
}

func (h *c08Harness) exec(run *c08Run_) (w *recW, length, status int, sampled bool, pv any) {
	w = &recW{h: http.Header{}, answers: run.Answers}
	h.cur, h.sampled = run, false
	h.req.URL.Path = "/x"
	var under http.ResponseWriter = w
	if run.RF {
		under = struct {
			http.ResponseWriter
			http.Flusher
			io.ReaderFrom
		}{w, w, recWRF{w}}
	}
	if run.Hj {
		_ = try(func() { h.r.ServeHTTP(recWHJ{&recW{h: http.Header{}}}, httptest.NewRequest("GET", "/hj", nil)) })
	}
	h.req.Header = http.Header{}
	h.req.Method = "GET"
	if run.Head {
		h.req.Method = "HEAD"
	}
	if run.WS {
		h.req.Header.Set("Connection", "keep-alive, Upgrade")
		h.req.Header.Set("Upgrade", "websocket")
	}
	h.r.OnPanic = nil
	if run.Pn {
		h.r.OnPanic = func(c *rux.Context) { _, _ = c.Resp.Write([]byte("H")) }
	}
	if run.Direct {
		pv = try(func() {
			ctx := &rux.Context{}
			ctx.Init(under, h.req)
			h.r.HandleContext(ctx)
		})
		return w, h.length, h.status, h.sampled, pv
	}
	pv = try(func() { h.r.ServeHTTP(under, h.req) })
	return w, h.length, h.status, h.sampled, pv
}

func c08Check(h *c08Harness, run c08Run_, st *fw.Stats) *fw.Viol {
	st.Evals++
	m := &c08Model{answers: run.Answers, head: run.Head}
	// an abort in the middleware's part before Next means the main handler never starts (nor what it would trigger)
	mainRuns := !strings.Contains(run.Ops[:run.I], "A")
	for k := 0; k < len(run.Ops); k++ {
		if !mainRuns && k >= run.I && (k < run.J || (run.K > 0 && k >= run.K)) {
			continue
		}
		m.apply(run.Ops[k])
	}
	if !mainRuns {
		run.Redisp, run.Pn = false, false
	}
	if run.Redisp {
		// the re-dispatched chain belongs to the same request: its write goes through the same single commit
		m.write("cd")
	}
	if run.Pn {
		// the panic (the handler's own, or that of a helper whose write failed) ends the chain; the hook writes "H"
		m.write("H")
	}
	wasCommitted := m.committed
	lenBeforeEnd := m.length
	if !m.panicked || run.Pn {
		m.commit() // the chain end (or the recovery after the hook) commits the header
	}
	w, length, status, sampled, pv := h.exec(&run)
	desc := func() string {
		return fmt.Sprintf("ops %q (middleware before Next: %q, main handler: %q, middleware after Next: %q), write answers %v [0-9=SetStatus(-1,0,200,304,201,404,999,204,103,100) h=SetHeader (by a rux.HandlerFunc mounted with WrapH) e=Write(\"\") w=Write(\"ab\") f=Flush E=http.Error(418) R=Redirect(302) T=Text(201) t=Text(200) W=c.WriteString I=io.WriteString(c.Resp) S=Stream(203) H=wrapped net/http handler calling http.Error(418) A=AbortWithStatus(403)]%s%s",
			run.Ops, run.Ops[:run.I], run.Ops[run.I:run.J]+map[bool]string{true: " then HandleContext to a route writing \"cd\"", false: ""}[run.Redisp], c08Tail(run), fmtAnswers(run.Answers), map[bool]string{true: "; the main handler then panics and the router's OnPanic hook writes \"H\"", false: ""}[run.Pn], map[bool]string{true: "; HEAD request", false: ""}[run.Head]+map[bool]string{true: "; dispatched with HandleContext on a caller-owned context", false: ""}[run.Direct])
	}
	if pv != nil && (!m.panicked || run.Pn) {
		return &fw.Viol{Sig: "writer:panic", Msg: fmt.Sprintf("%s: ServeHTTP panicked: %v", desc(), pv)}
	}
	got := strings.Join(w.log, " ")
	want := strings.Join(m.log, " ")
	if run.Nested {
		// the inner router's end-of-chain commit may legitimately select a status on the outer writer, so only the
		// shape of the log is compared: exactly one WriteHeader, before any body byte or flush, same body
		nWH, first := 0, -1
		for i, e := range w.log {
			if strings.HasPrefix(e, "WH:") {
				nWH++
				if first < 0 {
					first = i
				}
			}
		}
		if nWH != 1 || first != 0 {
			sig := "writer:header-committed-twice"
			if nWH == 0 {
				sig = "writer:no-header-commit"
			} else if nWH == 1 {
				sig = "writer:body-before-header"
			}
			return &fw.Viol{Sig: sig, Msg: fmt.Sprintf("%s (main operations performed by a router mounted inside the main handler): underlying writer saw [%s]", desc(), got)}
		}
		if string(w.body) != m.body {
			return &fw.Viol{Sig: "writer:body", Msg: fmt.Sprintf("%s (nested router): body %q, expected %q", desc(), w.body, m.body)}
		}
		return nil
	}
	if got != want {
		sig := "writer:log"
		nWH := 0
		firstWH := -1
		for i, e := range w.log {
			if strings.HasPrefix(e, "WH:") {
				nWH++
				if firstWH < 0 {
					firstWH = i
				}
			}
		}
		switch {
		case nWH == 0:
			sig = "writer:no-header-commit"
		case nWH > 1:
			sig = "writer:header-committed-twice"
		case firstWH > 0 && w.log[0] == "F":
			sig = "writer:flush-before-header"
		case firstWH > 0:
			sig = "writer:body-before-header"
		case strings.SplitN(w.log[firstWH], ":", 3)[1] != fmt.Sprint(m.status):
			sig = "writer:wrong-status"
		}
		return &fw.Viol{Sig: sig, Msg: fmt.Sprintf("%s: underlying writer saw [%s], specification [%s]", desc(), got, want)}
	}
	if string(w.body) != m.body {
		return &fw.Viol{Sig: "writer:body", Msg: fmt.Sprintf("%s: body %q, expected %q", desc(), w.body, m.body)}
	}
	if sampled && wasCommitted && !m.panicked && run.K == 0 {
		if length != lenBeforeEnd {
			return &fw.Viol{Sig: "writer:length", Msg: fmt.Sprintf("%s: Length() = %d after the chain, %d bytes were accepted", desc(), length, lenBeforeEnd)}
		}
		_ = status
	}
	return nil
}

func c08Tail(run c08Run_) string {
	t := ""
	if run.K > 0 {
		t = run.Ops[run.J:run.K] + " | OnError hook: " + run.Ops[run.K:]
	} else {
		t = run.Ops[run.J:]
	}
	if run.RF {
		t += " | underlying writer implements io.ReaderFrom"
	}
	return t
}

func fmtAnswers(a map[int]byte) string {
	if len(a) == 0 {
		return "all full"
	}
	var p []string
	for i := 0; i < 16; i++ {
		if k, ok := a[i]; ok {
			p = append(p, fmt.Sprintf("write#%d=%s", i, map[byte]string{'s': "short", 'e': "error"}[k]))
		}
	}
	return strings.Join(p, ",")
}

// c08Builtin: requests whose response is produced by the router itself. Whatever the configuration, the underlying
// writer must see exactly one WriteHeader, first, with the documented status.
func c08Builtin(st *fw.Stats) []fw.Viol {
	var vs []fw.Viol
	seen := map[string]bool{}
	type rq struct {
		m, p string
	}
	reqs := []rq{{"GET", "/x"}, {"HEAD", "/x"}, {"OPTIONS", "/x"}, {"DELETE", "/x"}, {"GET", "/none"}, {"OPTIONS", "/none"}, {"POST", "/d/1"}, {"OPTIONS", "/d/1"}, {"GET", "/d/1"}}
	// bits: 1 HandleMethodNotAllowed, 2 HandleFallbackRoute, 4 one global middleware, 8 OnError hook, 16 OnPanic hook,
	// 32 silent custom NotFound, 64 silent custom NotAllowed, 128 caching, 256 the global middleware sets status 202 first
	for mask := 0; mask < 512; mask++ {
		if mask&256 != 0 && mask&4 == 0 {
			continue
		}
		var opts []func(*rux.Router)
		if mask&1 != 0 {
			opts = append(opts, rux.HandleMethodNotAllowed)
		}
		if mask&2 != 0 {
			opts = append(opts, rux.HandleFallbackRoute)
		}
		if mask&128 != 0 {
			opts = append(opts, rux.CachingWithNum(2))
		}
		r := rux.New(opts...)
		if mask&4 != 0 {
			set := mask&256 != 0
			r.Use(func(c *rux.Context) {
				if set {
					c.SetStatus(202)
				}
				c.Next()
			})
		}
		if mask&8 != 0 {
			r.OnError = func(c *rux.Context) {}
		}
		if mask&16 != 0 {
			r.OnPanic = func(c *rux.Context) {}
		}
		if mask&32 != 0 {
			r.NotFound(func(c *rux.Context) {})
		}
		if mask&64 != 0 {
			r.NotAllowed(func(c *rux.Context) {})
		}
		r.GET("/x", func(c *rux.Context) {})
		r.GET("/d/{id}", func(c *rux.Context) {})
		for rep := 0; rep < 2; rep++ {
			for _, q := range reqs {
				st.Evals++
				st.Nontrivial++
				w := &recW{h: http.Header{}}
				pv := try(func() { r.ServeHTTP(w, httptest.NewRequest(q.m, q.p, nil)) })
				desc := fmt.Sprintf("router{HandleMethodNotAllowed=%v HandleFallbackRoute=%v caching=%v global middleware=%v(sets 202 first=%v) OnError=%v OnPanic=%v silent custom NotFound=%v silent custom NotAllowed=%v} with GET /x and GET /d/{id} handled by empty handlers: %s %s (request #%d)",
					mask&1 != 0, mask&2 != 0, mask&128 != 0, mask&4 != 0, mask&256 != 0, mask&8 != 0, mask&16 != 0, mask&32 != 0, mask&64 != 0, q.m, q.p, rep+1)
				var v *fw.Viol
				nWH := 0
				for _, e := range w.log {
					if strings.HasPrefix(e, "WH:") {
						nWH++
					}
				}
				// the documented status of the router's own answer (0 = a silent custom handler decides: only the commit is checked)
				want := 0
				isX := q.p == "/x" || q.p == "/d/1"
				switch {
				case isX && (q.m == "GET" || q.m == "HEAD"):
					want = 200
				case isX && mask&1 != 0:
					if mask&64 == 0 {
						want = 405
						if q.m == "OPTIONS" {
							want = 200
						}
					}
				default:
					if mask&32 == 0 {
						want = 404
					}
				}
				if want == 200 && mask&256 != 0 && !(isX && mask&1 != 0 && q.m == "OPTIONS") {
					want = 202 // the middleware's status stands when nothing later sets one
				}
				if want == 0 && mask&256 != 0 {
					want = 202
				} else if want == 0 {
					want = 200
				}
				switch {
				case pv != nil:
					v = &fw.Viol{Sig: "builtin:panic", Msg: fmt.Sprintf("%s: ServeHTTP panicked: %v", desc, pv)}
				case nWH == 0:
					v = &fw.Viol{Sig: "writer:no-header-commit", Msg: fmt.Sprintf("%s: the underlying writer never received WriteHeader; it saw [%s]", desc, strings.Join(w.log, " "))}
				case nWH > 1:
					v = &fw.Viol{Sig: "writer:header-committed-twice", Msg: fmt.Sprintf("%s: the underlying writer saw [%s]", desc, strings.Join(w.log, " "))}
				case !strings.HasPrefix(w.log[0], "WH:"):
					v = &fw.Viol{Sig: "writer:body-before-header", Msg: fmt.Sprintf("%s: the underlying writer saw [%s]", desc, strings.Join(w.log, " "))}
				case !strings.HasPrefix(w.log[0], fmt.Sprintf("WH:%d:", want)):
					v = &fw.Viol{Sig: "writer:wrong-status", Msg: fmt.Sprintf("%s: the underlying writer saw [%s], expected status %d", desc, strings.Join(w.log, " "), want)}
				}
				if v != nil && !seen[v.Sig] && len(vs) < 6 {
					seen[v.Sig] = true
					vs = append(vs, *v)
				}
			}
		}
	}
	return vs
}

func c08RunCase(c c08Case, st *fw.Stats) []fw.Viol {
	if c.Builtin {
		return c08Builtin(st)
	}
	var vs []fw.Viol
	seen := map[string]bool{}
	hz := newC08Harness()
	try1 := func(run c08Run_) {
		if v := c08Check(hz, run, st); v != nil && !seen[v.Sig] && len(vs) < 6 {
			seen[v.Sig] = true
			vs = append(vs, *v)
		}
	}
	var rec func(ops string)
	rec = func(ops string) {
		if len(ops) >= len(c.Prefix) && len(ops) >= c.Min {
			d := len(ops)
			// splits
			var splits [][2]int
			if c.Splits {
				for i := 0; i <= d; i++ {
					for j := i; j <= d; j++ {
						splits = append(splits, [2]int{i, j})
					}
				}
			} else {
				splits = [][2]int{{0, d}, {d / 2, d}, {0, d / 2}, {d, d}}
			}
			// number of underlying writes of this sequence (from the model, default answers)
			m := &c08Model{}
			for k := 0; k < d; k++ {
				m.apply(ops[k])
			}
			nw := m.nWrites
			if strings.ContainsAny(ops, "ewfERTtWI") {
				st.Nontrivial++
			}
			for _, sp := range splits {
				try1(c08Run_{Ops: ops, I: sp[0], J: sp[1]})
			}
			// ... and with the main handler re-dispatching at its end (no operations after Next)
			try1(c08Run_{Ops: ops, I: 0, J: d, Redisp: true})
			try1(c08Run_{Ops: ops, I: d / 2, J: d, Redisp: true})
			// ... right after the router served a request whose handler hijacked its connection
			try1(c08Run_{Ops: ops, I: 0, J: d, Hj: true})
			// ... for a request that carries websocket-upgrade headers (which nobody acts upon)
			try1(c08Run_{Ops: ops, I: 0, J: d, WS: true})
			try1(c08Run_{Ops: ops, I: d / 2, J: d, WS: true})
			// ... dispatched by Router.HandleContext on a context the caller built itself
			try1(c08Run_{Ops: ops, I: 0, J: d, Direct: true})
			try1(c08Run_{Ops: ops, I: d / 2, J: d, Direct: true})
			// ... as a HEAD request (the route is registered for GET only)
			try1(c08Run_{Ops: ops, I: 0, J: d, Head: true})
			try1(c08Run_{Ops: ops, I: d / 2, J: d, Head: true})
			// ... with the main handler panicking at its end and the router's OnPanic hook writing a byte
			try1(c08Run_{Ops: ops, I: 0, J: d, Pn: true})
			try1(c08Run_{Ops: ops, I: d / 2, J: d, Pn: true})
			// ... with the main handler's operations performed by a second router mounted inside it
			try1(c08Run_{Ops: ops, I: 0, J: d, Nested: true})
			try1(c08Run_{Ops: ops, I: d / 2, J: d, Nested: true})
			// ... with the tail of the sequence performed by the OnError hook (the main handler records an error)
			if d >= 1 {
				try1(c08Run_{Ops: ops, I: 0, J: d - 1, K: d - 1})
				if d >= 2 && d/2 != d-1 {
					try1(c08Run_{Ops: ops, I: 0, J: d / 2, K: d / 2})
				}
			}
			// ... and on an underlying writer that implements io.ReaderFrom (like net/http's) when something is streamed
			if strings.IndexByte(ops, 'S') >= 0 {
				try1(c08Run_{Ops: ops, I: 0, J: d, RF: true})
				try1(c08Run_{Ops: ops, I: d / 2, J: d, RF: true})
			}
			if c.Dev >= 1 {
				for _, ka := range []byte{'s', 'e'} {
					// (the hook's own write fails)
					try1(c08Run_{Ops: ops, I: 0, J: d, Answers: map[int]byte{nw: ka}, Pn: true})
				}
				for a := 0; a < nw; a++ {
					for _, ka := range []byte{'s', 'e'} {
						try1(c08Run_{Ops: ops, I: 0, J: d, Answers: map[int]byte{a: ka}})
						try1(c08Run_{Ops: ops, I: d / 2, J: d, Answers: map[int]byte{a: ka}})
						try1(c08Run_{Ops: ops, I: 0, J: d, Answers: map[int]byte{a: ka}, Pn: true})
						if c.Dev >= 2 {
							for b := a + 1; b < nw; b++ {
								for _, kb := range []byte{'s', 'e'} {
									try1(c08Run_{Ops: ops, I: 0, J: d, Answers: map[int]byte{a: ka, b: kb}})
								}
							}
						}
					}
				}
			}
		}
		if len(ops) == c.Depth {
			return
		}
		alpha := c08Ops
		if c.Alpha != "" {
			alpha = c.Alpha
		}
		for i := 0; i < len(alpha); i++ {
			rec(ops + string(alpha[i]))
		}
	}
	rec(c.Prefix)
	st.Max("max_depth", int64(c.Depth))
	if st.WantSample() {
		st.Sample(map[string]any{"prefix": c.Prefix, "depth": c.Depth, "alphabet": c08Ops, "deviations": c.Dev})
	}
	return vs
}

func c08Gen(tier string, emit func(c08Case)) {
	emit(c08Case{Builtin: true})
	// the empty and one-operation sequences
	emit(c08Case{Prefix: "", Depth: 1, Dev: 2, Splits: true})
	// quick: every split up to length 3, representative splits at length 4 (<=2 faults);
	// thorough: every split up to length 4, representative splits at 5 (<=2 faults), length 6 with <=1 fault
	allSplits, repDepth, devDepth := 3, 4, 0
	if tier == "thorough" {
		allSplits, repDepth, devDepth = 4, 5, 6
	}
	n := len(c08Ops)
	for i := 0; i < n; i++ {
		for j := 0; j < n; j++ {
			p := string(c08Ops[i]) + string(c08Ops[j])
			emit(c08Case{Prefix: p, Depth: allSplits, Dev: 2, Splits: true})
		}
	}
	for i := 0; i < n; i++ {
		for j := 0; j < n; j++ {
			for k := 0; k < n; k++ {
				p := string(c08Ops[i]) + string(c08Ops[j]) + string(c08Ops[k])
				emit(c08Case{Prefix: p, Depth: repDepth, Dev: 2, Splits: false, Min: repDepth})
			}
		}
	}
	if devDepth > 0 {
		// length 6 over the ten operations that drive the state machine (one per kind of effect)
		m := len(c08Core)
		for i := 0; i < m; i++ {
			for j := 0; j < m; j++ {
				for k := 0; k < m; k++ {
					p := string(c08Core[i]) + string(c08Core[j]) + string(c08Core[k])
					emit(c08Case{Prefix: p, Depth: devDepth, Dev: 1, Splits: false, Min: devDepth, Alpha: c08Core})
				}
			}
		}
	}
}

var c08Spec = fw.Spec[c08Case]{
	ID:    "C08",
	Level: "model_checking",
	Rule: "depth-bounded exhaustive search: ALL operation sequences of length <=4 (thorough 6) over 23 operations {SetStatus(-1,0,200,304,201,404,999,204,103,100), SetHeader (from a rux.HandlerFunc mounted through the net/http adapter), Write(\"\"), Write(\"ab\"), Flush, http.Error(418), Redirect(302), Text(201), Text(200), Context.WriteString, io.WriteString(c.Resp), Stream(203), http.Error(418) from a net/http handler wrapped with WrapH, AbortWithStatus(403) without message} x every split of the sequence over middleware-before-Next / main handler / middleware-after-Next (also dispatched by HandleContext on a context the caller built itself, as a HEAD request served by the GET route, with the tail run by the OnError hook, with the main handler panicking at its end and an OnPanic hook writing a byte, with a HandleContext re-dispatch, right after a request that hijacked its connection, for a request carrying websocket-upgrade headers, and on an underlying writer implementing io.ReaderFrom) x every assignment of <=2 non-default answers (short write, error) to the underlying writes (every split up to length 3 (4), 4 representative splits plus OnError / re-dispatch / ReaderFrom variants at length 4 (5), <=1 fault at length 6 over the ten-operation core alphabet {SetStatus(-1), SetStatus(201), SetHeader, Write(\"\"), Write, Flush, http.Error, Text(201), WriteString, Stream} in the thorough tier); " +
		"plus the requests the router answers by itself (default and silent custom 404 / 405 responders, the body-less OPTIONS reply, do-nothing handlers) on all 384 combinations of 9 router settings; " +
		"oracle = 20-line writer specification compared with the complete event log of a recording ResponseWriter+Flusher; non-trivial = sequence containing a write, flush or helper",
	Assume: []string{"Text (WriteBytes) is documented to panic when the underlying write fails; after such a panic only the log so far is compared", "Length() is compared once a header was committed"},
	Bounds: func(tier string) map[string]any {
		if tier == "quick" {
			return map[string]any{"ops": len(c08Ops), "depth_all_splits_2_faults": 3, "depth_representative_splits_2_faults": 4}
		}
		return map[string]any{"ops": len(c08Ops), "depth_all_splits_2_faults": 4, "depth_representative_splits_2_faults": 5, "depth_1_fault_core_alphabet_of_10": 6}
	},
	Gen:   c08Gen,
	Run:   c08RunCase,
	Batch: 2,
}

func init() {
	Registry["C08"] = func(args []string) int { return fw.Main(c08Spec, args) }
}
