package refmodel

import (
	"fmt"
	"testing"
)

func TestNorm(t *testing.T) {
	cases := [][2]string{{"", "/"}, {"/", "/"}, {"a", "/a"}, {"//a", "/a"}, {"/a/", "/a"}, {" /a// ", "/a"}, {"  ", "/"}, {"/a/b", "/a/b"}}
	for _, c := range cases {
		if g := Norm(c[0], false); g != c[1] {
			t.Errorf("Norm(%q)=%q want %q", c[0], g, c[1])
		}
	}
	if Norm("/a/", true) != "/a/" || Norm("a", true) != "/a" || Norm("//", true) != "/" {
		t.Error("strict")
	}
}

func TestPattern(t *testing.T) {
	type tc struct {
		pat, path string
		n         int
		want      string
	}
	cases := []tc{
		{"/users/{id}", "/users/12", 1, "map[id:12]"},
		{"/users/{id}", "/users/12/x", 0, ""},
		{"/users/{id}", "/users/", 0, ""},
		{`/users/{id:\d+}`, "/users/12", 1, "map[id:12]"},
		{`/users/{id:\d+}`, "/users/ab", 0, ""},
		{"/blog[/{id}]", "/blog", 1, "map[id:]"},
		{"/blog[/{id}]", "/blog/4", 1, "map[id:4]"},
		{"/a[/{x}[/{y}]]", "/a/1/2", 1, "map[x:1 y:2]"},
		{"/a[/{x}[/{y}]]", "/a/1", 1, "map[x:1 y:]"},
		{"/a[/{x}[/{y}]]", "/a", 1, "map[x: y:]"},
		{"/about[.html]", "/about.html", 1, "map[]"},
		{"/about[.html]", "/aboutxhtml", 0, ""},
		{"/about[.html]", "/about", 1, "map[]"},
		{"/a.b/{x}", "/a.b/1", 1, "map[x:1]"},
		{"/a.b/{x}", "/axb/1", 0, ""},
		{"/f/{file:.+}", "/f/a/b.css", 1, "map[file:a/b.css]"},
		{"/{all}", "/", 1, "map[all:]"},
		{"/{all}", "/a/b", 1, "map[all:a/b]"},
		{"/p/{num}", "/p/10", 1, "map[num:10]"},
		{"/p/{num}", "/p/01", 0, ""},
		{"/a/{x}.html", "/a/q.html", 1, "map[x:q]"},
		{"/a/q{x}", "/a/q.html", 1, "map[x:.html]"},
		{"/[{x}]", "/", 1, "map[x:]"},
		{"/[{x}]", "/a", 1, "map[x:a]"},
		{`/n/{c}/{i:\d+}/d`, "/n/ab/20/d", 1, "map[c:ab i:20]"},
		{`/x/{id:[0-9]{2}}`, "/x/12", 1, "map[id:12]"},
	}
	for _, c := range cases {
		p, err := ParsePattern(c.pat)
		if err != nil {
			t.Errorf("%s: %v", c.pat, err)
			continue
		}
		ms := p.MatchAll(c.path, 0)
		if len(ms) != c.n {
			t.Errorf("%s ~ %s: %d decompositions %v, want %d", c.pat, c.path, len(ms), ms, c.n)
			continue
		}
		if c.n == 1 && fmt.Sprint(ms[0]) != c.want {
			t.Errorf("%s ~ %s: %v want %s", c.pat, c.path, ms[0], c.want)
		}
	}
	for _, bad := range []string{"/a[/b]/c", "/a[", "/a[/b]]", "/{x", "/a[[/b]/c]"} {
		if _, err := ParsePattern(bad); err == nil {
			t.Errorf("%s should not parse", bad)
		}
	}
	first := map[string]string{"/a/{x}": "a", "/a[/{x}]": "", "/{x}/b": "", "/a/b[.html]": "a", "/a/q{x}": "a", "/a.b/{x}": "a.b", "/a": "", "/[{x}]": ""}
	for pat, f := range first {
		p, _ := ParsePattern(pat)
		if p.FirstSeg != f {
			t.Errorf("%s first=%q want %q", pat, p.FirstSeg, f)
		}
	}
}

func TestResolve(t *testing.T) {
	tb, _ := NewTable([]RouteDef{{"/{x}", []string{"GET"}}, {"/a/{x}", []string{"GET", "POST"}}, {"/a/b", []string{"PUT"}}, {"/*", Methods}}, Opts{NotAllowed: true})
	chk := func(m, p, kind string, r int) {
		res := tb.Resolve(m, p)
		if res.Kind != kind || res.Route != r {
			t.Errorf("%s %s: %+v want %s %d", m, p, res, kind, r)
		}
	}
	chk("GET", "/a/b", "route", 1)
	chk("PUT", "/a/b", "route", 2)
	chk("HEAD", "/a/b", "head-get", 1)
	chk("DELETE", "/a/b", "405", -1)
	chk("GET", "/q", "route", 0)
	chk("POST", "/q", "405", -1)
	chk("POST", "/q/r/s", "404", -1)
	tb.Opts.Fallback = true
	chk("POST", "/q/r/s", "fallback", 3)
	chk("DELETE", "/a/b", "fallback", 3)
}
