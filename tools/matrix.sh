#!/bin/bash
# tools/matrix.sh [tier] — runs every seeded change (seeded/*/patch.diff) and every reverse-fix / hand-made mutant (mutants/*.diff)
# against the checks listed for it in tools/matrix_targets.txt, in scratch worktrees, and writes seeded/RESULTS.md.
set -u
HERE="$(cd "$(dirname "${BASH_SOURCE[0]}")/.." && pwd)"
TIER="${1:-quick}"
OUT="$HERE/seeded/RESULTS.md"
TMP="$(mktemp -d /tmp/rux-matrix.XXXXXX)"
trap 'rm -rf "$TMP"' EXIT
N=0
while read -r patch checks; do
  [ -z "$patch" ] && continue
  case "$patch" in \#*) continue;; esac
  N=$((N+1))
  ( "$HERE/tools/mutant.sh" "$HERE/$patch" "$TIER" $checks > "$TMP/$N.out" 2>&1; echo "$patch" > "$TMP/$N.name" ) &
  if [ $((N % 4)) = 0 ]; then wait; fi
done < "$HERE/tools/matrix_targets.txt"
wait
{
  echo "# Detection matrix ($TIER tier, $(git -C /repo log --format=%h -1) of /repo, $(date -u +%F))"
  echo
  echo "Each change is applied to a scratch worktree of /repo (never to /repo), the listed checks are run against it (VERIF_REPO=worktree) and must exit 1 with a VIOLATION line."
  echo
  echo "| change | check | result | first violation |"
  echo "|---|---|---|---|"
  for i in $(seq 1 $N); do
    name="$(cat "$TMP/$i.name")"
    grep -E "^MUTANT .*(CAUGHT|MISSED|does not apply)" "$TMP/$i.out" | while read -r line; do
      chk="$(sed -E 's/^MUTANT [^:]*: (C[0-9]+) .*/\1/' <<<"$line")"
      res="$(grep -oE "CAUGHT|MISSED[^:]*|does not apply" <<<"$line" | head -1)"
      det="$(sed -E 's/.*(CAUGHT|MISSED[^:]*): *//' <<<"$line" | cut -c1-160 | tr '|' '/')"
      echo "| $name | $chk | $res | $det |"
    done
  done
} > "$OUT"
grep -c CAUGHT "$OUT"; grep -E "MISSED|does not apply" "$OUT" | head -20
