package checks

import (
	"fmt"
	"net/http"
	"net/http/httptest"
	"net/url"
	"os"
	"path/filepath"
	"strings"
	"sync"

	"github.com/gookit/rux"

	"verif/mc/fw"
	"verif/mc/refmodel"
)

// C17: static file handlers never serve anything outside their root.

const c17Marker = "OUTSIDE-MARKER-7f3a9c"

var c17Tokens = []string{"..", ".", "", "sub", "a.txt", "b.css", "SECRET.txt", "rootx", "%2e%2e", "..%2f", "%2f", `\`, `%5c..`, "%00", "a.txt.", ".../", "s.css", "..%5c", "c.js", "e.scss", "m.mjs", "acss", "x.css.bak", "dir.js", "inner.md",
	// path-segment parameters (RFC 3986 ';') and their encoding
	"a.txt;.css", "d.md;x.js", "a.txt%3B.css", ";",
	// names one byte longer than a servable one (with the empty token they form "name//")
	"s.cssx", "c.jsx", "s.css.", "s.css~",
	// extensions that equal an allowed one only under Unicode case folding, and an upper-case one
	"k.j\u017f", "s.c\u017fs", "UP.CSS"}

type c17Case struct {
	Handler string `json:"handler"` // StaticDir StaticFS StaticFiles StaticFile
	Prefix  string `json:"prefix"`
	Encoded bool   `json:"use_encoded_path"`
	Global  bool   `json:"global_var_named_file,omitempty"` // rux.SetGlobalVar("file", ".+") is in effect (process-global)
	Cache   int    `json:"route_cache,omitempty"`           // >0: caching with that capacity and a second mount of ANOTHER root; requests alternate between the mounts
	First   int    `json:"first_token"`
	Depth   int    `json:"max_tokens"`
	// Rel != "": the root is given as a RELATIVE path (spelled Rel) and the working directory / the other mounts are
	// arranged as Scenario says; everything that is not under <cwd>/pub at the time of the probes carries the marker
	Rel      string `json:"relative_root,omitempty"`
	Scenario string `json:"scenario,omitempty"` // two-mounts | chdir-between-routers | chdir-same-router
	// Nested > 0: the mount under test and a second mount of the sibling directory are registered inside two nested
	// groups with Nested (outer) + 1 (inner) pass-through middleware; requests alternate between the two mounts
	Nested int `json:"nested_groups_outer_middleware,omitempty"`
	// SamePrefix: a second StaticFiles mount on the SAME prefix serves another root (<sandbox>/rootb) with another
	// extension list (txt|md), registered before (1) or after (2) the mount under test (css|js)
	SamePrefix int `json:"second_mount_on_the_same_prefix,omitempty"`
	// DottedRoot: the served directory is <sandbox>/dotted/root.v2 (a dot in the root's own name); its parent holds marked files
	DottedRoot bool `json:"root_directory_name_contains_a_dot,omitempty"`
	// Alias != "": a route /al/{<Alias>} rewrites the request path to <prefix>/<value>.css and hands the context back to
	// the router (HandleContext); the mount answers the REWRITTEN path, and only files with an allowed extension
	Alias string `json:"alias_route_variable,omitempty"`
}

// a directory name long enough for method + path to pass 256 bytes
var c17LongDir = strings.Repeat("d", 250)

var (
	c17Once   sync.Once
	c17Base   string
	c17Inside = map[string]bool{}
)

func c17Setup() {
	c17Once.Do(func() {
		dir := os.Getenv("VERIF_OUT")
		if dir == "" {
			dir = os.Getenv("VERIF_DIR")
		}
		if dir == "" {
			dir = os.TempDir()
		}
		base, err := os.MkdirTemp(filepath.Join(dir, ".build"), "c17-")
		if err != nil {
			_ = os.MkdirAll(filepath.Join(dir, ".build"), 0o755)
			base, err = os.MkdirTemp(filepath.Join(dir, ".build"), "c17-")
			if err != nil {
				panic(err)
			}
		}
		c17Base = base
		w := func(rel, content string) {
			p := filepath.Join(base, rel)
			_ = os.MkdirAll(filepath.Dir(p), 0o755)
			if err := os.WriteFile(p, []byte(content), 0o644); err != nil {
				panic(err)
			}
		}
		for _, f := range []string{"root/" + c17LongDir + "/app.js", "root/" + c17LongDir + "/app.json", "root/" + c17LongDir + "/app.js.map", "root/a.txt", "root/a.txt.css", "root/s.css.css", "root/sub/b.css", "root/sub/c.js", "root/sub/d.md", "root/s.css", "root/e.scss", "root/sub/m.mjs", "root/acss", "root/x.css.bak", "root/dir.js/inner.md", "root/dir.js/index.html",
			// names whose extension equals an allowed one only under Unicode case folding (long s, Kelvin sign), and in upper case
			"root/k.j\u017f", "root/s.c\u017fs", "root/UP.CSS", "root/m.J\u212a"} {
			c := "INSIDE:" + f
			w(f, c)
			c17Inside[c] = true
		}
		// relative roots: two sites with the same layout (site1 is "outside" while the process works in site2) and a
		// sibling "pub" directory one level up
		for _, f := range []string{"rel/site2/pub/a.css", "rel/site2/pub/sub/b.js", "rel/site2/pub/n.txt"} {
			c := "INSIDE:" + f
			w(f, c)
			c17Inside[c] = true
		}
		for _, f := range []string{"rel/site1/pub/a.css", "rel/site1/pub/secret.css", "rel/site1/pub/sub/b.js", "rel/pub/a.css", "rel/pub/secret.css", "rel/site2/secret.css", "rel/site2/.pub/a.css", "rel/site2/.pub/secret.css"} {
			w(f, c17Marker+":"+f)
		}
		// process history: before any case runs, static mounts with relative roots were registered (and used) while the
		// process worked in site1 - whatever the library remembers process-wide from then must not matter later
		if old, err := os.Getwd(); err == nil {
			if os.Chdir(filepath.Join(base, "rel", "site1")) == nil {
				r := rux.New()
				r.StaticDir("/warm", "pub")
				r.StaticFiles("/warm2", "pub", "css|js")
				r.StaticFile("/warm3", "pub/a.css")
				r.StaticFS("/warm4", http.Dir("pub"))
				for _, p := range []string{"/warm/a.css", "/warm2/a.css", "/warm3", "/warm4/a.css"} {
					_ = try(func() {
						r.ServeHTTP(httptest.NewRecorder(), &http.Request{Method: "GET", URL: &url.URL{Path: p}, Header: http.Header{}, Host: "x"})
					})
				}
				_ = os.Chdir(old)
			}
		}
		for _, f := range []string{"rootb/a.txt", "rootb/s.css", "rootb/sub/d.md", "rootb/sub/c.js", "rootb/n.txt"} {
			w(f, "INSIDE-B:"+f)
		}
		for _, f := range []string{"dotted/root.v2/a.txt", "dotted/root.v2/s.css", "dotted/root.v2/sub/b.css", "dotted/root.v2/sub/c.js"} {
			c := "INSIDE:" + f
			w(f, c)
			c17Inside[c] = true
		}
		for _, f := range []string{"dotted/SECRET.txt", "dotted/s.css", "dotted/b.css", "dotted/a.txt", "dotted/index.html"} {
			w(f, c17Marker+":"+f)
		}
		w("SECRET.txt", c17Marker+":secret")
		w("rootx/s.css", c17Marker+":sibling")
		w("rootx/index.html", c17Marker+":sibling-index")
		w("index.html", c17Marker+":parent-index")
		w("rootx/a.txt", c17Marker+":sibling-a")
		w("b.css", c17Marker+":parent-css")
	})
}

// C17Cleanup removes the sandbox tree.
func C17Cleanup() {
	if c17Base != "" {
		_ = os.RemoveAll(c17Base)
	}
}

func c17Gen(tier string, emit func(c17Case)) {
	for _, h := range []string{"StaticDir", "StaticFS", "StaticFiles", "StaticFile"} {
		for _, rel := range []string{"pub", "./pub", "pub/", "../site2/pub", ".//pub", "./../site2/pub"} {
			for _, sc := range []string{"two-mounts", "chdir-between-routers", "chdir-same-router", "root-created-later", "grouped-mounts-same-prefix"} {
				emit(c17Case{Handler: h, Prefix: "/assets", Rel: rel, Scenario: sc, Depth: 2})
			}
		}
	}
	for _, p := range []string{"/d", "/deep/d", "/root"} {
		for _, v := range []string{"file", "name"} {
			for cache := 0; cache <= 1; cache++ {
				emit(c17Case{Handler: "StaticFiles", Prefix: p, Alias: v, Cache: cache})
			}
		}
	}
	depth := 3
	if tier == "thorough" {
		depth = 4
	}
	for _, h := range []string{"StaticDir", "StaticFS", "StaticFiles", "StaticFile"} {
		// "/root" = the base name of the served directory itself (a prefix/directory name coincidence)
		for _, p := range []string{"/d", "/deep/d", "/root"} {
			for _, enc := range []bool{false, true} {
				for f := range c17Tokens {
					emit(c17Case{Handler: h, Prefix: p, Encoded: enc, First: f, Depth: depth})
					if (h == "StaticFiles" || h == "StaticDir") && !enc && f%4 == 1 {
						// with the route cache on and a second static mount whose root is the sibling directory
						emit(c17Case{Handler: h, Prefix: p, Encoded: enc, First: f, Depth: 2, Cache: 1 + f%2})
					}
					if !enc && p == "/d" {
						// a root directory whose own name contains a dot
						emit(c17Case{Handler: h, Prefix: p, First: f, Depth: 2, DottedRoot: true})
					}
					if h == "StaticFiles" && !enc && p == "/d" {
						// a second mount on the same prefix with another root and another extension list
						for sp := 1; sp <= 2; sp++ {
							emit(c17Case{Handler: h, Prefix: p, First: f, Depth: 2, SamePrefix: sp})
						}
					}
					if (h == "StaticFiles" || h == "StaticDir") && !enc && p == "/d" {
						// both mounts inside nested groups whose middleware slices were grown by append (2+1, 3+1, 1+1)
						for _, outer := range []int{2, 3, 1} {
							emit(c17Case{Handler: h, Prefix: p, First: f, Depth: 2, Nested: outer})
						}
					}
					if (h == "StaticFiles" || h == "StaticDir") && !enc && f%3 == 0 {
						// a global path variable that happens to carry the name the static handlers use internally
						emit(c17Case{Handler: h, Prefix: p, Encoded: enc, First: f, Depth: depth, Global: true})
					}
				}
			}
		}
	}
}

// c17RunRel: relative roots. The probes run with the working directory <sandbox>/rel/site2; the root of the mount under
// test is <sandbox>/rel/site2/pub however it is spelled, whatever was registered before and wherever the process worked then.
func c17RunRel(c c17Case, st *fw.Stats, add func(sig, msg string)) {
	old, err := os.Getwd()
	if err != nil {
		panic(err)
	}
	defer func() { _ = os.Chdir(old) }()
	site1, site2 := filepath.Join(c17Base, "rel", "site1"), filepath.Join(c17Base, "rel", "site2")
	cd := func(d string) {
		if err := os.Chdir(d); err != nil {
			panic(err)
		}
	}
	mount := func(r *rux.Router, prefix, root string) {
		switch c.Handler {
		case "StaticDir":
			r.StaticDir(prefix, root)
		case "StaticFS":
			r.StaticFS(prefix, http.Dir(root))
		case "StaticFiles":
			r.StaticFiles(prefix, root, "css|js")
		case "StaticFile":
			// (the file path is spelled by plain concatenation: "./pub/a.css", "./../site2/pub/a.css" reach the library as they are)
			r.StaticFile(prefix, strings.TrimSuffix(root, "/")+"/a.css")
		}
	}
	get := func(r *rux.Router, p string) *httptest.ResponseRecorder {
		w := httptest.NewRecorder()
		_ = try(func() {
			r.ServeHTTP(w, &http.Request{Method: "GET", URL: &url.URL{Path: p}, Header: http.Header{}, Host: "x"})
		})
		return w
	}
	var r *rux.Router
	probePrefix := c.Prefix
	switch c.Scenario {
	case "root-created-later":
		// the root does not exist yet when the mount is registered (a build step creates it afterwards); the working
		// directory itself holds a marked file
		cd(site2)
		lateRel := strings.Replace(c.Rel, "pub", "late", 1)
		_ = os.RemoveAll(filepath.Join(site2, "late"))
		r = rux.New()
		mount(r, c.Prefix, lateRel)
		c.Rel = lateRel
		for _, f := range []string{"a.css", "sub/b.js", "n.txt"} {
			p := filepath.Join(site2, "late", f)
			_ = os.MkdirAll(filepath.Dir(p), 0o755)
			content := "INSIDE:rel/site2/late/" + f
			if err := os.WriteFile(p, []byte(content), 0o644); err != nil {
				panic(err)
			}
			c17Inside[content] = true
		}
		defer func() { _ = os.RemoveAll(filepath.Join(site2, "late")) }()
	case "grouped-mounts-same-prefix":
		// two groups mount static files under the same prefix argument with different roots; the other group's mount
		// (which legitimately serves site1's marked files) is requested first
		cd(site2)
		r = rux.New()
		r.Group("/admin", func() { r.StaticFiles(c.Prefix, "../site1/pub", "css|js") })
		r.Group("/site", func() { mount(r, c.Prefix, c.Rel) })
		for _, f := range []string{"/a.css", "/secret.css", "/sub/b.js"} {
			get(r, "/admin"+c.Prefix+f)
			get(r, "/admin"+c.Prefix+f)
		}
		probePrefix = "/site" + c.Prefix
	case "two-mounts":
		// other mounts of the same router serve directories whose names differ from this root's only by leading dots and slashes
		cd(site2)
		r = rux.New()
		r.StaticDir("/shared", "../pub")
		r.StaticDir("/hidden", ".pub")
		r.StaticFiles("/shared2", "../pub", "css|js")
		get(r, "/shared/a.css")
		mount(r, c.Prefix, c.Rel)
	case "chdir-between-routers":
		// another router was set up (and used) while the process worked in another directory of the same layout
		cd(site1)
		r1 := rux.New()
		mount(r1, c.Prefix, "pub")
		r1.StaticFile("/one", "pub/a.css")
		get(r1, c.Prefix+"/a.css")
		get(r1, "/one")
		cd(site2)
		r = rux.New()
		mount(r, c.Prefix, c.Rel)
	default:
		cd(site1)
		r = rux.New()
		r.StaticDir("/one", "pub")
		r.StaticFiles("/one2", "pub", "css|js")
		get(r, "/one/a.css")
		cd(site2)
		mount(r, c.Prefix, c.Rel)
	}
	desc := fmt.Sprintf("%s(prefix %q, relative root %q) registered with working directory <sandbox>/rel/site2, scenario %s", c.Handler, c.Prefix, c.Rel, c.Scenario)
	toks := []string{"a.css", "secret.css", "sub", "b.js", "n.txt", "..", ".", "pub", ".pub", "site1", "%2e%2e", ""}
	ok200 := 0
	var rec func(cur string, n int)
	rec = func(cur string, n int) {
		raw := probePrefix + cur
		if dec, err := url.PathUnescape(raw); err == nil {
			st.Evals++
			st.Nontrivial++
			w := httptest.NewRecorder()
			req := &http.Request{Method: "GET", URL: &url.URL{Path: dec, RawPath: raw}, Header: http.Header{}, Host: "x"}
			if pv := try(func() { r.ServeHTTP(w, req) }); pv != nil {
				add("static:panic", fmt.Sprintf("%s: GET %q panicked: %v", desc, raw, pv))
			} else {
				body := w.Body.String()
				listing := strings.HasPrefix(body, "<pre>") || strings.HasPrefix(body, "<!doctype html>")
				switch {
				case strings.Contains(body, c17Marker):
					add("static:outside-content:relative-root", fmt.Sprintf("%s: GET %q returned content from outside the root: %q", desc, raw, trunc(body)))
				case strings.Contains(body, `href="secret.css"`):
					add("static:outside-listing:relative-root", fmt.Sprintf("%s: GET %q lists a directory outside the root: %q", desc, raw, trunc(body)))
				case w.Code == 200 && !listing && !c17Inside[body]:
					add("static:unknown-body", fmt.Sprintf("%s: GET %q answered 200 with a body that is not a file under the root: %q", desc, raw, trunc(body)))
				case w.Code == 200 && !listing:
					ok200++
				}
			}
		}
		if n == c.Depth {
			return
		}
		for _, t := range toks {
			rec(cur+"/"+t, n+1)
		}
	}
	rec("", 0)
	if ok200 == 0 && !(c.Scenario == "grouped-mounts-same-prefix" && c.Handler != "StaticFiles") {
		// the mount must actually serve its own files (otherwise "nothing leaks" would be vacuous)
		add("static:relative-root-serves-nothing", fmt.Sprintf("%s: no request was answered with a file of the root", desc))
	}
	st.Inc("status_200", int64(ok200))
}

// c17RunAlias: extension-less alias URLs. GET /al/<v> is rewritten to <prefix>/<v>.css and re-dispatched; whatever the
// alias route captured, the mount serves the file the rewritten path names (or nothing).
func c17RunAlias(c c17Case, st *fw.Stats, add func(sig, msg string)) {
	root := filepath.Join(c17Base, "root")
	var opts []func(*rux.Router)
	if c.Cache > 0 {
		opts = append(opts, rux.CachingWithNum(uint16(c.Cache)))
	}
	r := rux.New(opts...)
	r.StaticFiles(c.Prefix, root, "css|js")
	r.GET("/al/{"+c.Alias+"}", func(ctx *rux.Context) {
		ctx.Req.URL.Path = c.Prefix + "/" + ctx.Param(c.Alias) + ".css"
		ctx.Req.URL.RawPath = ""
		r.HandleContext(ctx)
	})
	desc := fmt.Sprintf("StaticFiles(prefix %q, root <sandbox>/root, css|js, cache=%d) next to GET /al/{%s}, whose handler rewrites the request path to %s/<value>.css and calls Router.HandleContext", c.Prefix, c.Cache, c.Alias, c.Prefix)
	ok200 := 0
	for round := 0; round < 2; round++ {
		for _, t := range c17Tokens {
			if strings.ContainsAny(t, "/%") {
				continue
			}
			st.Evals++
			st.Nontrivial++
			w := httptest.NewRecorder()
			if pv := try(func() {
				r.ServeHTTP(w, &http.Request{Method: "GET", URL: &url.URL{Path: "/al/" + t}, Header: http.Header{}, Host: "x"})
			}); pv != nil {
				add("static:panic", fmt.Sprintf("%s: GET /al/%s panicked: %v", desc, t, pv))
				continue
			}
			body := w.Body.String()
			if strings.Contains(body, c17Marker) {
				add("static:outside-content", fmt.Sprintf("%s: GET /al/%s returned content from outside the root: %q", desc, t, trunc(body)))
				continue
			}
			if w.Code != 200 {
				continue
			}
			st.Inc("status_200", 1)
			ok200++
			if want := "INSIDE:root/" + t + ".css"; body != want {
				add("static:files-other-file", fmt.Sprintf("%s: GET /al/%s (rewritten to %s/%s.css) answered 200 with %q; only %q may be answered", desc, t, c.Prefix, t, trunc(body), want))
			}
		}
	}
	if ok200 != 4 {
		add("static:alias-vacuous", fmt.Sprintf("%s: %d alias requests were answered 200, expected 4 (a.txt.css and s.css.css, twice)", desc, ok200))
	}
}

func c17Run(c c17Case, st *fw.Stats) []fw.Viol {
	c17Setup()
	var vs []fw.Viol
	add := func(sig, msg string) {
		if len(vs) < 6 {
			vs = append(vs, fw.Viol{Sig: sig, Msg: msg})
		}
	}
	if c.Rel != "" {
		c17RunRel(c, st, add)
		return vs
	}
	if c.Alias != "" {
		c17RunAlias(c, st, add)
		return vs
	}
	root := filepath.Join(c17Base, "root")
	if c.DottedRoot {
		root = filepath.Join(c17Base, "dotted", "root.v2")
	}
	if c.Global {
		rux.SetGlobalVar("file", ".+")
		defer delete(rux.GetGlobalVars(), "file")
	}
	var opts []func(*rux.Router)
	if c.Encoded {
		opts = append(opts, rux.UseEncodedPath)
	}
	if c.Cache > 0 {
		opts = append(opts, rux.CachingWithNum(uint16(c.Cache)))
	}
	r := rux.New(opts...)
	mountB := func() { r.StaticFiles(c.Prefix, filepath.Join(c17Base, "rootb"), "txt|md") }
	mountAll := func() {
		if c.SamePrefix == 1 {
			mountB()
		}
		defer func() {
			if c.SamePrefix == 2 {
				mountB()
			}
		}()
		if c.Cache > 0 || c.Nested > 0 {
			// a legitimate second mount: /other serves the sibling directory (whose files carry the outside marker)
			if c.Handler == "StaticFiles" {
				r.StaticFiles("/other", filepath.Join(c17Base, "rootx"), "css|js|txt")
			} else {
				r.StaticDir("/other", filepath.Join(c17Base, "rootx"))
			}
		}
		switch c.Handler {
		case "StaticDir":
			r.StaticDir(c.Prefix, root)
		case "StaticFS":
			r.StaticFS(c.Prefix, http.Dir(root))
		case "StaticFiles":
			r.StaticFiles(c.Prefix, root, "css|js")
		case "StaticFile":
			r.StaticFile(c.Prefix, filepath.Join(root, "a.txt"))
		}
	}
	base := ""
	if c.Nested > 0 {
		pass := func(*rux.Context) {}
		var outer []rux.HandlerFunc
		for i := 0; i < c.Nested; i++ {
			outer = append(outer, pass)
		}
		r.Group("/o", func() { r.Group("/i", mountAll, pass) }, outer...)
		base = "/o/i"
	} else {
		mountAll()
	}
	desc := fmt.Sprintf("%s(prefix %q, root <sandbox>/root, useEncodedPath=%v, global var file=%v, cache=%d)", c.Handler, c.Prefix, c.Encoded, c.Global, c.Cache)
	if c.DottedRoot {
		desc = strings.Replace(desc, "<sandbox>/root,", "<sandbox>/dotted/root.v2,", 1)
	}
	if c.Nested > 0 {
		desc += fmt.Sprintf(" registered, together with a mount of the sibling directory under /other, inside Group(\"/o\", %d middleware){Group(\"/i\", 1 middleware)}", c.Nested)
	}
	var probe func(raw string)
	serveOther := func(p string) {
		w := httptest.NewRecorder()
		_ = try(func() {
			r.ServeHTTP(w, &http.Request{Method: "GET", URL: &url.URL{Path: p}, Header: http.Header{}, Host: "x"})
		})
	}
	probe1 := func(raw string) {
		dec, err := url.PathUnescape(raw)
		if err != nil {
			return
		}
		st.Evals++
		u := &url.URL{Path: dec, RawPath: raw}
		req := &http.Request{Method: "GET", URL: u, Header: http.Header{}, Proto: "HTTP/1.1", ProtoMajor: 1, ProtoMinor: 1, Host: "x"}
		w := httptest.NewRecorder()
		if pv := try(func() { r.ServeHTTP(w, req) }); pv != nil {
			add("static:panic", fmt.Sprintf("%s: GET raw path %q panicked: %v", desc, raw, pv))
			return
		}
		body := w.Body.String()
		if strings.ContainsAny(raw, ".%\\") && strings.Contains(raw, "..") || strings.Contains(raw, "%2e") {
			st.Nontrivial++
		}
		if c.SamePrefix > 0 && w.Code == 200 {
			// two mounts share the prefix: css / js come from <sandbox>/root, txt / md from <sandbox>/rootb - never crosswise
			nd := refmodel.Norm(dec, false)
			fromB := strings.HasPrefix(body, "INSIDE-B:")
			switch {
			case (strings.HasSuffix(nd, ".css") || strings.HasSuffix(nd, ".js")) && !c17Inside[body]:
				add("static:other-mounts-root", fmt.Sprintf("%s with StaticFiles(%q, <sandbox>/rootb, txt|md) on the same prefix (registered %s): GET %q answered %q, which is not a css / js file of <sandbox>/root", desc, c.Prefix, map[int]string{1: "before", 2: "after"}[c.SamePrefix], dec, trunc(body)))
			case (strings.HasSuffix(nd, ".txt") || strings.HasSuffix(nd, ".md")) && !fromB:
				add("static:other-mounts-root", fmt.Sprintf("%s with StaticFiles(%q, <sandbox>/rootb, txt|md) on the same prefix (registered %s): GET %q answered %q, which is not a txt / md file of <sandbox>/rootb", desc, c.Prefix, map[int]string{1: "before", 2: "after"}[c.SamePrefix], dec, trunc(body)))
			case !strings.HasSuffix(nd, ".css") && !strings.HasSuffix(nd, ".js") && !strings.HasSuffix(nd, ".txt") && !strings.HasSuffix(nd, ".md"):
				add("static:extension", fmt.Sprintf("%s (two mounts on the prefix): GET %q answered 200 although the path ends in none of the allowed extensions", desc, dec))
			}
			st.Inc("status_200", 1)
			return
		}
		if strings.Contains(body, c17Marker) {
			add("static:outside-content", fmt.Sprintf("%s: GET raw path %q (decoded %q) returned content from outside the root: %q", desc, raw, dec, trunc(body)))
			return
		}
		if strings.Contains(body, `href="SECRET.txt"`) || strings.Contains(body, `href="rootx/"`) {
			add("static:outside-listing", fmt.Sprintf("%s: GET raw path %q lists a directory outside the root: %q", desc, raw, trunc(body)))
			return
		}
		if w.Code == 200 {
			listing := strings.HasPrefix(body, "<pre>") || strings.HasPrefix(body, "<!doctype html>")
			if !listing && !c17Inside[body] {
				add("static:unknown-body", fmt.Sprintf("%s: GET raw path %q answered 200 with a body that is not a file under the root: %q", desc, raw, trunc(body)))
			}
			switch c.Handler {
			case "StaticFiles":
				if !listing && c17Inside[body] && !strings.HasSuffix(body, ".css") && !strings.HasSuffix(body, ".js") {
					add("static:files-other-file", fmt.Sprintf("%s: GET %q answered 200 with the bytes of a file that has no allowed extension: %q", desc, dec, trunc(body)))
				}
				if listing {
					add("static:files-listing", fmt.Sprintf("%s: GET %q answered 200 with a directory listing / index page: %q", desc, dec, trunc(body)))
				}
				// (trailing slashes and surrounding white space are insignificant to the router: C11)
				if nd := refmodel.Norm(dec, false); !strings.HasSuffix(nd, ".css") && !strings.HasSuffix(nd, ".js") {
					add("static:extension", fmt.Sprintf("%s: GET %q answered 200 although the path does not end in an allowed extension", desc, dec))
				}
			case "StaticFile":
				if body != "INSIDE:root/a.txt" && body != "INSIDE:dotted/root.v2/a.txt" {
					add("static:single-file", fmt.Sprintf("%s: GET %q answered %q, only the configured file may be served", desc, dec, trunc(body)))
				}
			}
		}
		if c.Handler == "StaticFile" && w.Code == 200 {
			st.Inc("single_file_hits", 1)
		}
		if w.Code == 200 {
			st.Inc("status_200", 1)
		}
	}
	probe = func(raw string) {
		probe1(raw)
		if c.Cache > 0 || c.Nested > 0 {
			// fill the cache from the other mount, then ask again: the answer must still come from this mount's root
			serveOther(base + "/other/s.css")
			serveOther(base + "/other/a.txt")
			probe1(raw)
			serveOther(base + "/other/s.css")
			probe1(raw)
		}
	}
	var rec func(cur string, n int)
	rec = func(cur string, n int) {
		probe(base + c.Prefix + cur)
		if n == c.Depth {
			return
		}
		for _, t := range c17Tokens {
			rec(cur+"/"+t, n+1)
		}
	}
	if c.First == 0 {
		probe(base + c.Prefix)
		probe(base + c.Prefix + "/")
		// absolute components: the real absolute paths of the outside files, raw and encoded
		for _, out := range []string{"SECRET.txt", "rootx/s.css", "root/../SECRET.txt"} {
			abs := filepath.Join(c17Base, out)
			for _, pre := range []string{"", "/", "/sub", "/sub/..", "/a.txt/.."} {
				probe(c.Prefix + pre + abs)
				probe(c.Prefix + pre + "/" + abs)
				probe(c.Prefix + pre + strings.ReplaceAll(abs, "/", "%2f"))
				probe(c.Prefix + pre + "/" + strings.ReplaceAll(abs, "/", "%2F") + ".css")
			}
		}
	}
	rec("/"+c17Tokens[c.First], 1)
	if c.Cache > 0 && c.First == 1 {
		// paths longer than 256 bytes that differ only behind that point, the allowed one first (route cache on)
		for round := 0; round < 2; round++ {
			for _, f := range []string{"/app.js", "/app.json", "/app.js.map", "/app.jsx/../../a.txt", "/app.js"} {
				probe(base + c.Prefix + "/" + c17LongDir + f)
			}
		}
	}
	if st.WantSample() {
		st.Sample(map[string]any{"handler": desc, "first_token": c17Tokens[c.First], "max_tokens": c.Depth, "tokens": c17Tokens})
	}
	return vs
}

var c17Spec = fw.Spec[c17Case]{
	ID:    "C17",
	Level: "model_checking",
	Rule: "complete enumeration: all request paths of <=3 (thorough 4) tokens over 36 tokens {.., ., empty, sub, a.txt, b.css, SECRET.txt, rootx, %2e%2e, ..%2f, %2f, \\, %5c.., %00, 'a.txt.', '.../', s.css, ..%5c, c.js, e.scss, m.mjs, acss, x.css.bak, dir.js, inner.md, 'a.txt;.css', 'd.md;x.js', 'a.txt%3B.css', ';', names with a long s / in upper case where the extension list says js / css} after each mount prefix, sent with URL.RawPath = the raw string and URL.Path = its decoding, for StaticDir / StaticFS(http.Dir) / StaticFiles(css|js) / StaticFile x prefixes {/d, /deep/d, /root (= the directory's own name)} x both UseEncodedPath settings (with the route cache on also over paths of more than 256 bytes that differ only in their last bytes, the allowed file first; and with a global path variable named like the handlers' internal variable; and with the mount and a second mount of the sibling directory inside nested groups with 2+1 / 3+1 / 1+1 middleware, requested alternately; and with a second StaticFiles mount on the SAME prefix serving another root with another extension list, registered before / after; and reached through an alias route /al/{file|name} that rewrites the path to <prefix>/<value>.css and re-dispatches with HandleContext), against a real sandbox tree with marked files outside the root (parent directory, name-prefix sibling 'rootx'; also with a root directory whose own name contains a dot); plus relative roots in 6 spellings x 4 handlers x 5 arrangements (other mounts whose directory names differ by leading dots / slashes; another router or another mount registered while the process worked in a directory of the same layout; the root created only after the mount was registered; two groups mounting under the same prefix argument with different roots, the other one requested first) probed with all paths of <=2 tokens over 12 tokens; " +
		"oracle: no body carries an outside marker or lists an outside directory, every 200 body is a file under the root, StaticFiles answers 200 only for allowed extensions, StaticFile only its file; non-trivial = a path containing a dot-dot in some encoding",
	Assume: []string{"relative to the sandbox tree and the OS / file system the check runs on", "net/http's FileServer is part of the implementation under test, not of the oracle"},
	Bounds: func(tier string) map[string]any {
		return map[string]any{"tokens": len(c17Tokens), "max_tokens": map[string]int{"quick": 3, "thorough": 4}[tier], "handlers": 4, "prefixes": 3}
	},
	Gen: c17Gen,
	Run: c17Run,
	Guard: func(tier string, st *fw.Stats) []string {
		if st.C["status_200"] == 0 {
			return []string{"no request was answered 200: the sandbox tree is not being served"}
		}
		return nil
	},
	Batch:   1,
	Workers: 1, // SetGlobalVar is process-global
}

func init() {
	Registry["C17"] = func(args []string) int {
		defer C17Cleanup()
		return fw.Main(c17Spec, args)
	}
}
