package checks

import (
	"fmt"
	"net/http"
	"sort"
	"strings"

	"github.com/gookit/rux"

	"verif/mc/fw"
	"verif/mc/refmodel"
)

// C06: resolution order of unmatched requests (direct > HEAD->GET > fallback
// route > 405/Allow > 404; InterceptAll). Complete product of small route
// tables x all option subsets x InterceptAll values x custom/default fallback
// handlers x all methods x paths; every request issued twice.

var c06Pool = []refmodel.RouteDef{
	{Path: "/a", Methods: []string{"GET"}},
	{Path: "/a", Methods: []string{"POST"}},
	{Path: "/a/{x}", Methods: []string{"GET"}},
	{Path: "/a/{x}", Methods: []string{"PUT", "DELETE"}},
	{Path: "/{x}", Methods: []string{"HEAD"}},
	{Path: "/b", Methods: []string{"HEAD"}},
	{Path: "/a[/{x}]", Methods: []string{"DELETE"}},
	{Path: "/*", Methods: refmodel.Methods},
	{Path: "/*", Methods: []string{"GET"}},
	{Path: "/i", Methods: refmodel.Methods},
	{Path: "/b", Methods: []string{"OPTIONS", "TRACE"}},
	{Path: "/*", Methods: []string{"POST", "PUT"}},
	{Path: `/a/{n:\d+}`, Methods: []string{"DELETE", "PATCH"}},
	// a dynamic route registered for GET and HEAD in one call
	{Path: "/a/{x}", Methods: []string{"GET", "HEAD"}},
	// the same literal text and variable name as the routes above, another variable regex
	{Path: "/a/{x:[a-z]+}", Methods: []string{"POST"}},
	// (outside the enumerated pool, used by the dotted tables only:) several dots in the literal text around a variable
	{Path: "/v1.0/{x}.json", Methods: []string{"GET"}},
	{Path: "/v1.0/{x}.json", Methods: []string{"PUT", "DELETE"}},
	{Path: "/v1.0/x.y.z{x}", Methods: []string{"POST"}},
}

// the enumeration of tables runs over the first c06Enum pool entries
const c06Enum = 15

// requests for the dotted tables: variable values of one byte, of two bytes and empty
var c06DotPaths = []string{"/v1.0/7.json", "/v1.0/42.json", "/v1.0/.json", "/v1.0/7.jso", "/v1.0/7", "/v1.0", "/v1.0/x.y.z7", "/v1.0/x.y.z", "/v1.0/x.y.z77"}

// two pool entries may not share a table when they would register the same static method+path twice
func c06Conflict(a, b int) bool {
	if a == b {
		return true
	}
	pa, pb := c06Pool[a], c06Pool[b]
	if pa.Path != pb.Path || strings.ContainsAny(pa.Path, "{[") {
		return false
	}
	for _, m := range pa.Methods {
		for _, n := range pb.Methods {
			if m == n {
				return true
			}
		}
	}
	return false
}

var c06Intercepts = []string{"", "/i", "i", "/i/", "/none", "/a/7"}
var c06Methods = append(append([]string{}, refmodel.Methods...), "FOO")
var c06Paths = []string{"/a", "/a/", "/a/1", "/b", "/zz", "/*", "/i", "/zz/y", "/a/zz"}

type c06Case struct {
	Routes         []int  `json:"routes"` // indices into the pool, registration order
	NotAllowed     bool   `json:"handle_method_not_allowed"`
	Fallback       bool   `json:"handle_fallback_route"`
	Strict         bool   `json:"strict_last_slash"`
	Cache          bool   `json:"caching_cap1"`
	Intercept      string `json:"intercept_all"`
	CustomNF       bool   `json:"custom_not_found"`
	CustomNA       bool   `json:"custom_not_allowed"`
	InterceptFirst bool   `json:"intercept_option_first,omitempty"` // InterceptAll listed before the other options
	// Late > 0: the last Late routes of the table are registered only after the first round of requests was served (the
	// first round is judged against the shorter table, the second against the full one)
	Late int `json:"late_registrations,omitempty"`
	// Via > 0: every route is registered through regAPIs[Via] instead of Add (AddRoute(NewRoute), AddNamed, AttachTo, ...)
	Via int `json:"registration_api,omitempty"`
	// Long > 0: the paths of the requests are Long..Long+9 bytes long (matched ones first, then unmatched ones that share
	// their first bytes with them)
	Long int `json:"long_paths_from,omitempty"`
	// Twin: a second router holding the same table but the OTHER StrictLastSlash setting serves every request right
	// before this one does; the paths also come in unclean spellings (doubled / missing leading slash)
	Twin bool `json:"twin_router_with_other_strictness_served_first,omitempty"`
	// UseAfter: a pass-through global middleware is added with Router.Use AFTER the custom NotFound / NotAllowed handlers were installed
	UseAfter bool `json:"global_middleware_added_after_custom_handlers,omitempty"`
	// Mounted: the requests arrive on a FRONT router (no routes; its NotFound handler hands the context to this router
	// with HandleContext); this router's own NotFound / NotAllowed handlers answer its unmatched requests
	Mounted bool `json:"behind_a_front_router,omitempty"`
	// UseMany > 0: that many pass-through global middleware are installed (chains of more than 63 handlers)
	UseMany int `json:"global_middleware_count,omitempty"`
	// Dotted: the requests are c06DotPaths (the table holds routes with several dots in their literal text)
	Dotted bool `json:"dotted_paths,omitempty"`
}

func c06Gen(tier string, emit func(c06Case)) {
	for lo := 20; lo < 320; lo += 10 {
		for o := 0; o < 16; o++ {
			if o&1 != 0 { // with HandleMethodNotAllowed
				emit(c06Case{Routes: []int{2, 3}, NotAllowed: true, Fallback: o&2 != 0, Strict: o&4 != 0, Cache: o&8 != 0, Long: lo})
			}
		}
	}
	// routes with several dots in their literal text, alone, together and next to a catch-all, under every option subset
	for _, t := range [][]int{{15}, {15, 16}, {15, 7}, {7, 15}, {15, 16, 7}, {17}, {15, 17}, {17, 16, 8}} {
		for o := 0; o < 16; o++ {
			emit(c06Case{Routes: t, NotAllowed: o&1 != 0, Fallback: o&2 != 0, Strict: o&4 != 0, Cache: o&8 != 0, Dotted: true})
			emit(c06Case{Routes: t, NotAllowed: o&1 != 0, Fallback: o&2 != 0, Strict: o&4 != 0, Cache: o&8 != 0, Dotted: true, CustomNF: true, CustomNA: true})
		}
	}
	// long chains of global middleware in front of the routes and of the not-found / not-allowed responders
	for _, t := range [][]int{{}, {0}, {2, 3}, {0, 1, 7}, {13, 12}} {
		for o := 0; o < 16; o++ {
			for _, many := range []int{61, 62, 63, 64, 70} {
				for h := 0; h < 4; h += 3 {
					emit(c06Case{Routes: t, NotAllowed: o&1 != 0, Fallback: o&2 != 0, Strict: o&4 != 0, Cache: o&8 != 0, UseMany: many, CustomNF: h != 0, CustomNA: h != 0})
				}
			}
		}
	}
	maxK := 2
	if tier == "thorough" {
		maxK = 3
	}
	n := c06Enum
	var tables [][]int
	tables = append(tables, []int{})
	var rec func(cur []int)
	rec = func(cur []int) {
		if len(cur) > 0 {
			tables = append(tables, append([]int(nil), cur...))
		}
		if len(cur) == maxK {
			return
		}
		for i := 0; i < n; i++ {
			skip := false
			for _, c := range cur {
				if c06Conflict(c, i) {
					skip = true
				}
			}
			if !skip {
				rec(append(cur, i))
			}
		}
	}
	rec(nil)
	for _, t := range tables {
		for o := 0; o < 16; o++ {
			if len(t) > 0 {
				emit(c06Case{Routes: t, NotAllowed: o&1 != 0, Fallback: o&2 != 0, Strict: o&4 != 0, Cache: o&8 != 0, Twin: true})
			}
			for via := 1; via < len(regAPIs) && len(t) > 0; via++ {
				emit(c06Case{Routes: t, NotAllowed: o&1 != 0, Fallback: o&2 != 0, Strict: o&4 != 0, Cache: o&8 != 0, Via: via})
			}
			for late := 1; late <= len(t) && late <= 2; late++ {
				emit(c06Case{Routes: t, NotAllowed: o&1 != 0, Fallback: o&2 != 0, Strict: o&4 != 0, Cache: o&8 != 0, Late: late})
			}
			for _, ic := range c06Intercepts {
				for h := 0; h < 4; h++ {
					emit(c06Case{Routes: t, NotAllowed: o&1 != 0, Fallback: o&2 != 0, Strict: o&4 != 0, Cache: o&8 != 0, Intercept: ic, CustomNF: h&1 != 0, CustomNA: h&2 != 0})
					if ic == "" && h == 3 {
						emit(c06Case{Routes: t, NotAllowed: o&1 != 0, Fallback: o&2 != 0, Strict: o&4 != 0, Cache: o&8 != 0, CustomNF: true, CustomNA: true, Mounted: true})
					}
					if ic == "" && h > 0 {
						emit(c06Case{Routes: t, NotAllowed: o&1 != 0, Fallback: o&2 != 0, Strict: o&4 != 0, Cache: o&8 != 0, CustomNF: h&1 != 0, CustomNA: h&2 != 0, UseAfter: true})
					}
					if ic != "" && h == 0 {
						// options are applied in argument order: the same set with InterceptAll listed first
						emit(c06Case{Routes: t, NotAllowed: o&1 != 0, Fallback: o&2 != 0, Strict: o&4 != 0, Cache: o&8 != 0, Intercept: ic, InterceptFirst: true})
					}
				}
			}
		}
	}
}

// the cache capacity alternates between 1 (constant eviction) and 64 (everything stays) with the table shape
func c06CacheCap(c c06Case) int {
	if (len(c.Routes)+b2i(c.NotAllowed)+b2i(c.CustomNF))%2 == 0 {
		return 1
	}
	return 64
}

func c06Run(c c06Case, st *fw.Stats) []fw.Viol {
	var viols []fw.Viol
	add := func(sig, msg string) {
		if len(viols) < 6 {
			viols = append(viols, fw.Viol{Sig: sig, Msg: msg})
		}
	}
	var defs []refmodel.RouteDef
	for _, i := range c.Routes {
		defs = append(defs, c06Pool[i])
	}
	mo := refmodel.Opts{Strict: c.Strict, NotAllowed: c.NotAllowed, Fallback: c.Fallback, Intercept: strings.TrimSpace(c.Intercept)}
	tb, err := refmodel.NewTable(defs, mo)
	if err != nil {
		panic(err)
	}
	var opts []func(*rux.Router)
	if c.NotAllowed {
		opts = append(opts, rux.HandleMethodNotAllowed)
	}
	if c.Fallback {
		opts = append(opts, rux.HandleFallbackRoute)
	}
	if c.Strict {
		opts = append(opts, rux.StrictLastSlash)
	}
	if c.Cache {
		opts = append(opts, rux.CachingWithNum(uint16(c06CacheCap(c))))
	}
	if c.Intercept != "" {
		if c.InterceptFirst {
			opts = append([]func(*rux.Router){rux.InterceptAll(c.Intercept)}, opts...)
		} else {
			opts = append(opts, rux.InterceptAll(c.Intercept))
		}
	}
	rec := &hitRec{}
	early := len(defs) - c.Late
	tbFull := tb
	if c.Late > 0 {
		if tb, err = refmodel.NewTable(defs[:early], mo); err != nil {
			panic(err)
		}
	}
	var via []string
	if c.Via > 0 {
		for range defs {
			via = append(via, regAPIs[c.Via])
		}
	}
	r, pv := buildRouterVia(defs[:early], via, rec, opts...)
	if pv != nil {
		add("register:panic", fmt.Sprintf("config %+v: registration panicked: %v", c, pv))
		return viols
	}
	var ctxAllowed string
	if c.CustomNF {
		r.NotFound(func(ctx *rux.Context) { ctx.Text(404, "NF") })
	}
	if c.CustomNA {
		r.NotAllowed(func(ctx *rux.Context) {
			al, _ := ctx.SafeGet(rux.CTXAllowedMethods).([]string)
			al = append([]string(nil), al...)
			sort.Strings(al)
			ctxAllowed = strings.Join(al, ",")
			ctx.Text(405, "NA|"+ctxAllowed)
		})
	}
	if c.UseAfter {
		r.Use(func(ctx *rux.Context) { ctx.Next() })
	}
	for i := 0; i < c.UseMany; i++ {
		if i%2 == 0 {
			r.Use(func(ctx *rux.Context) {})
		} else {
			r.Use(func(ctx *rux.Context) { ctx.Next() })
		}
	}
	var entry http.Handler = r
	hops := 0
	if c.Mounted {
		front := rux.New()
		front.NotFound(func(ctx *rux.Context) {
			hops++
			if hops > 1 {
				ctx.Text(599, "FRONT-ROUTER-AGAIN") // (never on a correct router: guards against an endless forward)
				return
			}
			r.HandleContext(ctx)
		})
		entry = front
	}
	cfg := func() string {
		if c.UseMany > 0 {
			return fmt.Sprintf("table [%s] options{notAllowed=%v fallback=%v strict=%v cache=%v customNF=%v customNA=%v} (%d pass-through global middleware installed)", defsString(defs), c.NotAllowed, c.Fallback, c.Strict, c.Cache, c.CustomNF, c.CustomNA, c.UseMany)
		}
		if c.Mounted {
			return fmt.Sprintf("table [%s] options{notAllowed=%v fallback=%v strict=%v cache=%v customNF=%v customNA=%v} (requests arrive on a front router whose NotFound handler forwards them with HandleContext)", defsString(defs), c.NotAllowed, c.Fallback, c.Strict, c.Cache, c.CustomNF, c.CustomNA)
		}
		if c.UseAfter {
			return fmt.Sprintf("table [%s] options{notAllowed=%v fallback=%v strict=%v cache=%v customNF=%v customNA=%v} (a pass-through global middleware added with Use after the custom handlers were installed)", defsString(defs), c.NotAllowed, c.Fallback, c.Strict, c.Cache, c.CustomNF, c.CustomNA)
		}
		if c.Late > 0 {
			return fmt.Sprintf("table [%s] (the last %d registered after a first round of all requests) options{notAllowed=%v fallback=%v strict=%v cache=%v}", defsString(defs), c.Late, c.NotAllowed, c.Fallback, c.Strict, c.Cache)
		}
		if c.Twin {
			return fmt.Sprintf("table [%s] options{notAllowed=%v fallback=%v strict=%v cache=%v} (a second router with the same table and strict=%v serves every request first)", defsString(defs), c.NotAllowed, c.Fallback, c.Strict, c.Cache, !c.Strict)
		}
		if c.Via > 0 {
			return fmt.Sprintf("table [%s] (every route registered through %s) options{notAllowed=%v fallback=%v strict=%v cache=%v}", defsString(defs), regAPIs[c.Via], c.NotAllowed, c.Fallback, c.Strict, c.Cache)
		}
		return fmt.Sprintf("table [%s] options{notAllowed=%v fallback=%v strict=%v cache=%v intercept=%q(listed first=%v) customNF=%v customNA=%v}", defsString(defs), c.NotAllowed, c.Fallback, c.Strict, c.Cache, c.Intercept, c.InterceptFirst, c.CustomNF, c.CustomNA)
	}
	// two rounds; inside a round all methods are tried on one path before the next path, so that
	// every method is requested after every other method on the same path (cache history matters)
	paths := c06Paths
	if c.Dotted {
		paths = c06DotPaths
	}
	if c.Long > 0 {
		// (pool routes 2 and 3: GET /a/{x}; PUT+DELETE /a/{x})
		paths = nil
		for L := c.Long; L < c.Long+10; L++ {
			stem := "/a/" + strings.Repeat("k", L-3)
			paths = append(paths, stem, stem+"/pub", stem[:len(stem)-1]+"j", stem+"x")
		}
	}
	var twin *rux.Router
	if c.Twin {
		var topts []func(*rux.Router)
		for _, o := range opts {
			topts = append(topts, o)
		}
		if c.Strict {
			// (the option list of this router without StrictLastSlash)
			topts = nil
			if c.NotAllowed {
				topts = append(topts, rux.HandleMethodNotAllowed)
			}
			if c.Fallback {
				topts = append(topts, rux.HandleFallbackRoute)
			}
			if c.Cache {
				topts = append(topts, rux.CachingWithNum(uint16(c06CacheCap(c))))
			}
		} else {
			topts = append(topts, rux.StrictLastSlash)
		}
		var tpv any
		if twin, tpv = buildRouterVia(defs, nil, &hitRec{}, topts...); tpv != nil {
			add("register:panic", fmt.Sprintf("config %+v: registration of the twin router panicked: %v", c, tpv))
			return viols
		}
		paths = append(append([]string(nil), paths...), "//a/", "a/", "//a/1/", " /a/", "//b/", "zz/")
	}
	for round := 0; round < 2; round++ {
		if round == 1 && c.Late > 0 {
			if pv := try(func() {
				for i := early; i < len(defs); i++ {
					i := i
					rt := r.Add(defs[i].Path, func(ctx *rux.Context) {
						rec.idx, rec.params = i, canonParams(ctx.Params)
						rec.n++
						ctx.WriteString(fmt.Sprintf("%d|%s", i, canonParams(ctx.Params)))
					}, defs[i].Methods...)
					rt.Opts = map[string]any{"i": i}
				}
			}); pv != nil {
				add("register:panic", fmt.Sprintf("%s: the late registration panicked: %v", cfg(), pv))
				return viols
			}
			tb = tbFull
		}
		for _, p := range paths {
			for _, m := range c06Methods {
				want := tb.Resolve(m, p)
				if want.Kind != "route" && round == 0 {
					st.Nontrivial++
				}
				if twin != nil {
					_ = try(func() { twin.Match(m, p) })
					_, _ = serve(twin, m, p)
				}
				if round == 0 {
					st.Outcome(want.Kind)
				}
				for rep := round; rep < round+1; rep++ {
					st.Evals++
					var gotIdx int
					var alm []string
					if pv := try(func() {
						rt, _, al := r.Match(m, p)
						gotIdx = routeIdx(rt)
						alm = append([]string(nil), al...)
					}); pv != nil {
						add("match:panic", fmt.Sprintf("%s: Match(%s,%q) panicked: %v", cfg(), m, p, pv))
						break
					}
					sort.Strings(alm)
					gotKind := "404"
					if gotIdx >= 0 {
						gotKind = "route"
					} else if len(alm) > 0 {
						gotKind = "405"
					}
					wantKind := want.Kind
					if wantKind == "head-get" || wantKind == "fallback" {
						wantKind = "route"
					}
					if gotKind != wantKind || gotIdx != want.Route || strings.Join(alm, ",") != strings.Join(want.Allowed, ",") {
						sig := fmt.Sprintf("resolve:want=%s:got=%s", want.Kind, gotKind)
						if c.Intercept != "" {
							sig += ":intercept"
							if refmodel.Norm(c.Intercept, c.Strict) != strings.TrimSpace(c.Intercept) {
								sig += "-unnormalised"
							}
						}
						add(sig, fmt.Sprintf("%s: Match(%s,%q) #%d -> route %d allowed %v; documented order gives %s route %d allowed %v", cfg(), m, p, rep+1, gotIdx, alm, want.Kind, want.Route, want.Allowed))
						break
					}
					// the same request through ServeHTTP
					rec.n, rec.idx = 0, -1
					ctxAllowed = "<not called>"
					hops = 0
					resp, pv := serve(entry, m, p)
					if pv != nil {
						add("serve:panic", fmt.Sprintf("%s: ServeHTTP(%s %q) panicked: %v", cfg(), m, p, pv))
						break
					}
					body := resp.Body.String()
					bad := ""
					switch want.Kind {
					case "route", "head-get", "fallback":
						if rec.n != 1 || rec.idx != want.Route || resp.Code != 200 {
							bad = fmt.Sprintf("expected handler of route %d once with 200; got handler %d x%d, status %d", want.Route, rec.idx, rec.n, resp.Code)
						}
					case "405":
						al := strings.Join(want.Allowed, ", ")
						if rec.n != 0 {
							bad = "a route handler ran"
						} else if c.CustomNA {
							if exp := "NA|" + strings.Join(want.Allowed, ","); body != exp || resp.Code != 405 {
								bad = fmt.Sprintf("custom NotAllowed handler: expected body %q status 405 (allowed methods from context), got %q status %d", exp, body, resp.Code)
							}
						} else if m == "OPTIONS" {
							if resp.Code != 200 || resp.Header().Get("Allow") != al {
								bad = fmt.Sprintf("expected 200 with Allow %q, got %d with Allow %q", al, resp.Code, resp.Header().Get("Allow"))
							}
						} else if resp.Code != 405 || resp.Header().Get("Allow") != al {
							bad = fmt.Sprintf("expected 405 with Allow %q, got %d with Allow %q", al, resp.Code, resp.Header().Get("Allow"))
						}
					case "404":
						if rec.n != 0 {
							bad = "a route handler ran"
						} else if c.CustomNF {
							if body != "NF" || resp.Code != 404 {
								bad = fmt.Sprintf("custom NotFound handler: expected NF/404, got %q/%d", body, resp.Code)
							}
						} else if resp.Code != 404 {
							bad = fmt.Sprintf("expected default 404, got %d", resp.Code)
						}
					}
					if bad != "" {
						add("serve:"+want.Kind, fmt.Sprintf("%s: ServeHTTP(%s %q) #%d: %s", cfg(), m, p, rep+1, bad))
						break
					}
				}
			}
		}
	}
	if st.WantSample() {
		st.Sample(map[string]any{"config": cfg(), "methods": c06Methods, "paths": c06Paths, "each_request": "twice, via Match and ServeHTTP"})
	}
	return viols
}

var c06Spec = fw.Spec[c06Case]{
	ID:    "C06",
	Level: "model_checking",
	Rule: "complete product: ordered tables of <=K routes from a 15-route pool x 2^4 option subsets {HandleMethodNotAllowed,HandleFallbackRoute,StrictLastSlash,caching (capacity 1 or 64)} x 6 InterceptAll values (listed after and before the other options) (+ every table with its last 1 or 2 routes registered only after a first round of all requests) (+ every table registered through each of the 6 other registration APIs) (+ request paths of every length 20..319 bytes against a two-route table) (+ every table and option subset again, incl. six unclean path spellings, with a second router of the other StrictLastSlash setting serving every request first) x {default,custom} NotFound x {default,custom} NotAllowed (the custom ones also followed by a later Router.Use, behind 61..70 pass-through global middleware, on 8 tables of routes with several dots in their literal text asked with one-byte / two-byte / empty variable values, and with the requests arriving through a front router that forwards them with HandleContext); per configuration 10 methods x 8 paths, each request twice through Match and ServeHTTP, vs refmodel.Resolve; " +
		"non-trivial = a request that is not a direct match (HEAD->GET, fallback, 405, 404)",
	Assume: []string{"routes, paths and option values come from the stated alphabets"},
	Bounds: func(tier string) map[string]any {
		k := 2
		if tier == "thorough" {
			k = 3
		}
		return map[string]any{"pool": c06Enum, "K": k, "options": 16, "intercepts": c06Intercepts, "methods": c06Methods, "paths": c06Paths}
	},
	Gen:   c06Gen,
	Run:   c06Run,
	Batch: 32,
	Guard: func(tier string, st *fw.Stats) []string {
		var g []string
		for _, k := range []string{"route", "head-get", "fallback", "405", "404"} {
			if st.Outcomes[k] == 0 {
				g = append(g, "resolution kind never occurred: "+k)
			}
		}
		return g
	},
}

func init() {
	Registry["C06"] = func(args []string) int { return fw.Main(c06Spec, args) }
}
