package checks

import (
	"fmt"
	"net/url"
	"sort"
	"strings"

	"github.com/gookit/rux"

	"verif/mc/fw"
	"verif/mc/refmodel"
)

func mustURL(path string) *url.URL { return &url.URL{Path: path} }

// C01: route selection. Complete product: ordered route tables of <= K patterns
// from a pool built to collide on every shortcut of appendRoute /
// parseParamRoute / match, x request methods x all paths of <= 3 segments.

var c01Pool = []string{
	// statics
	"/", "/a", "/a/b", "/a.b",
	// first-segment dynamics
	"/a/{x}", "/a/{z}", `/a/{x:\d+}`, `/a/{x:\d+}/{y}`, "/a/{x}/b", "/a/b/{x}", "/a.b/{x}", "/a/a.b/{x}", "/a/{x}.html", "/a/q{x}", "/a/b[/{x}]", "/a/{x}[/{y}]", "/b/{x}",
	// residual dynamics
	"/{x}", "/{x}/b", `/{x:\d+}`, "/a[/{x}]", "/a[.html]", "/[{x}]", "/a[/{x}[/{y}]]", "/{all}",
	// multi-segment variable, no-variable optional with two segments
	"/a/{f:.+}", "/a/b[.html]",
}

var c01Core = []string{"/a", "/a/{x}", "/a/b[/{x}]", "/a.b/{x}", "/{x}", "/a[/{x}]", "/{x}/b", "/a/b[.html]", "/{all}", `/a/{x:\d+}`}

var c01Segs = []string{"a", "b", "a.b", "axb", "12", "q.html"}

var c01Paths = func() []string {
	ps := []string{"/"}
	var rec func(prefix string, depth int)
	rec = func(prefix string, depth int) {
		for _, s := range c01Segs {
			p := prefix + "/" + s
			ps = append(ps, p)
			if depth < 3 {
				rec(p, depth+1)
			}
		}
	}
	rec("", 1)
	return ps
}()

// every path, and every path of <= 2 segments again with a trailing slash (for the StrictLastSlash tables)
var c01PathsSlash = func() []string {
	out := append([]string{}, c01Paths...)
	for _, p := range c01Paths {
		if p != "/" && strings.Count(p, "/") <= 2 {
			out = append(out, p+"/")
		}
		if p != "/" && strings.Count(p, "/") == 1 {
			// the same path with its leading slash missing / doubled, with and without a trailing slash
			out = append(out, p[1:], p[1:]+"/", "/"+p, "/"+p+"/", "//"+p+"/")
		}
	}
	return append(out, "//", "")
}()

type c01Case struct {
	Routes  []refmodel.RouteDef `json:"routes"`
	Methods []string            `json:"request_methods"`
	Via     []string            `json:"registered_via,omitempty"` // registration API per route ("" = Add)
	// Inspect: the router's read-only inspection API (String, Routes, IterateRoutes, NamedRoutes) is used between
	// registration and the requests
	Inspect bool `json:"inspected_before_requests,omitempty"`
	// Late: the router caches dynamic matches (capacity 64) and the LAST route is registered only after all requests
	// were issued once; every request is then issued again and judged against the full table
	Late bool `json:"last_route_registered_late,omitempty"`
	// Strict: the router is built with StrictLastSlash ('/x' and '/x/' are different paths); every path is also requested
	// with a trailing slash
	Strict bool `json:"strict_last_slash,omitempty"`
	// Repeat > 0: after the normal pass every GET path is looked up Repeat more times in a row (a router that counts
	// hits must not let the count change the answer), then the normal pass runs once more
	Repeat int `json:"repeat_each_request,omitempty"`
	// Cache > 0: the router caches dynamic matches (that capacity); after the normal pass (methods in the listed order)
	// the whole pass is repeated with the methods in reverse order
	Cache int `json:"route_cache_capacity,omitempty"`
	// Paths != nil: the request paths (instead of the standard 259)
	Paths []string `json:"request_paths,omitempty"`
	// Intercept != "": StrictLastSlash router with InterceptAll(Intercept); InterceptFirst: the option is listed before StrictLastSlash
	Intercept      string `json:"intercept_all,omitempty"`
	InterceptFirst bool   `json:"intercept_listed_before_strict,omitempty"`
}

// patterns whose literal text holds adjacent dots, and the paths that spell them with every single dot replaced
var c01DotPool = []string{"/a/{x}..b", "/a..b/{x}", "/a/{x}", "/a/{x}.b..c", "/a..b[.c]", "/a/{x}..b.c", "/a/b..c"}

var c01DotPaths = func() []string {
	set := map[string]bool{}
	for _, p := range c01DotPool {
		for _, inst := range []string{strings.NewReplacer("{x}", "1", "[", "", "]", "").Replace(p), strings.NewReplacer("{x}", "b", "[.c]", "").Replace(p)} {
			set[inst] = true
			for i := 0; i < len(inst); i++ {
				if inst[i] == '.' {
					set[inst[:i]+"x"+inst[i+1:]] = true
					set[inst[:i]+inst[i+1:]] = true
				}
			}
			set[strings.ReplaceAll(inst, ".", "x")] = true
		}
	}
	var out []string
	for p := range set {
		out = append(out, p)
	}
	sort.Strings(out)
	return out
}()

// patterns for the StrictLastSlash tables: routes that end in '/', and routes whose tail after a literal first segment
// may be empty
var c01StrictPool = []string{"/a", "/a/", "/a/{x}", "/a/{x}/", "/a/{f:.*}", "/a/[{x}]", "/a/[b.html]", "/{d}/", "/{d}", "/a/b[/]", "/[{x}/]"}

var c01MethodSets = [][]string{{"GET"}, {"POST"}, {"GET", "POST"}, {"PUT", "DELETE", "GET"}}

func permute(pool []string, k int, f func([]string)) {
	cur := make([]string, 0, k)
	used := make([]bool, len(pool))
	var rec func()
	rec = func() {
		if len(cur) == k {
			f(cur)
			return
		}
		for i, p := range pool {
			if used[i] {
				continue
			}
			used[i] = true
			cur = append(cur, p)
			rec()
			cur = cur[:len(cur)-1]
			used[i] = false
		}
	}
	rec()
}

func c01Gen(tier string, emit func(c01Case)) {
	reqM := []string{"GET", "POST", "PUT"}
	msets := c01MethodSets
	if tier == "thorough" {
		reqM = []string{"GET", "POST", "PUT", "HEAD"}
		msets = [][]string{{"GET"}, {"POST"}, {"GET", "POST"}, {"HEAD"}, refmodel.Methods}
	}
	withSets := func(pats []string) {
		n := len(pats)
		idx := make([]int, n)
		for {
			var defs []refmodel.RouteDef
			for i, p := range pats {
				defs = append(defs, refmodel.RouteDef{Path: p, Methods: msets[idx[i]]})
			}
			emit(c01Case{Routes: defs, Methods: reqM})
			j := n - 1
			for j >= 0 {
				idx[j]++
				if idx[j] < len(msets) {
					break
				}
				idx[j] = 0
				j--
			}
			if j < 0 {
				return
			}
		}
	}
	allGet := func(pats []string) {
		var defs []refmodel.RouteDef
		for _, p := range pats {
			defs = append(defs, refmodel.RouteDef{Path: p, Methods: []string{"GET"}})
		}
		emit(c01Case{Routes: defs, Methods: reqM})
	}
	permute(c01Pool, 1, withSets)
	// every pattern through every registration API (single route), and every ordered pair through rotating APIs
	for _, api := range regAPIs {
		for _, p := range c01Pool {
			for _, ms := range msets {
				emit(c01Case{Routes: []refmodel.RouteDef{{Path: p, Methods: ms}}, Methods: reqM, Via: []string{api}})
			}
		}
	}
	n := 0
	permute(c01Pool, 2, func(pats []string) {
		n++
		emit(c01Case{Routes: []refmodel.RouteDef{{Path: pats[0], Methods: []string{"GET"}}, {Path: pats[1], Methods: []string{"GET", "POST"}}}, Methods: reqM,
			Via: []string{regAPIs[n%len(regAPIs)], regAPIs[(n/len(regAPIs)+1)%len(regAPIs)]}})
	})
	permute(c01Pool, 2, func(pats []string) {
		defs := []refmodel.RouteDef{{Path: pats[0], Methods: []string{"GET", "POST"}}, {Path: pats[1], Methods: []string{"GET"}}}
		emit(c01Case{Routes: defs, Methods: reqM, Inspect: true})
		emit(c01Case{Routes: defs, Methods: reqM, Late: true})
	})
	permute(c01Pool, 2, withSets)
	// three routes over the core pool, the last one registered only after every path was looked up on the caching router
	permute(c01Core, 3, func(pats []string) {
		emit(c01Case{Routes: []refmodel.RouteDef{{Path: pats[0], Methods: []string{"GET"}}, {Path: pats[1], Methods: []string{"GET", "POST"}}, {Path: pats[2], Methods: []string{"GET"}}}, Methods: reqM, Late: true})
	})
	// HEAD requests against tables that mix HEAD-only and GET-only routes (a direct HEAD match beats the GET fallback)
	permute(c01Pool, 2, func(pats []string) {
		emit(c01Case{Routes: []refmodel.RouteDef{{Path: pats[0], Methods: []string{"GET"}}, {Path: pats[1], Methods: []string{"HEAD"}}}, Methods: []string{"HEAD", "GET"}})
		emit(c01Case{Routes: []refmodel.RouteDef{{Path: pats[0], Methods: []string{"HEAD", "POST"}}, {Path: pats[1], Methods: []string{"GET"}}}, Methods: []string{"HEAD"}})
	})
	// StrictLastSlash: single routes and ordered pairs over the strict pool (and the pairs of the main pool, all-GET)
	for _, p := range c01StrictPool {
		emit(c01Case{Routes: []refmodel.RouteDef{{Path: p, Methods: []string{"GET", "POST"}}}, Methods: reqM, Strict: true})
	}
	permute(c01StrictPool, 2, func(pats []string) {
		emit(c01Case{Routes: []refmodel.RouteDef{{Path: pats[0], Methods: []string{"GET"}}, {Path: pats[1], Methods: []string{"GET", "POST"}}}, Methods: reqM, Strict: true})
	})
	permute(c01Pool, 2, func(pats []string) {
		emit(c01Case{Routes: []refmodel.RouteDef{{Path: pats[0], Methods: []string{"GET"}}, {Path: pats[1], Methods: []string{"GET"}}}, Methods: []string{"GET"}, Strict: true})
	})
	// caching routers: every ordered pair of a single-method route and a two-method route, both ways round, with the
	// methods requested in both orders (an entry cached for one method must not answer for another)
	permute(c01Pool, 2, func(pats []string) {
		for _, single := range []string{"GET", "POST"} {
			emit(c01Case{Routes: []refmodel.RouteDef{{Path: pats[0], Methods: []string{single}}, {Path: pats[1], Methods: []string{"GET", "POST"}}}, Methods: []string{"GET", "POST"}, Cache: 64})
		}
		emit(c01Case{Routes: []refmodel.RouteDef{{Path: pats[0], Methods: []string{"GET", "POST"}}, {Path: pats[1], Methods: []string{"POST"}}}, Methods: []string{"POST", "GET"}, Cache: 2})
	})
	// literal text with adjacent dots: ordered pairs over a 7-pattern pool against every spelling with one dot replaced or dropped
	permute(c01DotPool, 2, func(pats []string) {
		emit(c01Case{Routes: []refmodel.RouteDef{{Path: pats[0], Methods: []string{"GET"}}, {Path: pats[1], Methods: []string{"GET"}}}, Methods: []string{"GET"}, Paths: c01DotPaths})
	})
	for _, p := range c01DotPool {
		emit(c01Case{Routes: []refmodel.RouteDef{{Path: p, Methods: []string{"GET"}}}, Methods: []string{"GET", "HEAD"}, Paths: c01DotPaths})
	}
	// StrictLastSlash together with InterceptAll, in both option orders: every request resolves as the target does
	permute(c01StrictPool, 2, func(pats []string) {
		for _, target := range []string{"/a/", "/a", "/a/1/", "/b//"} {
			for _, first := range []bool{false, true} {
				emit(c01Case{Routes: []refmodel.RouteDef{{Path: pats[0], Methods: []string{"GET"}}, {Path: pats[1], Methods: []string{"GET", "POST"}}}, Methods: []string{"GET", "POST"},
					Strict: true, Intercept: target, InterceptFirst: first, Paths: []string{"/", "/zz", "/a", "/a/"}})
			}
		}
	})
	// custom regexes on variables that are named like a global variable (all, any, num): the regex written in the route rules
	gv := []string{`/a/{num:0[0-9]+}`, `/a/{all:[a-z]+}`, `/a/{any:\d}`, "/a/{x}", `/a/{num:[a-c]+}/{all:\d}`}
	permute(gv, 2, func(pats []string) {
		emit(c01Case{Routes: []refmodel.RouteDef{{Path: pats[0], Methods: []string{"GET"}}, {Path: pats[1], Methods: []string{"GET"}}}, Methods: []string{"GET"},
			Paths: []string{"/a/007", "/a/7", "/a/abc", "/a/a/b", "/a/5", "/a/55", "/a/ABC", "/a/ab/1", "/a/ab/12", "/a/12/1"}})
	})
	// literal first segments of every length 40..80 bytes under all nine methods, next to a route that begins with a variable
	for L := 40; L <= 80; L++ {
		seg := strings.Repeat("s", L)
		emit(c01Case{Routes: []refmodel.RouteDef{{Path: "/{a}/{b}", Methods: refmodel.Methods}, {Path: "/" + seg + "/{x}", Methods: refmodel.Methods}, {Path: "/" + seg + "/z/{x}", Methods: []string{"GET", "OPTIONS"}}},
			Methods: refmodel.Methods, Paths: []string{"/" + seg + "/1", "/" + seg[1:] + "/1", "/" + seg + "s/1", "/" + seg + "/z/1", "/" + seg}})
	}
	// every all-GET ordered pair again with every path looked up 130 times in a row (hit counters, promotion thresholds)
	permute(c01Pool, 2, func(pats []string) {
		emit(c01Case{Routes: []refmodel.RouteDef{{Path: pats[0], Methods: []string{"GET"}}, {Path: pats[1], Methods: []string{"GET"}}}, Methods: []string{"GET"}, Repeat: 130})
	})
	if tier == "quick" {
		permute(c01Pool, 3, allGet)
	} else {
		// K = 3 with every assignment of the three basic method sets (the wider sets are covered for K <= 2)
		msets = c01MethodSets[:3]
		permute(c01Pool, 3, withSets)
		permute(c01Core, 4, allGet)
	}
}

func c01Run(c c01Case, st *fw.Stats) []fw.Viol {
	var viols []fw.Viol
	add := func(sig, msg string) {
		if len(viols) < 8 {
			viols = append(viols, fw.Viol{Sig: sig, Msg: msg})
		}
	}
	tb, err := refmodel.NewTable(c.Routes, refmodel.Opts{Strict: c.Strict, Intercept: c.Intercept})
	if err != nil {
		panic(err)
	}
	rec := &hitRec{}
	var r *rux.Router
	var pv any
	note := ""
	var full *refmodel.Table
	n := len(c.Routes) - 1
	if c.Late {
		full = tb
		if tb, err = refmodel.NewTable(c.Routes[:n], refmodel.Opts{}); err != nil {
			panic(err)
		}
		note = " (caching router; the last route is not registered yet)"
		r, pv = buildRouterVia(c.Routes[:n], c.Via, rec, rux.CachingWithNum(64))
	} else if c.Cache > 0 {
		note = fmt.Sprintf(" (route cache of capacity %d; methods requested in the order %v)", c.Cache, c.Methods)
		r, pv = buildRouterVia(c.Routes, c.Via, rec, rux.CachingWithNum(uint16(c.Cache)))
	} else if c.Intercept != "" {
		note = fmt.Sprintf(" (StrictLastSlash + InterceptAll(%q), InterceptAll listed first = %v)", c.Intercept, c.InterceptFirst)
		if c.InterceptFirst {
			r, pv = buildRouterVia(c.Routes, c.Via, rec, rux.InterceptAll(c.Intercept), rux.StrictLastSlash)
		} else {
			r, pv = buildRouterVia(c.Routes, c.Via, rec, rux.StrictLastSlash, rux.InterceptAll(c.Intercept))
		}
	} else if c.Strict {
		note = " (StrictLastSlash)"
		r, pv = buildRouterVia(c.Routes, c.Via, rec, rux.StrictLastSlash)
	} else {
		r, pv = buildRouterVia(c.Routes, c.Via, rec)
	}
	if pv != nil {
		add("register:panic", fmt.Sprintf("table [%s] (registered via %v): registration panicked: %v", defsString(c.Routes), c.Via, pv))
		return viols
	}
	if c.Inspect {
		c02Inspect(r)
		note = " (after the router was inspected with String / Routes / IterateRoutes / NamedRoutes)"
	}
	c01Requests(c, r, rec, tb, note, st, add)
	if c.Cache > 0 && len(viols) == 0 {
		c2 := c
		c2.Methods = nil
		for i := len(c.Methods) - 1; i >= 0; i-- {
			c2.Methods = append(c2.Methods, c.Methods[i])
		}
		c01Requests(c2, r, rec, tb, fmt.Sprintf(" (route cache of capacity %d; second pass, methods in the order %v after a pass in the order %v)", c.Cache, c2.Methods, c.Methods), st, add)
	}
	if c.Repeat > 0 && len(viols) == 0 {
		for _, p := range c01Paths {
			want := tb.Resolve("GET", p).Route
			for k := 0; k < c.Repeat; k++ {
				st.Evals++
				got := -9
				if pv := try(func() { rt, _, _ := r.Match("GET", p); got = routeIdx(rt) }); pv != nil || got != want {
					add("select:changed-by-repetition", fmt.Sprintf("table [%s]: GET %q looked up %d times in a row after every path had been requested once: lookup #%d is dispatched to route %d (panic %v), the documented rule selects %d", defsString(c.Routes), p, c.Repeat, k+1, got, pv, want))
					break
				}
			}
		}
		c01Requests(c, r, rec, tb, fmt.Sprintf(" (after every GET path was looked up %d times in a row)", c.Repeat), st, add)
	}
	if c.Late && len(viols) == 0 {
		// second round: register the last route, issue every request again
		if _, pv2 := registerIntoAt(r, c.Routes, c.Via, false, rec, n); pv2 != nil {
			add("register:panic", fmt.Sprintf("table [%s]: registering the last route after the first requests panicked: %v", defsString(c.Routes), pv2))
		} else {
			c01Requests(c, r, rec, full, " (caching router; the last route was registered after every request had been issued once)", st, add)
		}
	}
	if st.WantSample() {
		st.Sample(map[string]any{"table": defsString(c.Routes), "request_methods": strings.Join(c.Methods, ","), "paths": len(c01Paths), "example_paths": c01Paths[:8]})
	}
	return viols
}

// c01Requests issues every method x path on the router and compares with the table
func c01Requests(c c01Case, r *rux.Router, rec *hitRec, tb *refmodel.Table, note string, st *fw.Stats, add func(sig, msg string)) {
	paths := c01Paths
	if c.Strict {
		paths = c01PathsSlash
	}
	if c.Paths != nil {
		paths = c.Paths
	}
	for _, m := range c.Methods {
		for _, p := range paths {
			st.Evals++
			want := tb.Resolve(m, p)
			var gotIdx int
			var ps map[string]string
			if pv := try(func() {
				rt, params, _ := r.Match(m, p)
				gotIdx = routeIdx(rt)
				ps = params
			}); pv != nil {
				add("match:panic", fmt.Sprintf("table [%s]: Match(%s,%q) panicked: %v", defsString(c.Routes), m, p, pv))
				continue
			}
			q := tb.Qualifying(m, want.Path)
			if len(q) >= 2 || (want.Route > 0) {
				st.Nontrivial++
			}
			// QuickMatch (no upper-casing of the method) must agree with Match for upper-case methods
			if pv := try(func() {
				rt2, _, _ := r.QuickMatch(m, p)
				if routeIdx(rt2) != gotIdx {
					add("quickmatch:differs", fmt.Sprintf("table [%s]: QuickMatch(%s,%q) -> route %d, Match -> route %d", defsString(c.Routes), m, p, routeIdx(rt2), gotIdx))
				}
			}); pv != nil {
				add("match:panic", fmt.Sprintf("table [%s]: QuickMatch(%s,%q) panicked: %v", defsString(c.Routes), m, p, pv))
			}
			if gotIdx != want.Route {
				var wp, gp *refmodel.Pattern
				if want.Route >= 0 {
					wp = tb.Pats[want.Route]
				}
				if gotIdx >= 0 {
					gp = tb.Pats[gotIdx]
				}
				rel := ""
				if want.Route >= 0 && gotIdx >= 0 {
					if gotIdx > want.Route {
						rel = ":got-later"
					} else {
						rel = ":got-earlier"
					}
				}
				sig := fmt.Sprintf("select:want=%s:got=%s%s", tierName(wp), tierName(gp), rel)
				if want.Route >= 0 && wp.P != nil && len(wp.Vars) == 0 && wp.FirstSeg != "" {
					sig += ":want-novar-optional-multiseg"
				}
				add(sig, fmt.Sprintf("table [%s]%s"+note+": %s %q: dispatched to route %d, the documented rule selects %d (qualifying routes %v, %s)", defsString(c.Routes), viaNote(c.Via), m, p, gotIdx, want.Route, q, want.Kind))
				continue
			}
			if gotIdx >= 0 {
				if e := checkParams(tb.Pats[gotIdx], want.Path, ps); e != "" {
					add("params:match", fmt.Sprintf("table [%s]: %s %q -> route %d: %s", defsString(c.Routes), m, p, gotIdx, e))
				}
			}
			// which handler actually runs (one method is enough: the dispatch path is method independent)
			if m == "GET" {
				rec.idx, rec.n = -1, 0
				resp, pv := serve(r, m, p)
				if pv != nil {
					add("serve:panic", fmt.Sprintf("table [%s]: ServeHTTP(%s %q) panicked: %v", defsString(c.Routes), m, p, pv))
					continue
				}
				if want.Route >= 0 {
					if rec.n != 1 || rec.idx != want.Route {
						add("serve:handler", fmt.Sprintf("table [%s]: ServeHTTP(%s %q): handler of route %d ran %d time(s), expected route %d once", defsString(c.Routes), m, p, rec.idx, rec.n, want.Route))
					} else if exp := fmt.Sprintf("%d|%s", want.Route, canonParams(ps)); resp.Body.String() != exp {
						add("serve:params", fmt.Sprintf("table [%s]: ServeHTTP(%s %q): handler saw %q, Match reported %q", defsString(c.Routes), m, p, resp.Body.String(), exp))
					}
				} else if rec.n != 0 || resp.Code != 404 {
					add("serve:notfound", fmt.Sprintf("table [%s]: ServeHTTP(%s %q): expected 404 and no handler, got status %d, %d handler run(s)", defsString(c.Routes), m, p, resp.Code, rec.n))
				}
			}
		}
	}
}

var c01Spec = fw.Spec[c01Case]{
	ID:    "C01",
	Level: "model_checking",
	Rule: "complete product: ordered route tables of <=K distinct patterns from a 27-pattern pool (every index/tier shortcut has colliding members) x method sets x registration APIs (Add, AddRoute(NewRoute), AddNamed, NewNamedRoute.AttachTo, GET/POST/... helpers, options via WithOptions, the pattern split into a Group prefix and a route path) (+ HEAD requests against every ordered pair of a GET-only and a HEAD-only route) (+ StrictLastSlash tables: ordered pairs over an 11-pattern pool of routes that end in '/' or whose tail may be empty, and the pairs of the main pool, with every path also requested with a trailing slash) (+ on caching routers every ordered pair of a one-method and a two-method route with the methods requested in both orders) (+ ordered pairs over 7 patterns whose literal text holds adjacent dots against every spelling with one dot replaced or dropped) (+ StrictLastSlash tables with InterceptAll in both option orders) (+ custom regexes on variables named like the global variables) (+ literal first segments of every length 40..80 bytes under all nine methods next to a route that begins with a variable) (+ every all-GET ordered pair again with every path looked up 130 times in a row and the whole pass repeated afterwards) (+ every ordered pair again after the router's inspection API was used, and on a caching router with the second route registered only after a first round of all requests; every ordered triple over the 10-pattern core pool with the third route registered that late; every route also through a group mounted at the site root) x request methods x all 259 paths of <=3 segments over {a,b,a.b,axb,12,q.html}; " +
		"each (table,method,path) is one evaluation: Router.Match and ServeHTTP on the real router vs refmodel.Resolve; non-trivial = at least two routes qualify or the winner is not the first registered route",
	Assume: []string{
		"patterns and paths are drawn from the stated alphabets; larger tables are covered only as far as the small-scope hypothesis goes",
		"route identity is carried in Route.Opts, which rux copies but never reads",
	},
	Bounds: func(tier string) map[string]any {
		if tier == "quick" {
			return map[string]any{"pool": len(c01Pool), "K": "1..2 with all method sets {GET},{POST},{GET,POST},{PUT,DELETE,GET}; 3 all-GET", "request_methods": "GET,POST,PUT", "paths": len(c01Paths)}
		}
		return map[string]any{"pool": len(c01Pool), "K": "1..2 with method sets {GET},{POST},{GET,POST},{HEAD},{all 9}; 3 with {GET},{POST},{GET,POST}; 4 all-GET over the 10-pattern core pool", "request_methods": "GET,POST,PUT,HEAD", "paths": len(c01Paths)}
	},
	Gen: c01Gen,
	Run: c01Run,
	Guard: func(tier string, st *fw.Stats) []string {
		if st.Nontrivial == 0 {
			return []string{"no request had two qualifying routes"}
		}
		return nil
	},
	Batch: 8,
}

func viaNote(via []string) string {
	if len(via) == 0 {
		return ""
	}
	return fmt.Sprintf(" (registered via %v)", via)
}

func init() {
	Registry["C01"] = func(args []string) int { return fw.Main(c01Spec, args) }
}
