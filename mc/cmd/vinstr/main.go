// vinstr writes a `go build -overlay` description that
//   - replaces "sync" / "container/list" in package rux by the verification
//     runtime shims (github.com/gookit/rux/vrt and .../vrt/vlist),
//   - inserts a scheduling point vrtY.Y(id) before the statements of every
//     function body and function literal (-stmt all | visible | none),
//   - adds the virtual package directory <repo>/vrt -> the vrt sources.
//
// The rewrites are textual insertions at AST positions (like `go tool cover`),
// so line structure and comments are untouched. Sources are read from the
// repository's *current* working tree; nothing is written there.
package main

import (
	"encoding/json"
	"flag"
	"fmt"
	"go/ast"
	"go/parser"
	"go/token"
	"os"
	"path/filepath"
	"sort"
	"strconv"
	"strings"
)

type edit struct {
	off  int
	text string
	del  int // bytes to delete at off
}

func main() {
	repo := flag.String("repo", "/repo", "")
	vrtDir := flag.String("vrt", "", "")
	out := flag.String("out", "", "")
	mode := flag.String("stmt", "visible", "all | visible | none")
	flag.Parse()
	if err := os.MkdirAll(*out, 0o755); err != nil {
		fatal(err)
	}
	replace := map[string]string{}
	// the root package and every library package below it (requests run through pkg/render, pkg/binding, ...)
	var files []string
	_ = filepath.Walk(*repo, func(p string, info os.FileInfo, err error) error {
		if err != nil {
			return nil
		}
		if info.IsDir() {
			b := info.Name()
			if p != *repo && (strings.HasPrefix(b, ".") || strings.HasPrefix(b, "_") || b == "testdata" || b == "vrt" || b == "vendor") {
				return filepath.SkipDir
			}
			return nil
		}
		if strings.HasSuffix(p, ".go") && !strings.HasSuffix(p, "_test.go") {
			files = append(files, p)
		}
		return nil
	})
	sort.Strings(files)
	// package-level variables per directory (for the write monitor)
	pkgVars := map[string]map[string]bool{}
	for _, f := range files {
		af, err := parser.ParseFile(token.NewFileSet(), f, nil, 0)
		if err != nil {
			fatal(err)
		}
		dir := filepath.Dir(f)
		if pkgVars[dir] == nil {
			pkgVars[dir] = map[string]bool{}
		}
		for _, d := range af.Decls {
			if gd, ok := d.(*ast.GenDecl); ok && gd.Tok == token.VAR {
				for _, sp := range gd.Specs {
					for _, n := range sp.(*ast.ValueSpec).Names {
						if n.Name != "_" {
							pkgVars[dir][n.Name] = true
						}
					}
				}
			}
		}
	}
	nextID := 0
	total := 0
	nW := 0
	for _, f := range files {
		src, err := os.ReadFile(f)
		if err != nil {
			fatal(err)
		}
		fset := token.NewFileSet()
		af, err := parser.ParseFile(fset, f, src, parser.ParseComments)
		if err != nil {
			fatal(err)
		}
		if af.Name.Name == "main" || (filepath.Dir(f) == *repo && af.Name.Name != "rux") {
			continue
		}
		vars := pkgVars[filepath.Dir(f)]
		topSpecs := map[any]bool{}
		for _, d := range af.Decls {
			if gd, ok := d.(*ast.GenDecl); ok && gd.Tok == token.VAR {
				for _, sp := range gd.Specs {
					topSpecs[sp] = true
				}
			}
		}
		// receiver names of methods on *Router, by body
		routerRecv := map[*ast.BlockStmt]string{}
		for _, d := range af.Decls {
			fd, ok := d.(*ast.FuncDecl)
			if !ok || fd.Recv == nil || fd.Body == nil || len(fd.Recv.List) != 1 || len(fd.Recv.List[0].Names) != 1 {
				continue
			}
			if st, ok := fd.Recv.List[0].Type.(*ast.StarExpr); ok {
				if id, ok := st.X.(*ast.Ident); ok && id.Name == "Router" {
					routerRecv[fd.Body] = fd.Recv.List[0].Names[0].Name
				}
			}
		}
		var edits []edit
		pkgNames := map[string]bool{}
		for _, im := range af.Imports {
			p, _ := strconv.Unquote(im.Path.Value)
			name := filepath.Base(p)
			if im.Name != nil {
				name = im.Name.Name
			}
			pkgNames[name] = true
			var repl string
			switch p {
			case "sync":
				repl = `"github.com/gookit/rux/vrt"`
			case "container/list":
				repl = `"github.com/gookit/rux/vrt/vlist"`
			default:
				continue
			}
			off := fset.Position(im.Path.Pos()).Offset
			prefix := ""
			if im.Name == nil {
				prefix = name + " "
			}
			edits = append(edits, edit{off: off, text: prefix + repl, del: len(im.Path.Value)})
		}
		n := 0
		// statements inside methods of *Router -> the receiver's name
		recvOf := map[ast.Stmt]string{}
		for body, name := range routerRecv {
			name := name
			ast.Inspect(body, func(nd ast.Node) bool {
				if st, ok := nd.(ast.Stmt); ok {
					recvOf[st] = name
				}
				return true
			})
		}
		wEdits := 0
		if *mode != "none" {
			addList := func(list []ast.Stmt) {
				for _, s := range list {
					// write monitor: assignments to package-level variables and to fields of the Router
					var lhs []ast.Expr
					switch x := s.(type) {
					case *ast.AssignStmt:
						if x.Tok != token.DEFINE {
							lhs = x.Lhs
						}
					case *ast.IncDecStmt:
						lhs = []ast.Expr{x.X}
					}
					for _, l := range lhs {
						base := chainPrefix(l)
						if base == nil {
							continue
						}
						root := base
						for {
							if sel, ok := root.(*ast.SelectorExpr); ok {
								root = sel.X
								continue
							}
							break
						}
						id := root.(*ast.Ident)
						shared := false
						if vars[id.Name] && (id.Obj == nil || topSpecs[id.Obj.Decl]) && !pkgNames[id.Name] {
							shared = true
						} else if rn := recvOf[s]; rn != "" && id.Name == rn && base != root {
							shared = true
						}
						if !shared {
							continue
						}
						txt := string(src[fset.Position(base.Pos()).Offset:fset.Position(base.End()).Offset])
						pos := fset.Position(s.Pos())
						edits = append(edits, edit{off: pos.Offset, text: fmt.Sprintf("vrtY.W(&(%s), %q); ", txt, fmt.Sprintf("%s (written at %s:%d)", txt, filepath.Base(f), pos.Line))})
						wEdits++
					}
					if *mode == "visible" && !visible(s, pkgNames) {
						continue
					}
					off := fset.Position(s.Pos()).Offset
					edits = append(edits, edit{off: off, text: fmt.Sprintf("vrtY.Y(%d); ", nextID)})
					nextID++
					n++
				}
			}
			skip := map[*ast.BlockStmt]bool{} // bodies of switch / select hold clauses, not statements
			ast.Inspect(af, func(nd ast.Node) bool {
				switch x := nd.(type) {
				case *ast.SwitchStmt:
					skip[x.Body] = true
				case *ast.TypeSwitchStmt:
					skip[x.Body] = true
				case *ast.SelectStmt:
					skip[x.Body] = true
				case *ast.BlockStmt:
					if !skip[x] {
						addList(x.List)
					}
				case *ast.CaseClause:
					addList(x.Body)
				case *ast.CommClause:
					addList(x.Body)
				}
				return true
			})
		}
		nW += wEdits
		if n > 0 || wEdits > 0 {
			// an extra import declaration right after the package clause
			off := fset.Position(af.Name.End()).Offset
			edits = append(edits, edit{off: off, text: "; import vrtY \"github.com/gookit/rux/vrt\""})
		}
		if len(edits) == 0 {
			continue
		}
		total += n
		sort.SliceStable(edits, func(i, j int) bool { return edits[i].off > edits[j].off })
		b := append([]byte(nil), src...)
		for _, e := range edits {
			b = append(b[:e.off], append([]byte(e.text), b[e.off+e.del:]...)...)
		}
		rel, _ := filepath.Rel(*repo, f)
		dst := filepath.Join(*out, strings.ReplaceAll(rel, string(filepath.Separator), "__"))
		if err := os.WriteFile(dst, b, 0o644); err != nil {
			fatal(err)
		}
		replace[f] = dst
	}
	// the virtual package directories
	err := filepath.Walk(*vrtDir, func(p string, info os.FileInfo, err error) error {
		if err != nil || info.IsDir() || !strings.HasSuffix(p, ".go") || strings.HasSuffix(p, "_test.go") {
			return err
		}
		rel, _ := filepath.Rel(*vrtDir, p)
		replace[filepath.Join(*repo, "vrt", rel)] = p
		return nil
	})
	if err != nil {
		fatal(err)
	}
	ov, _ := json.MarshalIndent(map[string]any{"Replace": replace}, "", " ")
	if err := os.WriteFile(filepath.Join(*out, "overlay.json"), ov, 0o644); err != nil {
		fatal(err)
	}
	fmt.Printf("vinstr: %d files rewritten, %d scheduling points (mode %s), %d monitored writes\n", len(replace), total, *mode, nW)
}

func fatal(err error) {
	fmt.Fprintln(os.Stderr, "vinstr:", err)
	os.Exit(1)
}

// visible: the statement (its header, for compound statements) contains a selector expression whose root is
// not an imported package name, i.e. it can touch a field or method of some value.
func visible(s ast.Stmt, pkgs map[string]bool) bool {
	var parts []ast.Node
	switch x := s.(type) {
	case *ast.LabeledStmt:
		return visible(x.Stmt, pkgs)
	case *ast.BlockStmt:
		return false
	case *ast.IfStmt:
		parts = []ast.Node{x.Init, x.Cond}
	case *ast.ForStmt:
		parts = []ast.Node{x.Init, x.Cond, x.Post}
	case *ast.RangeStmt:
		parts = []ast.Node{x.Key, x.Value, x.X}
	case *ast.SwitchStmt:
		parts = []ast.Node{x.Init, x.Tag}
	case *ast.TypeSwitchStmt:
		parts = []ast.Node{x.Init, x.Assign}
	case *ast.SelectStmt:
		return true
	default:
		parts = []ast.Node{s}
	}
	found := false
	for _, p := range parts {
		if p == nil || isNilNode(p) {
			continue
		}
		ast.Inspect(p, func(n ast.Node) bool {
			if found {
				return false
			}
			if sel, ok := n.(*ast.SelectorExpr); ok {
				root := sel.X
				for {
					if in, ok := root.(*ast.SelectorExpr); ok {
						root = in.X
						continue
					}
					break
				}
				if id, ok := root.(*ast.Ident); ok && pkgs[id.Name] && id.Obj == nil {
					return true // package-qualified name; keep looking inside arguments
				}
				found = true
				return false
			}
			// index / slice expressions on shared slices and maps are visible too
			switch n.(type) {
			case *ast.IndexExpr, *ast.SliceExpr:
				found = true
				return false
			}
			return true
		})
	}
	return found
}

// chainPrefix returns the longest prefix of the assigned expression that is a pure selector chain x.a.b (index, slice,
// dereference and parentheses are looked through); nil when the expression is not rooted at an identifier
func chainPrefix(e ast.Expr) ast.Expr {
	switch x := e.(type) {
	case *ast.Ident:
		if x.Name == "_" {
			return nil
		}
		return x
	case *ast.SelectorExpr:
		p := chainPrefix(x.X)
		if p == x.X {
			return x
		}
		return p
	case *ast.IndexExpr:
		return chainPrefix(x.X)
	case *ast.SliceExpr:
		return chainPrefix(x.X)
	case *ast.StarExpr:
		return chainPrefix(x.X)
	case *ast.ParenExpr:
		return chainPrefix(x.X)
	}
	return nil
}

func isNilNode(n ast.Node) bool {
	switch x := n.(type) {
	case ast.Stmt:
		return x == nil
	case ast.Expr:
		return x == nil
	}
	return false
}
