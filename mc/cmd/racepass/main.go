// racepass: the free-running pass of C03. The same harness bodies as the
// controlled-scheduler exploration, run on real goroutines with the real sync
// package under Go's race detector (build with -race). It reports responses
// that differ from the solo observation; race reports go to stderr.
package main

import (
	"encoding/json"
	"flag"
	"fmt"
	"os"
	"sync"

	"verif/mc/c03scen"
)

type result struct {
	Shapes     int      `json:"shapes"`
	Goroutines int      `json:"goroutines"`
	Iterations int      `json:"iterations_per_goroutine"`
	Requests   int64    `json:"requests"`
	Mismatches int64    `json:"mismatches"`
	First      []string `json:"first_mismatches,omitempty"`
}

func main() {
	thorough := flag.Bool("thorough", false, "")
	iters := flag.Int("iters", 300, "")
	g := flag.Int("goroutines", 8, "")
	only := flag.Int("shape", -1, "")
	flag.Parse()
	shapes := c03scen.Shapes(*thorough)
	res := result{Goroutines: *g, Iterations: *iters}
	var mu sync.Mutex
	for si, sh := range shapes {
		if *only >= 0 && si != *only {
			continue
		}
		res.Shapes++
		// solo expectations: each kind alone on a fresh identical router
		exp := make([]string, len(c03scen.Kinds))
		for i, q := range c03scen.Kinds {
			exp[i] = c03scen.Serve(c03scen.Build(sh), q)
		}
		r := c03scen.Build(sh)
		var wg sync.WaitGroup
		for t := 0; t < *g; t++ {
			wg.Add(1)
			go func(t int) {
				defer wg.Done()
				var n, bad int64
				var first []string
				for it := 0; it < *iters; it++ {
					for k := range c03scen.Kinds {
						i := (k + t) % len(c03scen.Kinds)
						got := c03scen.Serve(r, c03scen.Kinds[i])
						n++
						if got != exp[i] {
							bad++
							if len(first) < 2 {
								first = append(first, fmt.Sprintf("shape{%s} %s: observed %s, alone it observes %s", sh, c03scen.Kinds[i], got, exp[i]))
							}
						}
					}
				}
				mu.Lock()
				res.Requests += n
				res.Mismatches += bad
				if len(res.First) < 4 {
					res.First = append(res.First, first...)
				}
				mu.Unlock()
			}(t)
		}
		wg.Wait()
	}
	b, _ := json.Marshal(res)
	fmt.Println(string(b))
	if res.Mismatches > 0 {
		os.Exit(3)
	}
}
