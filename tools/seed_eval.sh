#!/bin/bash
# tools/seed_eval.sh <seed dir> <i> <name> <property> <tier> <check id>...
# Confirms an independently written seeded change (suite passes with it, demo fails with it and passes without it),
# runs the listed checks against it and files it under /verif/seeded/<name>/.
set -u
SD="$1"; I="$2"; NAME="$3"; PROP="$4"; TIER="$5"; shift 5
HERE="$(cd "$(dirname "${BASH_SOURCE[0]}")/.." && pwd)"
PATCH="$SD/patch_$I.diff"; DEMO="$SD/demo_${I}_test.go"; NOTES="$SD/notes_$I.txt"
export GOFLAGS=-mod=mod GOPROXY=off GOSUMDB=off GOTOOLCHAIN=local
WT="$(mktemp -d /tmp/rux-seed.XXXXXX)"
cleanup() { git -C /repo worktree remove --force "$WT" >/dev/null 2>&1; rm -rf "$WT"; git -C /repo worktree prune; }
trap cleanup EXIT
git -C /repo worktree add --detach -q "$WT" HEAD || exit 2
PKGDIR="."
if grep -q "^package handlers" "$DEMO"; then PKGDIR="pkg/handlers"; fi
if grep -q "^package binding" "$DEMO"; then PKGDIR="pkg/binding"; fi
if grep -q "^package render" "$DEMO"; then PKGDIR="pkg/render"; fi
cp "$DEMO" "$WT/$PKGDIR/zz_seed_demo_test.go"
TESTS=$(grep -o "^func Test[A-Za-z0-9_]*" "$DEMO" | sed 's/func //' | paste -sd'|')
demo_clean=$( cd "$WT/$PKGDIR" && go test -vet=off -count=1 -run "^($TESTS)\$" . >/dev/null 2>&1 && echo pass || echo fail )
if ! git -C "$WT" apply "$PATCH" 2>/tmp/apply.$$.err; then
  if ! git -C "$WT" apply --3way "$PATCH" 2>>/tmp/apply.$$.err; then echo "SEED $NAME: patch does not apply: $(cat /tmp/apply.$$.err | head -3)"; rm -f /tmp/apply.$$.err; exit 2; fi
fi
rm -f /tmp/apply.$$.err
demo_mut=$( cd "$WT/$PKGDIR" && go test -vet=off -count=1 -run "^($TESTS)\$" . >/dev/null 2>&1 && echo pass || echo fail )
rm -f "$WT/$PKGDIR/zz_seed_demo_test.go"
git -C "$WT" diff HEAD > "$WT/.rebased.diff"
suite=$( cd "$WT" && go test -vet=off -count=1 ./... >/tmp/suite.$$.log 2>&1 && echo pass || echo fail ); 
[ "$suite" = fail ] && grep -E "^(--- FAIL|FAIL)" /tmp/suite.$$.log | head -5
rm -f /tmp/suite.$$.log
echo "SEED $NAME: suite_with_change=$suite demo_with_change=$demo_mut demo_without=$demo_clean"
results=""
for id in "$@"; do
  out="$(VERIF_REPO="$WT" VERIF_OUT="$WT/.verif-out" "$HERE/bin/check" "$id" "$TIER" 2>&1)"; code=$?
  if [ $code = 1 ] && grep -q "^VIOLATION property=$id" <<<"$out"; then
    echo "SEED $NAME: $id CAUGHT: $(grep -A2 "^VIOLATION" <<<"$out" | sed -n '2,3p' | tr '\n' ' ' | cut -c1-500)"
    results="$results $id:caught"
  else
    echo "SEED $NAME: $id MISSED (exit $code): $(tail -2 <<<"$out" | tr '\n' ' ' | cut -c1-300)"
    results="$results $id:missed"
  fi
done
if [ "$suite" = pass ] && [ "$demo_mut" = fail ] && [ "$demo_clean" = pass ]; then
  D="$HERE/seeded/$NAME"; mkdir -p "$D"
  cp "$WT/.rebased.diff" "$D/patch.diff"; cp "$DEMO" "$D/demo_test.go"; [ -f "$NOTES" ] && cp "$NOTES" "$D/notes.txt"
  python3 - "$D" "$NAME" "$PROP" "$TIER" "$results" "$PKGDIR" <<'PY'
import json,sys,os
d,name,prop,tier,results,pkg=sys.argv[1:7]
notes=open(os.path.join(d,'notes.txt')).read() if os.path.exists(os.path.join(d,'notes.txt')) else ''
meta={"name":name,"breaks_property":prop,"source":"independent sub-agent given only the property text and a scratch worktree",
 "needs_to_manifest":notes.strip()[:1500],
 "confirmed":{"suite_passes_with_change":True,"demo_fails_with_change":True,"demo_passes_without_change":True,"demo_package_dir":pkg,
   "how":"tools/seed_eval.sh: fresh worktree of /repo HEAD; go test -run <demo tests> before and after git apply patch; go test ./... with the change"},
 "checks_run":{r.split(':')[0]:r.split(':')[1] for r in results.split()}, "tier":tier}
json.dump(meta,open(os.path.join(d,'meta.json'),'w'),indent=1)
PY
  echo "SEED $NAME: kept in seeded/$NAME"
else
  echo "SEED $NAME: NOT KEPT (confirmation failed)"
fi
