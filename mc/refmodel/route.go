package refmodel

import (
	"fmt"
	"regexp"
	"sort"
	"strings"
	"sync"
	"sync/atomic"
)

// ---------------------------------------------------------------------------
// Path normalisation (C11): trim surrounding white space once; unless strict,
// strip all trailing '/'; exactly one leading '/'; empty means "/".
// ---------------------------------------------------------------------------

func Norm(path string, strict bool) string {
	p := strings.TrimSpace(path)
	if !strict {
		for len(p) > 0 && p[len(p)-1] == '/' {
			p = p[:len(p)-1]
		}
	}
	i := 0
	for i < len(p) && p[i] == '/' {
		i++
	}
	p = p[i:]
	return "/" + p
}

// ---------------------------------------------------------------------------
// Pattern grammar (documented): literal text, {name}, {name:regex}, nested
// trailing optional parts [...]; '.' is literal.
// ---------------------------------------------------------------------------

type TokKind int

const (
	TLit TokKind = iota
	TVar
)

type Tok struct {
	Kind TokKind
	Lit  string
	Name string
	Re   string         // source regex of the variable
	re   *regexp.Regexp // ^(?:Re)$
	// NoSlash is true when the variable can provably not span '/' (default, any, num)
	NoSlash bool
}

// Pat is a sequence of tokens followed by an optional (nested) trailing part.
type Pat struct {
	Seq []Tok
	Opt *Pat
}

type Pattern struct {
	Path   string // normalised registered path
	Static bool
	P      *Pat
	Vars   []string
	// FirstSeg is the complete literal first segment when the pattern begins
	// with "/<literal>/" before any variable or optional part, else "".
	FirstSeg string

	memo  sync.Map
	memoN atomic.Int64
}

var GlobalVars = map[string]string{"all": `.*`, "any": `[^/]+`, "num": `[1-9][0-9]*`}

// ParsePattern parses an already normalised path. It returns an error for
// patterns outside the documented grammar (unbalanced, optional not trailing…).
func ParsePattern(path string) (*Pattern, error) {
	pt := &Pattern{Path: path}
	if !strings.ContainsAny(path, "{[") {
		pt.Static = true
		return pt, nil
	}
	pos := 0
	var parse func(depth int) (*Pat, error)
	parse = func(depth int) (*Pat, error) {
		p := &Pat{}
		var lit strings.Builder
		flush := func() {
			if lit.Len() > 0 {
				p.Seq = append(p.Seq, Tok{Kind: TLit, Lit: lit.String()})
				lit.Reset()
			}
		}
		for pos < len(path) {
			c := path[pos]
			switch c {
			case '{':
				// the variable extends to the last '}' of this path segment
				end := strings.IndexByte(path[pos:], '/')
				seg := path[pos:]
				if end >= 0 {
					seg = path[pos : pos+end]
				}
				close := strings.LastIndexByte(seg, '}')
				if close < 2 {
					return nil, fmt.Errorf("unterminated variable at %d", pos)
				}
				body := seg[1:close]
				flush()
				t := Tok{Kind: TVar}
				if i := strings.IndexByte(body, ':'); i > 0 {
					t.Name = strings.TrimSpace(body[:i])
					t.Re = strings.TrimSpace(body[i+1:])
				} else {
					t.Name = body
					if g, ok := GlobalVars[body]; ok {
						t.Re = g
					} else {
						t.Re = `[^/]+`
					}
					t.NoSlash = t.Re != `.*`
				}
				re, err := regexp.Compile("^(?:" + t.Re + ")$")
				if err != nil {
					return nil, err
				}
				t.re = re
				pt.Vars = append(pt.Vars, t.Name)
				p.Seq = append(p.Seq, t)
				pos += close + 1
			case '[':
				flush()
				pos++
				sub, err := parse(depth + 1)
				if err != nil {
					return nil, err
				}
				p.Opt = sub
				// after the optional part only closing brackets of enclosing parts may follow
				if depth == 0 {
					if pos != len(path) {
						return nil, fmt.Errorf("optional part is not at the end")
					}
					return p, nil
				}
				if pos >= len(path) || path[pos] != ']' {
					return nil, fmt.Errorf("optional part is not at the end")
				}
				pos++
				return p, nil
			case ']':
				if depth == 0 {
					return nil, fmt.Errorf("unbalanced ]")
				}
				flush()
				pos++
				return p, nil
			default:
				lit.WriteByte(c)
				pos++
			}
		}
		if depth > 0 {
			return nil, fmt.Errorf("unbalanced [")
		}
		flush()
		return p, nil
	}
	p, err := parse(0)
	if err != nil {
		return nil, err
	}
	pt.P = p
	// literal prefix before the first variable / optional part
	prefix := ""
	if len(p.Seq) > 0 && p.Seq[0].Kind == TLit {
		prefix = p.Seq[0].Lit
	}
	if len(prefix) > 1 {
		if i := strings.IndexByte(prefix[1:], '/'); i > 0 {
			pt.FirstSeg = prefix[1 : i+1]
		}
	}
	return pt, nil
}

// MatchAll returns every decomposition of path by the pattern (variable ->
// value; variables of an absent optional part map to ""). A static pattern
// yields one empty decomposition when equal.
func (pt *Pattern) MatchAll(path string, limit int) []map[string]string {
	if pt.Static {
		if pt.Path == path {
			return []map[string]string{{}}
		}
		return nil
	}
	var out []map[string]string
	cur := map[string]string{}
	var allVars func(p *Pat, f func(string))
	allVars = func(p *Pat, f func(string)) {
		if p == nil {
			return
		}
		for _, t := range p.Seq {
			if t.Kind == TVar {
				f(t.Name)
			}
		}
		allVars(p.Opt, f)
	}
	var rec func(p *Pat, i int, pos int)
	rec = func(p *Pat, i int, pos int) {
		if limit > 0 && len(out) >= limit {
			return
		}
		if i == len(p.Seq) {
			// optional part absent
			if pos == len(path) {
				m := map[string]string{}
				for k, v := range cur {
					m[k] = v
				}
				allVars(p.Opt, func(n string) {
					if _, ok := m[n]; !ok {
						m[n] = ""
					}
				})
				out = append(out, m)
			}
			// optional part present
			if p.Opt != nil {
				rec(p.Opt, 0, pos)
			}
			return
		}
		t := p.Seq[i]
		if t.Kind == TLit {
			if strings.HasPrefix(path[pos:], t.Lit) {
				rec(p, i+1, pos+len(t.Lit))
			}
			return
		}
		for end := pos; end <= len(path); end++ {
			var ok bool
			if t.Re == `[^/]+` { // fast path for the default segment variable
				if end > pos && path[end-1] == '/' {
					break
				}
				ok = end > pos
			} else {
				ok = t.re.MatchString(path[pos:end])
			}
			if ok {
				old, had := cur[t.Name]
				cur[t.Name] = path[pos:end]
				rec(p, i+1, end)
				if had {
					cur[t.Name] = old
				} else {
					delete(cur, t.Name)
				}
			}
		}
	}
	rec(pt.P, 0, 0)
	return out
}

// Matches tells whether at least one decomposition exists (memoised per pattern).
func (pt *Pattern) Matches(path string) bool {
	if pt.Static {
		return pt.Path == path
	}
	if v, ok := pt.memo.Load(path); ok {
		return v.(bool)
	}
	r := len(pt.MatchAll(path, 1)) > 0
	if pt.memoN.Add(1) < 100000 {
		pt.memo.Store(path, r)
	}
	return r
}

var patCache sync.Map

// CachedPattern parses a normalised path once per process.
func CachedPattern(path string) (*Pattern, error) {
	if v, ok := patCache.Load(path); ok {
		e := v.(patEntry)
		return e.p, e.err
	}
	p, err := ParsePattern(path)
	patCache.Store(path, patEntry{p, err})
	return p, err
}

type patEntry struct {
	p   *Pattern
	err error
}

// ---------------------------------------------------------------------------
// Resolver (C01, C06)
// ---------------------------------------------------------------------------

var Methods = []string{"GET", "POST", "PUT", "PATCH", "DELETE", "OPTIONS", "HEAD", "CONNECT", "TRACE"}

type RouteDef struct {
	Path    string   `json:"path"`
	Methods []string `json:"methods"`
}

type Opts struct {
	Strict     bool   `json:"strict,omitempty"`
	NotAllowed bool   `json:"not_allowed,omitempty"`
	Fallback   bool   `json:"fallback,omitempty"`
	Intercept  string `json:"intercept,omitempty"`
}

type Table struct {
	Routes []RouteDef
	Pats   []*Pattern
	Opts   Opts
}

func NewTable(defs []RouteDef, o Opts) (*Table, error) {
	t := &Table{Routes: defs, Opts: o}
	for _, d := range defs {
		p, err := CachedPattern(Norm(d.Path, o.Strict))
		if err != nil {
			return nil, err
		}
		t.Pats = append(t.Pats, p)
	}
	return t, nil
}

func allows(d RouteDef, m string) bool {
	for _, x := range d.Methods {
		if x == m {
			return true
		}
	}
	return false
}

// Qualifying returns the indices of all routes that allow m and match path.
func (t *Table) Qualifying(m, path string) []int {
	var q []int
	for i, p := range t.Pats {
		if allows(t.Routes[i], m) && p.Matches(path) {
			q = append(q, i)
		}
	}
	return q
}

// Direct applies the tier rule: an exact static path beats every dynamic
// pattern (the last registered static route for a method+path replaces earlier
// ones - the statement excludes duplicates); then patterns with a complete
// literal first segment; then the others; earliest registered inside a tier.
func (t *Table) Direct(m, path string) int {
	q := t.Qualifying(m, path)
	best, bestTier := -1, 9
	for _, i := range q {
		tier := 2
		if t.Pats[i].Static {
			tier = 0
		} else if t.Pats[i].FirstSeg != "" {
			tier = 1
		}
		if tier < bestTier || (tier == 0 && bestTier == 0) {
			best, bestTier = i, tier
		}
	}
	return best
}

type Resolution struct {
	Kind    string   // "route" "head-get" "fallback" "405" "404"
	Route   int      // index or -1
	Allowed []string // sorted
	Path    string   // normalised path that was matched
}

func (t *Table) Resolve(m, path string) Resolution {
	p := Norm(path, t.Opts.Strict)
	if t.Opts.Intercept != "" {
		p = Norm(t.Opts.Intercept, t.Opts.Strict)
	}
	if r := t.Direct(m, p); r >= 0 {
		return Resolution{Kind: "route", Route: r, Path: p}
	}
	if m == "HEAD" {
		if r := t.Direct("GET", p); r >= 0 {
			return Resolution{Kind: "head-get", Route: r, Path: p}
		}
	}
	if t.Opts.Fallback {
		if r := t.Direct(m, "/*"); r >= 0 && t.Pats[r].Static {
			return Resolution{Kind: "fallback", Route: r, Path: p}
		}
	}
	if t.Opts.NotAllowed {
		var al []string
		for _, o := range Methods {
			if o != m && t.Direct(o, p) >= 0 {
				al = append(al, o)
			}
		}
		if len(al) > 0 {
			sort.Strings(al)
			return Resolution{Kind: "405", Route: -1, Allowed: al, Path: p}
		}
	}
	return Resolution{Kind: "404", Route: -1, Path: p}
}
