package checks

import (
	"errors"
	"fmt"
	"io"
	"net/http"
	"net/http/httptest"
	"reflect"
	"strings"
	"time"

	"github.com/gookit/color"
	"github.com/gookit/rux"
	"github.com/gookit/rux/pkg/handlers"

	"verif/mc/fw"
)

// C09: a panicking handler is contained and leaves the router healthy.

type c09Case struct {
	Where     string `json:"where"` // chain | notfound | notallowed | onerror
	N         int    `json:"n"`
	Split     [3]int `json:"split"`
	Pos       int    `json:"panic_handler"`
	When      string `json:"when"`  // before-next | after-next | no-next
	Value     string `json:"value"` // string | error | struct
	Hook      string `json:"hook"`  // absent | nothing | status | status-body | body
	PanicsMW  bool   `json:"panics_handler_middleware"`
	Committed bool   `json:"committed_before_panic"`
	PreStatus int    `json:"status_selected_before_panic,omitempty"` // e.g. 204 via NoContent(): selected, not committed
	Timeout   bool   `json:"timeout_middleware,omitempty"`           // handlers.Timeout(1h) wraps the chain: it swaps c.Req and cancels the derived context in a defer
	WrapResp  bool   `json:"wrap_resp_without_defer,omitempty"`      // a global middleware wraps c.Resp and restores it after Next() - not in a defer
	Twice     bool   `json:"panic_request_twice"`
	// Mounted: the request arrives on a front router (no hook of its own) whose handler hands its context to this router
	// with HandleContext: the hook of the router that runs the chain must contain the panic
	Mounted bool `json:"mounted_behind_front_router,omitempty"`
	// Expired: the Timeout middleware's deadline has already passed when the panic strikes
	Expired bool `json:"timeout_already_expired,omitempty"`
	// PlainW: the caller's ResponseWriter offers Header / Write / WriteHeader only (no Flusher, no Hijacker)
	PlainW bool `json:"plain_response_writer,omitempty"`
	// PreAbort: the panicking handler calls c.Abort() right before it panics
	PreAbort bool `json:"abort_before_panic,omitempty"`
	// Logger: handlers.ConsoleLogger is the first global middleware and the request's path is on its skip list
	Logger bool `json:"console_logger_skipping_this_path,omitempty"`
	// NoGlobal: the router has no global middleware at all (the chain of a custom NotFound / NotAllowed is then the router's own slice)
	NoGlobal bool `json:"no_global_middleware,omitempty"`
	// PreError: the panicking handler records an error (AddError) before it panics
	PreError bool `json:"error_recorded_before_panic,omitempty"`
	// LateCaching: route caching is switched on by calling the option function on the router after its routes exist
	LateCaching bool `json:"caching_switched_on_after_registration,omitempty"`
}

type c09Val struct{ A, B int }

var c09WriteErr = errors.New("write error: the client is gone")

// failW is a caller's writer whose Write always fails
type failW struct{ *recW }

func (w failW) Write(b []byte) (int, error) { return 0, c09WriteErr }

// c09Marshal panics while it is being encoded
type c09Marshal struct{}

func (c09Marshal) MarshalJSON() ([]byte, error) { panic("boom-in-marshal") }

var c09Err = errors.New("boom-error")

func c09Value(kind string) any {
	switch kind {
	case "error":
		return c09Err
	case "struct":
		return c09Val{1, 2}
	case "abort-handler":
		return http.ErrAbortHandler // what a reverse proxy panics with
	case "int":
		return 42
	case "write-fails":
		// raised by Context.WriteString when the caller's writer refuses the bytes (a client that is gone)
		return c09WriteErr
	case "jsonp-marshal":
		// raised inside the JSONP helper: the value's MarshalJSON panics while the response is being rendered
		return "boom-in-marshal"
	case "invalid-status":
		// not raised by the handler itself: it selects status 99 and writes; the caller's ResponseWriter refuses the
		// status with this panic (as net/http does) when the header is committed
		return "invalid WriteHeader code 99"
	}
	return "boom-string"
}

type c09Router struct {
	k        *kindRouter
	log      []string
	hookRuns int
	hookSaw  any
}

func newC09Router(c c09Case) *c09Router {
	cr := &c09Router{}
	k := newKindRouter(kindCfg{Hook: false, OnError: c.Where == "onerror", Cache: c.N%2 == 0, NoGlobal: c.NoGlobal})
	cr.k = k
	r := k.r
	switch c.Hook {
	case "absent":
	default:
		hook := c.Hook
		r.OnPanic = func(ctx *rux.Context) {
			cr.hookRuns++
			cr.hookSaw = ctx.SafeGet(rux.CTXRecoverResult)
			cr.log = append(cr.log, "hook")
			switch hook {
			case "status":
				ctx.SetStatus(503)
			case "status-body":
				ctx.SetStatus(503)
				ctx.WriteString("H")
			case "body":
				ctx.WriteString("H")
			case "abort-status":
				// the way an error-page hook usually answers
				ctx.AbortWithStatus(503, "H")
			case "status-redispatch":
				// the hook chooses the status and lets an error-page route produce the body
				ctx.SetStatus(503)
				ctx.Req.URL.Path = "/errpage"
				ctx.Router().HandleContext(ctx)
			case "json-body":
				ctx.JSON(503, rux.M{"e": 1})
			}
		}
	}
	r.GET("/errpage", func(ctx *rux.Context) { ctx.WriteString("H") })
	if c.Logger {
		color.SetOutput(io.Discard)
		r.Use(handlers.ConsoleLogger("/p"))
	}
	if c.PanicsMW {
		r.Use(handlers.PanicsHandler())
	}
	if c.Timeout && c.Expired {
		r.Use(handlers.Timeout(-time.Second))
	} else if c.Timeout {
		r.Use(handlers.Timeout(time.Hour))
	}
	if c.WrapResp {
		r.Use(func(ctx *rux.Context) {
			orig := ctx.Resp
			ctx.Resp = &wrapW{orig}
			ctx.Next()
			ctx.Resp = orig // skipped when a handler below panics
		})
	}
	val := c09Value(c.Value)
	raise := func(ctx *rux.Context) {
		if c.PreError {
			ctx.AddError(errors.New("recorded before the panic"))
		}
		if c.Value == "invalid-status" {
			ctx.SetStatus(99)
			ctx.WriteString("x") // the commit of status 99 panics inside the caller's writer
			cr.log = append(cr.log, "no-panic-from-writer")
			return
		}
		if c.Value == "write-fails" {
			ctx.WriteString("x")
			cr.log = append(cr.log, "no-panic-from-writer")
			return
		}
		if c.Value == "jsonp-marshal" {
			ctx.JSONP(200, "cb", c09Marshal{})
			cr.log = append(cr.log, "no-panic-from-writer")
			return
		}
		panic(val)
	}
	mk := func(i int) rux.HandlerFunc {
		return func(ctx *rux.Context) {
			cr.log = append(cr.log, fmt.Sprintf("enter%d", i))
			if i == c.Pos && c.PreStatus == 204 {
				ctx.NoContent()
			} else if i == c.Pos && c.PreStatus > 0 {
				ctx.SetStatus(c.PreStatus)
			}
			if i == c.Pos && c.When == "before-next" {
				if c.Committed {
					ctx.WriteString("x")
				}
				if c.PreAbort {
					ctx.Abort()
				}
				cr.log = append(cr.log, "panic")
				raise(ctx)
			}
			if !(i == c.Pos && c.When == "no-next") {
				ctx.Next()
			}
			if i == c.Pos {
				if c.Committed {
					ctx.WriteString("x")
				}
				if c.PreAbort {
					ctx.Abort()
				}
				cr.log = append(cr.log, "panic")
				raise(ctx)
			}
			cr.log = append(cr.log, fmt.Sprintf("leave%d", i))
		}
	}
	hs := make([]rux.HandlerFunc, c.N)
	for i := range hs {
		hs[i] = mk(i)
	}
	switch c.Where {
	case "chain":
		g, p, rt := c.Split[0], c.Split[1], c.Split[2]
		for i := 0; i < g; i++ {
			r.Use(hs[i])
		}
		reg := func() { r.GET("/p", hs[c.N-1], hs[g+p:g+p+rt]...) }
		if p > 0 {
			r.Group("/", reg, hs[g:g+p]...)
		} else {
			reg()
		}
	case "global-404", "global-405":
		// all handlers are GLOBAL middleware; the request matches no route (no route of its method) and is answered by the
		// built-in responder
		for _, h := range hs {
			r.Use(h)
		}
	case "notfound":
		r.NotFound(hs...)
	case "notallowed":
		r.NotAllowed(hs...)
	case "onerror":
		r.OnError = func(ctx *rux.Context) {
			cr.log = append(cr.log, "enter0")
			if c.Committed {
				ctx.WriteString("x")
			}
			cr.log = append(cr.log, "panic")
			panic(val)
		}
	}
	if c.LateCaching {
		_ = try(func() { rux.EnableCaching(r) })
	}
	return cr
}

func (c c09Case) request() (string, string) {
	switch c.Where {
	case "notfound", "global-404":
		return "GET", "/nope/at/all"
	case "global-405":
		return "PUT", "/store"
	case "notallowed":
		return "PUT", "/store"
	case "onerror":
		return "GET", "/errors"
	}
	return "GET", "/p"
}

func c09Run(c c09Case, st *fw.Stats) []fw.Viol {
	var vs []fw.Viol
	add := func(sig, msg string) {
		if len(vs) < 6 {
			vs = append(vs, fw.Viol{Sig: sig, Msg: msg})
		}
	}
	desc := fmt.Sprintf("%+v", c)
	if c.Where == "two-panics" {
		c09TwoPanics(c, st, add)
		return vs
	}
	// global middleware of the chain also wraps every other request: the baseline is a fresh identical router
	cr := newC09Router(c)
	m, p := c.request()
	doPanic := func() (w *recW, pv any) {
		w = &recW{h: http.Header{}}
		cr.log = cr.log[:0]
		cr.k.depth = 1 // the probe skips recorder-specific fields
		var entry http.Handler = cr.k.r
		if c.Mounted {
			front := rux.New()
			front.NotFound(func(ctx *rux.Context) { cr.k.r.HandleContext(ctx) })
			entry = front
		}
		var under http.ResponseWriter = w
		if c.PlainW {
			under = struct{ http.ResponseWriter }{w}
		}
		if c.Value == "write-fails" {
			under = failW{w}
		}
		pv = try(func() { entry.ServeHTTP(under, httptest.NewRequest(m, p, nil)) })
		return
	}
	reps := 1
	if c.Twice {
		reps = 2
	}
	for rep := 0; rep < reps; rep++ {
		st.Evals++
		cr.hookRuns, cr.hookSaw = 0, nil
		w, pv := doPanic()
		val := c09Value(c.Value)
		trace := strings.Join(cr.log, " ")
		// nothing starts after the panic point (the hook excepted)
		// OnError runs after the chain, outside any in-chain PanicsHandler
		panicsMW := c.PanicsMW && c.Where != "onerror"
		if i := strings.Index(trace, "panic"); i >= 0 {
			// (an in-chain PanicsHandler resumes the chain after the panicking handler; the statement is silent on that)
			// (... and a hook that re-dispatches the request to an error page runs the global middleware again, by design)
			if !panicsMW && c.Hook != "status-redispatch" && strings.Contains(trace[i:], "enter") {
				add("panic:handler-after-panic", fmt.Sprintf("%s: a handler started after the panic: trace [%s]", desc, trace))
			}
		} else {
			add("panic:harness", fmt.Sprintf("%s: the panic point was never reached: trace [%s]", desc, trace))
		}
		if strings.Contains(trace, "no-panic-from-writer") {
			add("panic:harness", fmt.Sprintf("%s: the recording writer did not refuse status 99: trace [%s]", desc, trace))
		}
		nWH, firstWH := 0, ""
		for _, e := range w.log {
			if strings.HasPrefix(e, "WH:") {
				nWH++
				if firstWH == "" {
					firstWH = e
				}
			}
		}
		switch {
		case panicsMW:
			if pv != nil {
				add("panic:escaped-panics-handler", fmt.Sprintf("%s: the panic escaped ServeHTTP although PanicsHandler is installed: %v", desc, pv))
			}
		case c.Hook == "absent":
			if pv != val {
				add("panic:not-propagated", fmt.Sprintf("%s: without a hook the panic must reach the caller unchanged; got %v (%T), want %v", desc, pv, pv, val))
			}
		default:
			if pv != nil {
				add("panic:escaped", fmt.Sprintf("%s: the panic escaped ServeHTTP although OnPanic is installed: %v", desc, pv))
				break
			}
			if cr.hookRuns != 1 {
				add("panic:hook-runs", fmt.Sprintf("%s: the hook ran %d times", desc, cr.hookRuns))
			}
			if cr.hookSaw != val {
				add("panic:hook-value", fmt.Sprintf("%s: the hook saw %v under CTXRecoverResult, want %v", desc, cr.hookSaw, val))
			}
			if c.Value == "invalid-status" {
				// the caller's writer refused the only header commit; what remains observable is the hook's body
				if want := map[string]string{"status-body": "H", "body": "H", "abort-status": "H\n"}[c.Hook]; string(w.body) != want {
					add("panic:body", fmt.Sprintf("%s: body %q, expected %q", desc, w.body, want))
				}
				break
			}
			if nWH != 1 {
				sig := "panic:header-commits"
				if nWH == 0 {
					sig = "panic:no-header-commit"
				}
				add(sig, fmt.Sprintf("%s: the underlying writer received %d WriteHeader calls after the hook returned: log %v", desc, nWH, w.log))
				break
			}
			wantBody := ""
			committed := c.Committed
			if c.Where == "onerror" {
				// the /errors handler has already written its body (and so committed 200) when OnError runs
				wantBody, committed = "errors", true
			}
			if c.Committed {
				wantBody += "x"
			}
			if c.Value == "write-fails" {
				committed = true // the refused write had already committed 200
			}
			if c.Value == "jsonp-marshal" && strings.Contains(string(w.body), "cb(") {
				// the JSONP helper had already sent the callback name (and so committed its status 200) when the value's
				// encoder panicked; a helper that renders into a buffer first sends nothing - both are fine
				wantBody, committed = wantBody+"cb(", true
			}
			if c.Hook == "status-body" || c.Hook == "body" || c.Hook == "status-redispatch" {
				wantBody += "H"
			}
			if c.Hook == "json-body" {
				// (the JSON document of the hook follows whatever was sent before)
				if !strings.HasPrefix(string(w.body), wantBody) || !strings.Contains(string(w.body)[len(wantBody):], `"e":1`) {
					add("panic:body", fmt.Sprintf("%s: body %q, expected %q followed by the hook's JSON document", desc, w.body, wantBody))
				}
				wantBody = string(w.body)
			}
			if c.Hook == "abort-status" {
				wantBody += "H\n" // http.Error ends the message with a newline
			}
			if string(w.body) != wantBody {
				add("panic:body", fmt.Sprintf("%s: body %q, expected %q", desc, w.body, wantBody))
			}
			if !committed && (c.Hook == "status" || c.Hook == "status-body" || c.Hook == "abort-status" || c.Hook == "status-redispatch" || c.Hook == "json-body") && !strings.HasPrefix(firstWH, "WH:503:") {
				add("panic:status", fmt.Sprintf("%s: committed %s, the hook set status 503", desc, firstWH))
			}
			if committed && !strings.HasPrefix(firstWH, "WH:200:") {
				add("panic:status", fmt.Sprintf("%s: committed %s although 200 was committed before the panic", desc, firstWH))
			}
		}
	}
	// the router stays fully usable: every follow-up request behaves as on a fresh identical router
	base := newC09Router(c)
	// the follow-up that panics by itself comes last, so that the twin stays panic-free until then
	order := make([]string, 0, len(kindNames))
	for _, k := range kindNames {
		if k != "panic" && k != "panic-status" {
			order = append(order, k)
		}
	}
	order = append(order, "panic-status", "panic")
	for _, kind := range order {
		st.Evals++
		st.Nontrivial++
		seen := map[*rux.Context]bool{}
		got := cr.k.do(kind, seen)
		want := base.k.do(kind, nil)
		// the chain's global middleware logs into cr.log / base.log as well; compare those traces too
		if got.String() != want.String() {
			add("panic:follow-up", fmt.Sprintf("%s: follow-up request %q observes %s; on a router that never saw the panic: %s", desc, kind, got, want))
		}
	}
	if st.WantSample() {
		st.Sample(map[string]any{"case": c, "follow_ups": kindNames})
	}
	return vs
}

// c09TwoPanics: two panics in ONE request. A handler re-dispatches with HandleContext; the handler reached that way
// panics (contained by the inner dispatch, whose hook runs), then the forwarding handler panics too (contained by the outer
// dispatch). Each panic is contained, and the hook runs once for each with that panic's value. Values: pairs over
// comparable and uncomparable types (slices, maps), equal and different.
func c09TwoPanics(c c09Case, st *fw.Stats, add func(sig, msg string)) {
	vals := []any{"boom", c09Err, c09Val{1, 2}, []string{"a"}, []string{"b"}, map[string]int{"k": 1}, struct{ L []int }{[]int{1}}, 42}
	for i, v1 := range vals {
		for j, v2 := range vals {
			for _, mounted := range []bool{false, true} {
				st.Evals++
				st.Nontrivial++
				var saw []any
				hook := func(ctx *rux.Context) { saw = append(saw, ctx.SafeGet(rux.CTXRecoverResult)) }
				inner := rux.New()
				inner.OnPanic = hook
				inner.GET("/boom", func(*rux.Context) { panic(v1) })
				entry := inner
				fwd := func(ctx *rux.Context) {
					ctx.Req.URL.Path = "/boom"
					inner.HandleContext(ctx)
					panic(v2)
				}
				if mounted {
					entry = rux.New()
					entry.OnPanic = hook
					entry.NotFound(fwd)
				} else {
					inner.GET("/fwd", fwd)
				}
				d := fmt.Sprintf("GET /fwd: the handler re-dispatches (HandleContext, %s) to a route that panics with value #%d (%T), then panics itself with value #%d (%T); OnPanic hooks installed", map[bool]string{false: "same router", true: "from a front router's NotFound handler"}[mounted], i, v1, j, v2)
				if pv := try(func() { entry.ServeHTTP(httptest.NewRecorder(), httptest.NewRequest("GET", "/fwd", nil)) }); pv != nil {
					add("panic:escaped", fmt.Sprintf("%s: a panic escaped ServeHTTP: %v", d, pv))
					continue
				}
				if len(saw) != 2 {
					add("panic:hook-runs", fmt.Sprintf("%s: the hook ran %d times, expected once per panic", d, len(saw)))
					continue
				}
				if !reflect.DeepEqual(saw[0], v1) || !reflect.DeepEqual(saw[1], v2) {
					add("panic:hook-value", fmt.Sprintf("%s: the hooks saw %v and %v under CTXRecoverResult", d, saw[0], saw[1]))
				}
				// the router stays usable
				if pv := try(func() { entry.ServeHTTP(httptest.NewRecorder(), httptest.NewRequest("GET", "/fwd", nil)) }); pv != nil || len(saw) != 4 {
					add("panic:follow-up", fmt.Sprintf("%s: the same request again: panic %v, hook runs so far %d (expected 4)", d, pv, len(saw)))
				}
			}
		}
	}
}

func c09Gen(tier string, emit func(c09Case)) {
	emit(c09Case{Where: "two-panics", Hook: "nothing"})
	hooks := []string{"absent", "nothing", "status", "status-body", "body", "abort-status"}
	values := []string{"string", "error", "struct", "abort-handler", "int"}
	maxN := 3
	if tier == "thorough" {
		maxN = 5
	}
	for n := 1; n <= maxN; n++ {
		for _, sp := range splitsOf(n - 1) {
			for pos := 0; pos < n; pos++ {
				for _, when := range []string{"before-next", "after-next", "no-next"} {
					for _, hk := range hooks {
						for vi, v := range values {
							for f := 0; f < 4; f++ {
								if tier == "quick" && (vi+f+pos)%2 == 1 && n == 3 {
									continue
								}
								emit(c09Case{Where: "chain", N: n, Split: sp, Pos: pos, When: when, Value: v, Hook: hk, PanicsMW: f&1 != 0, Committed: f&2 != 0, Twice: (n+pos)%2 == 0})
								if f == 0 && vi == 2 {
									emit(c09Case{Where: "chain", N: n, Split: sp, Pos: pos, When: when, Value: v, Hook: hk, LateCaching: true, Twice: true})
								}
								if f == 0 && vi == 1 {
									emit(c09Case{Where: "chain", N: n, Split: sp, Pos: pos, When: when, Value: v, Hook: hk, Timeout: true})
									emit(c09Case{Where: "chain", N: n, Split: sp, Pos: pos, When: when, Value: v, Hook: hk, WrapResp: true})
									emit(c09Case{Where: "chain", N: n, Split: sp, Pos: pos, When: when, Value: v, Hook: hk, Timeout: true, Expired: true})
									emit(c09Case{Where: "chain", N: n, Split: sp, Pos: pos, When: when, Value: v, Hook: hk, PlainW: true})
									emit(c09Case{Where: "chain", N: n, Split: sp, Pos: pos, When: when, Value: v, Hook: hk, PlainW: true, Committed: true})
									emit(c09Case{Where: "chain", N: n, Split: sp, Pos: pos, When: when, Value: v, Hook: hk, PreAbort: true})
									emit(c09Case{Where: "chain", N: n, Split: sp, Pos: pos, When: when, Value: v, Hook: hk, PreAbort: true, Committed: true})
									emit(c09Case{Where: "chain", N: n, Split: sp, Pos: pos, When: when, Value: v, Hook: hk, Logger: true})
									emit(c09Case{Where: "chain", N: n, Split: sp, Pos: pos, When: when, Value: v, Hook: hk, Logger: true, Committed: true})
									emit(c09Case{Where: "chain", N: n, Split: sp, Pos: pos, When: when, Value: "invalid-status", Hook: hk})
									emit(c09Case{Where: "chain", N: n, Split: sp, Pos: pos, When: when, Value: "invalid-status", Hook: hk, PanicsMW: true})
									if hk == "absent" || hk == "nothing" || hk == "status" {
										emit(c09Case{Where: "chain", N: n, Split: sp, Pos: pos, When: when, Value: "write-fails", Hook: hk, Twice: true})
									}
									if hk == "status" {
										// hooks that answer through a re-dispatch to an error page / through the JSON helper (also after an
										// error was recorded and bytes were sent)
										for _, h2 := range []string{"status-redispatch", "json-body"} {
											if h2 == "status-redispatch" && pos < sp[0] {
												continue // (a panicking GLOBAL middleware would panic again inside the re-dispatch)
											}
											for f2 := 0; f2 < 4; f2++ {
												emit(c09Case{Where: "chain", N: n, Split: sp, Pos: pos, When: when, Value: v, Hook: h2, Committed: f2&1 != 0, PreError: f2&2 != 0})
											}
										}
									}
									emit(c09Case{Where: "chain", N: n, Split: sp, Pos: pos, When: when, Value: "jsonp-marshal", Hook: hk})
									emit(c09Case{Where: "chain", N: n, Split: sp, Pos: pos, When: when, Value: "jsonp-marshal", Hook: hk, PanicsMW: true})
								}
								if f == 0 || f == 2 {
									emit(c09Case{Where: "chain", N: n, Split: sp, Pos: pos, When: when, Value: v, Hook: hk, Committed: f&2 != 0, Mounted: true})
								}
								if f == 0 && vi == 0 {
									// a status was selected (204 / 304 / 201) but nothing committed when the panic strikes
									for _, ps := range []int{204, 304, 201} {
										emit(c09Case{Where: "chain", N: n, Split: sp, Pos: pos, When: when, Value: v, Hook: hk, PreStatus: ps})
									}
								}
							}
						}
					}
				}
			}
		}
	}
	for _, where := range []string{"global-404", "global-405"} {
		for n := 1; n <= 2; n++ {
			for pos := 0; pos < n; pos++ {
				// (before the built-in responder has written its page)
				for _, when := range []string{"before-next"} {
					for _, hk := range hooks {
						for _, v := range []string{"string", "error"} {
							emit(c09Case{Where: where, N: n, Pos: pos, When: when, Value: v, Hook: hk, Twice: true})
							emit(c09Case{Where: where, N: n, Pos: pos, When: when, Value: v, Hook: hk, Committed: true})
						}
					}
				}
			}
		}
	}
	for _, where := range []string{"notfound", "notallowed", "onerror"} {
		for n := 1; n <= 2; n++ {
			if where == "onerror" && n > 1 {
				continue
			}
			for pos := 0; pos < n; pos++ {
				for _, when := range []string{"before-next", "after-next"} {
					for _, hk := range hooks {
						for _, v := range values {
							for f := 0; f < 4; f++ {
								emit(c09Case{Where: where, N: n, Pos: pos, When: when, Value: v, Hook: hk, PanicsMW: f&1 != 0, Committed: f&2 != 0})
							}
							emit(c09Case{Where: where, N: n, Pos: pos, When: when, Value: v, Hook: hk, Mounted: true})
							if where != "onerror" {
								emit(c09Case{Where: where, N: n, Pos: pos, When: when, Value: v, Hook: hk, NoGlobal: true, Twice: true})
							}
						}
					}
				}
			}
		}
	}
}

var c09Spec = fw.Spec[c09Case]{
	ID:    "C09",
	Level: "model_checking",
	Rule: "complete product: chain shapes n<=3 (thorough 5) x every global/group/route split x every panic position x {before Next, after Next, without Next} x panic value {string, error, struct, http.ErrAbortHandler, int} x hook {absent, does nothing, status only, status+body, body only, AbortWithStatus(503, message), status + re-dispatch to an error-page route, a JSON document through the JSON helper (the last two also after the handler recorded an error)} x {PanicsHandler middleware} x {a byte committed before the panic} (+ the panic request issued twice) (+ the router mounted behind a front router that passes its context on with HandleContext) (+ under the Timeout middleware with a deadline that is far away / has already passed) (+ on a caller's writer without Flush) (+ the panicking handler calls Abort first) (+ route caching switched on by calling the option function after the routes exist) (+ handlers.ConsoleLogger first in the chain with the request's path on its skip list) (+ the panic raised by the caller's ResponseWriter when the handler commits status 99) (+ the panic raised by a value's MarshalJSON inside the JSONP helper) (+ the panic raised by WriteString on a caller's writer that refuses every byte), plus two panics in one request (a handler re-dispatches with HandleContext to a panicking route and then panics itself; 8 x 8 values incl. slices, maps and structs holding slices; same router / from a front router's NotFound handler), plus panics inside global middleware around the built-in 404 / 405 responders and inside NotFound / NotAllowed / OnError handlers (NotFound / NotAllowed also on a router without any global middleware); each followed by every one of 15 follow-up request kinds compared with a fresh identical router; " +
		"every case is non-trivial (a panic is raised in each)",
	Assume: []string{"for the in-chain PanicsHandler only 'the panic does not escape' and 'follow-ups are unaffected' are asserted (the statement promises nothing else for it)", "when the hook sets no status, any single committed status is accepted"},
	Bounds: func(tier string) map[string]any {
		return map[string]any{"n": map[string]int{"quick": 3, "thorough": 5}[tier], "follow_up_kinds": len(kindNames)}
	},
	Gen:   c09Gen,
	Run:   c09Run,
	Batch: 8,
}

func init() {
	Registry["C09"] = func(args []string) int { return fw.Main(c09Spec, args) }
}
