#!/bin/bash
# tools/seed_round.sh <round> <first index> <ids...>  — evaluates /tmp/seed<round>-<id>/seed_out/{1,2} for the given property ids
# (names are derived from the first line of the agent's notes), 6 at a time, against the property's own check.
set -u
HERE="$(cd "$(dirname "${BASH_SOURCE[0]}")/.." && pwd)"
ROUND="$1"; IDX="$2"; shift 2
n=0
for id in "$@"; do
  SD="/tmp/seed$ROUND-$id/seed_out"
  [ -d "$SD" ] || { echo "no $SD"; continue; }
  for i in 1 2; do
    [ -f "$SD/patch_$i.diff" ] || continue
    slug=$(head -1 "$SD/notes_$i.txt" 2>/dev/null | tr 'A-Z' 'a-z' | sed -E 's/[^a-z0-9]+/ /g' | awk '{o="";c=0;for(j=1;j<=NF&&c<6;j++){if(length($j)>2&&$j!="seed"&&$j!="change"&&$j!="the"&&$j!="and"){o=o (c?"-":"") $j;c++}}print o}')
    [ -z "$slug" ] && slug="r$ROUND"
    name="$id-$((IDX+i-1))-$slug"
    ( "$HERE/tools/seed_eval.sh" "$SD" "$i" "$name" "$id" quick "$id" 2>&1 | grep -E "CAUGHT|MISSED|NOT KEPT|apply" | cut -c1-300 ) &
    n=$((n+1)); if [ $((n % 6)) = 0 ]; then wait; fi
  done
done
wait
