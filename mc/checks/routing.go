package checks

import (
	"fmt"
	"net/http"
	"net/http/httptest"
	"sort"
	"strings"

	"github.com/gookit/rux"

	"verif/mc/refmodel"
)

// shared helpers for the routing checks (C01, C02, C06, C07, C11, C13, C14 router clause)

type regErr struct{ msg string }

// safely runs f, returning the panic value (nil when none)
func try(f func()) (pv any) {
	defer func() {
		if r := recover(); r != nil {
			pv = r
		}
	}()
	f()
	return nil
}

// canonical text of params: "a=1,b=2"
func canonParams(ps map[string]string) string {
	if len(ps) == 0 {
		return ""
	}
	keys := make([]string, 0, len(ps))
	for k := range ps {
		keys = append(keys, k)
	}
	sort.Strings(keys)
	var sb strings.Builder
	for i, k := range keys {
		if i > 0 {
			sb.WriteByte(',')
		}
		sb.WriteString(k)
		sb.WriteByte('=')
		sb.WriteString(ps[k])
	}
	return sb.String()
}

// routeIdx recovers the registration index the harness stored in Route.Opts.
func routeIdx(rt *rux.Route) int {
	if rt == nil {
		return -1
	}
	if v, ok := rt.Opts["i"]; ok {
		return v.(int)
	}
	return -2
}

// hitRec records what the handler of a route observed.
type hitRec struct {
	idx    int
	params string
	n      int
}

// buildRouter registers defs in order on a fresh router. The i-th route's
// handler writes "<i>|<params>" and records the hit in rec.
func buildRouter(defs []refmodel.RouteDef, rec *hitRec, opts ...func(*rux.Router)) (r *rux.Router, pv any) {
	return buildRouterVia(defs, nil, rec, opts...)
}

// registration APIs a route can come in through
var regAPIs = []string{"Add", "AddRoute(NewRoute)", "AddNamed", "NewRoute.AttachTo", "method-helper", "WithOptions-then-Add", "Group(split)", "Group(nested split)", "Group(root)"}

// splitForGroup cuts a pattern at its last '/' that lies outside braces and brackets: ("/a/{x}", "/b") for "/a/{x}/b".
// ok is false when there is no such cut with a non-empty prefix and a non-empty remainder.
func splitForGroup(path string) (prefix, rest string, ok bool) {
	depth := 0
	cut := -1
	for i := 0; i < len(path); i++ {
		switch path[i] {
		case '{', '[':
			depth++
		case '}', ']':
			depth--
		case '/':
			if depth == 0 && i > 0 {
				cut = i
			}
		}
	}
	if cut <= 0 || cut == len(path)-1 {
		return "", "", false
	}
	return path[:cut], path[cut:], true
}

// buildRouterVia registers route i through the API named via[i] ("" = Add). "method-helper" uses r.GET / r.POST ... per
// method (one registration per method: only for single-method routes, else Add); "WithOptions-then-Add" applies the
// options through WithOptions after New().
func buildRouterVia(defs []refmodel.RouteDef, via []string, rec *hitRec, opts ...func(*rux.Router)) (r *rux.Router, pv any) {
	return buildRouterFull(defs, via, false, rec, opts...)
}

// buildRouterFull: routeMW additionally gives every odd-numbered route a middleware through a later Route.Use
func buildRouterFull(defs []refmodel.RouteDef, via []string, routeMW bool, rec *hitRec, opts ...func(*rux.Router)) (r *rux.Router, pv any) {
	pv = try(func() {
		late := false
		for _, v := range via {
			if v == "WithOptions-then-Add" {
				late = true
			}
		}
		if late {
			r = rux.New()
			r.WithOptions(opts...)
		} else {
			r = rux.New(opts...)
		}
	})
	if pv != nil {
		return
	}
	return registerInto(r, defs, via, routeMW, rec)
}

// registerInto registers defs on an existing router
func registerInto(r0 *rux.Router, defs []refmodel.RouteDef, via []string, routeMW bool, rec *hitRec) (r *rux.Router, pv any) {
	return registerIntoAt(r0, defs, via, routeMW, rec, 0)
}

// registerIntoAt registers defs[from:] (route numbers are positions in defs)
func registerIntoAt(r0 *rux.Router, defs []refmodel.RouteDef, via []string, routeMW bool, rec *hitRec, from int) (r *rux.Router, pv any) {
	r = r0
	pv = try(func() {
		for i, d := range defs {
			i := i
			if i < from {
				continue
			}
			h := func(c *rux.Context) {
				if rec != nil {
					rec.idx = i
					rec.params = canonParams(c.Params)
					rec.n++
				}
				body := fmt.Sprintf("%d|%s", i, canonParams(c.Params))
				// a value this handler stored during an EARLIER request must never be visible now
				if c.SafeGet("verif-harness-mark") != nil {
					body += "|CONTEXT-DATA-OF-AN-EARLIER-REQUEST"
				}
				c.Set("verif-harness-mark", i)
				c.WriteString(body)
			}
			api := ""
			if i < len(via) {
				api = via[i]
			}
			var rt *rux.Route
			switch api {
			case "AddRoute(NewRoute)":
				rt = r.AddRoute(rux.NewRoute(d.Path, h, d.Methods...))
			case "AddNamed":
				rt = r.AddNamed(fmt.Sprintf("n%d", i), d.Path, h, d.Methods...)
			case "NewRoute.AttachTo":
				rt = rux.NewNamedRoute(fmt.Sprintf("n%d", i), d.Path, h, d.Methods...)
				rt.AttachTo(r)
			case "Group(split)":
				// the same pattern spelled as a group prefix plus a route path (the prefix may hold variables)
				if pre, rest, ok := splitForGroup(d.Path); ok {
					r.Group(pre, func() { rt = r.Add(rest, h, d.Methods...) })
				} else {
					rt = r.Add(d.Path, h, d.Methods...)
				}
			case "Group(root)":
				// the whole pattern inside a group mounted at the site root (prefix "/" or "")
				r.Group([]string{"/", ""}[i%2], func() { rt = r.Add(d.Path, h, d.Methods...) })
			case "Group(nested split)":
				// the pattern spelled as two nested group prefixes plus a route path; the inner prefix is given WITHOUT its
				// leading slash (prefixes are normalised one by one)
				if pre, rest, ok := splitForGroup(d.Path); ok {
					if outer, inner, ok2 := splitForGroup(pre); ok2 {
						r.Group(outer, func() { r.Group(strings.TrimPrefix(inner, "/"), func() { rt = r.Add(rest, h, d.Methods...) }) })
					} else {
						r.Group(pre, func() { rt = r.Add(rest, h, d.Methods...) })
					}
				} else {
					rt = r.Add(d.Path, h, d.Methods...)
				}
			case "method-helper":
				if len(d.Methods) == 1 {
					switch d.Methods[0] {
					case "GET":
						rt = r.GET(d.Path, h)
					case "POST":
						rt = r.POST(d.Path, h)
					case "PUT":
						rt = r.PUT(d.Path, h)
					case "DELETE":
						rt = r.DELETE(d.Path, h)
					case "HEAD":
						rt = r.HEAD(d.Path, h)
					case "PATCH":
						rt = r.PATCH(d.Path, h)
					case "OPTIONS":
						rt = r.OPTIONS(d.Path, h)
					}
				}
				if rt == nil {
					rt = r.Add(d.Path, h, d.Methods...)
				}
			default:
				rt = r.Add(d.Path, h, d.Methods...)
			}
			rt.Opts = map[string]any{"i": i}
			if routeMW && i%2 == 1 {
				// route-level middleware attached after registration (its effect shows in the body)
				rt.Use(func(c *rux.Context) { c.WriteString(fmt.Sprintf("mw%d;", i)) })
			}
		}
	})
	return
}

func serve(r http.Handler, method, path string) (rec *httptest.ResponseRecorder, pv any) {
	rec = httptest.NewRecorder()
	req := &http.Request{Method: method, URL: mustURL(path), Header: http.Header{}, Proto: "HTTP/1.1", ProtoMajor: 1, ProtoMinor: 1, Host: "x"}
	pv = try(func() { r.ServeHTTP(rec, req) })
	return
}

// checkParams applies the C02 oracle to the params reported for pattern pt on
// the normalised path; returns "" when fine.
func checkParams(pt *refmodel.Pattern, np string, ps map[string]string) string {
	if pt.Static {
		if len(ps) != 0 {
			return fmt.Sprintf("static route exposes params %v", ps)
		}
		return ""
	}
	if len(ps) != len(pt.Vars) {
		return fmt.Sprintf("params %v do not have exactly the variable names %v", ps, pt.Vars)
	}
	for _, v := range pt.Vars {
		if _, ok := ps[v]; !ok {
			return fmt.Sprintf("params %v lack variable %q (names %v)", ps, v, pt.Vars)
		}
	}
	all := pt.MatchAll(np, 64)
	got := canonParams(ps)
	var alts []string
	for _, d := range all {
		c := canonParams(d)
		if c == got {
			return ""
		}
		alts = append(alts, "{"+c+"}")
	}
	return fmt.Sprintf("params {%s} are not a decomposition of %q by %q; valid: %s", got, np, pt.Path, strings.Join(alts, " "))
}

func tierName(pt *refmodel.Pattern) string {
	switch {
	case pt == nil:
		return "none"
	case pt.Static:
		return "static"
	case pt.FirstSeg != "":
		return "first-seg"
	}
	return "other"
}

func defsString(defs []refmodel.RouteDef) string {
	var parts []string
	for i, d := range defs {
		parts = append(parts, fmt.Sprintf("#%d %s %s", i, strings.Join(d.Methods, "+"), d.Path))
	}
	return strings.Join(parts, "; ")
}
