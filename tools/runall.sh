#!/bin/bash
# tools/runall.sh [tier] — runs every check of MANIFEST.json in /verif against /repo, prints one line per check, validates evidence.
HERE="$(cd "$(dirname "${BASH_SOURCE[0]}")/.." && pwd)"; cd "$HERE"
TIER="${1:-quick}"; rc=0
for id in $(python3 -c "import json;print(' '.join(c['property_id'] for c in json.load(open('MANIFEST.json'))['checks']))"); do
  s=$(date +%s.%N); out="$(bin/check $id $TIER 2>&1)"; code=$?; e=$(date +%s.%N)
  printf "%s exit=%d %5.1fs  %s\n" $id $code $(echo "$e - $s" | bc) "$(grep "^$id $TIER:" <<<"$out" | cut -c1-160)"
  if [ $code != 0 ]; then rc=1; echo "$out" | tail -5; fi
  grep -E "^(VIOLATION|KNOWN-FINDING|  note:)" <<<"$out" | cut -c1-200
done
python3-vt tools/validate.py | grep -v " ok$"
exit $rc
