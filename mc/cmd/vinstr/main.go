// vinstr writes a `go build -overlay` description that
//   - replaces "sync" / "container/list" in package rux by the verification
//     runtime shims (github.com/gookit/rux/vrt and .../vrt/vlist),
//   - inserts a scheduling point vrtY.Y(id) before the statements of every
//     function body and function literal (-stmt all | visible | none),
//   - adds the virtual package directory <repo>/vrt -> the vrt sources.
//
// The rewrites are textual insertions at AST positions (like `go tool cover`),
// so line structure and comments are untouched. Sources are read from the
// repository's *current* working tree; nothing is written there.
package main

import (
	"encoding/json"
	"flag"
	"fmt"
	"go/ast"
	"go/parser"
	"go/token"
	"os"
	"path/filepath"
	"sort"
	"strconv"
	"strings"
)

type edit struct {
	off  int
	text string
	del  int // bytes to delete at off
}

func main() {
	repo := flag.String("repo", "/repo", "")
	vrtDir := flag.String("vrt", "", "")
	out := flag.String("out", "", "")
	mode := flag.String("stmt", "visible", "all | visible | none")
	flag.Parse()
	if err := os.MkdirAll(*out, 0o755); err != nil {
		fatal(err)
	}
	replace := map[string]string{}
	files, _ := filepath.Glob(filepath.Join(*repo, "*.go"))
	sort.Strings(files)
	nextID := 0
	total := 0
	for _, f := range files {
		if strings.HasSuffix(f, "_test.go") {
			continue
		}
		src, err := os.ReadFile(f)
		if err != nil {
			fatal(err)
		}
		fset := token.NewFileSet()
		af, err := parser.ParseFile(fset, f, src, parser.ParseComments)
		if err != nil {
			fatal(err)
		}
		if af.Name.Name != "rux" {
			continue
		}
		var edits []edit
		pkgNames := map[string]bool{}
		for _, im := range af.Imports {
			p, _ := strconv.Unquote(im.Path.Value)
			name := filepath.Base(p)
			if im.Name != nil {
				name = im.Name.Name
			}
			pkgNames[name] = true
			var repl string
			switch p {
			case "sync":
				repl = `"github.com/gookit/rux/vrt"`
			case "container/list":
				repl = `"github.com/gookit/rux/vrt/vlist"`
			default:
				continue
			}
			off := fset.Position(im.Path.Pos()).Offset
			prefix := ""
			if im.Name == nil {
				prefix = name + " "
			}
			edits = append(edits, edit{off: off, text: prefix + repl, del: len(im.Path.Value)})
		}
		n := 0
		if *mode != "none" {
			addList := func(list []ast.Stmt) {
				for _, s := range list {
					if *mode == "visible" && !visible(s, pkgNames) {
						continue
					}
					off := fset.Position(s.Pos()).Offset
					edits = append(edits, edit{off: off, text: fmt.Sprintf("vrtY.Y(%d); ", nextID)})
					nextID++
					n++
				}
			}
			skip := map[*ast.BlockStmt]bool{} // bodies of switch / select hold clauses, not statements
			ast.Inspect(af, func(nd ast.Node) bool {
				switch x := nd.(type) {
				case *ast.SwitchStmt:
					skip[x.Body] = true
				case *ast.TypeSwitchStmt:
					skip[x.Body] = true
				case *ast.SelectStmt:
					skip[x.Body] = true
				case *ast.BlockStmt:
					if !skip[x] {
						addList(x.List)
					}
				case *ast.CaseClause:
					addList(x.Body)
				case *ast.CommClause:
					addList(x.Body)
				}
				return true
			})
		}
		if n > 0 {
			// an extra import declaration right after the package clause
			off := fset.Position(af.Name.End()).Offset
			edits = append(edits, edit{off: off, text: "; import vrtY \"github.com/gookit/rux/vrt\""})
		}
		if len(edits) == 0 {
			continue
		}
		total += n
		sort.SliceStable(edits, func(i, j int) bool { return edits[i].off > edits[j].off })
		b := append([]byte(nil), src...)
		for _, e := range edits {
			b = append(b[:e.off], append([]byte(e.text), b[e.off+e.del:]...)...)
		}
		dst := filepath.Join(*out, filepath.Base(f))
		if err := os.WriteFile(dst, b, 0o644); err != nil {
			fatal(err)
		}
		replace[f] = dst
	}
	// the virtual package directories
	err := filepath.Walk(*vrtDir, func(p string, info os.FileInfo, err error) error {
		if err != nil || info.IsDir() || !strings.HasSuffix(p, ".go") || strings.HasSuffix(p, "_test.go") {
			return err
		}
		rel, _ := filepath.Rel(*vrtDir, p)
		replace[filepath.Join(*repo, "vrt", rel)] = p
		return nil
	})
	if err != nil {
		fatal(err)
	}
	ov, _ := json.MarshalIndent(map[string]any{"Replace": replace}, "", " ")
	if err := os.WriteFile(filepath.Join(*out, "overlay.json"), ov, 0o644); err != nil {
		fatal(err)
	}
	fmt.Printf("vinstr: %d files rewritten, %d scheduling points (mode %s)\n", len(replace), total, *mode)
}

func fatal(err error) {
	fmt.Fprintln(os.Stderr, "vinstr:", err)
	os.Exit(1)
}

// visible: the statement (its header, for compound statements) contains a selector expression whose root is
// not an imported package name, i.e. it can touch a field or method of some value.
func visible(s ast.Stmt, pkgs map[string]bool) bool {
	var parts []ast.Node
	switch x := s.(type) {
	case *ast.LabeledStmt:
		return visible(x.Stmt, pkgs)
	case *ast.BlockStmt:
		return false
	case *ast.IfStmt:
		parts = []ast.Node{x.Init, x.Cond}
	case *ast.ForStmt:
		parts = []ast.Node{x.Init, x.Cond, x.Post}
	case *ast.RangeStmt:
		parts = []ast.Node{x.Key, x.Value, x.X}
	case *ast.SwitchStmt:
		parts = []ast.Node{x.Init, x.Tag}
	case *ast.TypeSwitchStmt:
		parts = []ast.Node{x.Init, x.Assign}
	case *ast.SelectStmt:
		return true
	default:
		parts = []ast.Node{s}
	}
	found := false
	for _, p := range parts {
		if p == nil || isNilNode(p) {
			continue
		}
		ast.Inspect(p, func(n ast.Node) bool {
			if found {
				return false
			}
			if sel, ok := n.(*ast.SelectorExpr); ok {
				root := sel.X
				for {
					if in, ok := root.(*ast.SelectorExpr); ok {
						root = in.X
						continue
					}
					break
				}
				if id, ok := root.(*ast.Ident); ok && pkgs[id.Name] && id.Obj == nil {
					return true // package-qualified name; keep looking inside arguments
				}
				found = true
				return false
			}
			// index / slice expressions on shared slices and maps are visible too
			switch n.(type) {
			case *ast.IndexExpr, *ast.SliceExpr:
				found = true
				return false
			}
			return true
		})
	}
	return found
}

func isNilNode(n ast.Node) bool {
	switch x := n.(type) {
	case ast.Stmt:
		return x == nil
	case ast.Expr:
		return x == nil
	}
	return false
}
