package checks

import (
	"fmt"
	"strings"

	"github.com/gookit/rux"

	"verif/mc/fw"
)

// C13: bad route definitions fail at registration; accepted ones never panic at
// lookup. Invalid definitions are produced BY CONSTRUCTION (a valid definition
// plus exactly one injected fault of a listed category), so the oracle never
// has to classify garbage; every definition that registration accepts - from
// the structured generators and from the raw token product - is then matched
// against method and path strings through Match and ServeHTTP.

type c13Case struct {
	Kind    string   `json:"kind"`
	Method  string   `json:"method,omitempty"`
	Via     string   `json:"via,omitempty"`
	N       int      `json:"n,omitempty"`
	N2      int      `json:"n2,omitempty"`
	Pattern string   `json:"pattern,omitempty"`
	Reject  bool     `json:"want_reject,omitempty"`
	Paths   []string `json:"paths,omitempty"`
	Prefix  []int    `json:"prefix_tokens,omitempty"`
	Len     int      `json:"max_tokens,omitempty"`
	Opts    int      `json:"options,omitempty"`
	Light   bool     `json:"light_lookups,omitempty"`
}

var c13Names = map[string]bool{"GET": true, "POST": true, "PUT": true, "PATCH": true, "DELETE": true, "OPTIONS": true, "HEAD": true, "CONNECT": true, "TRACE": true}

var c13Tokens = []string{"/", "a", ".", "{", "}", "[", "]", ":", "(", ")", "?:", `\d+`, "x", "*", "|"}

var c13SpecialPaths = []string{"", " ", "/", "//", " /", "/ ", " / ", "\t/\n", "/ /", " //", "a/ ", "/a/ ", " a", "/a", "/a/", "/a/1", "/a.b", "/\xff\xfe", "/{id", strings.Repeat("a", 2048), "/a/x/1", "/x", "/ax", "/12", "/a/12"}
var c13SpecialMethods = []string{"get", "", "FOO", "\xff", "HEAD", "POST"}

var c13ShortPaths = func() []string {
	var out []string
	al := []string{"/", "a", "x", "1", "."}
	var rec func(cur string, n int)
	rec = func(cur string, n int) {
		out = append(out, "/"+cur)
		if n == 3 {
			return
		}
		for _, t := range al {
			rec(cur+t, n+1)
		}
	}
	rec("", 0)
	return out
}()

type c13RegexItem struct {
	pat    string
	reject bool
	paths  []string
}

// structured near misses: variable regexes with / without capturing groups,
// optional parts not at the end, uncompilable patterns; controls that must be accepted.
func c13Structured() []c13RegexItem {
	var items []c13RegexItem
	// capturing group at any position of a variable regex, after 0..2 non-capturing groups
	ncs := []string{"", "(?:a)", "(?:a)(?:b)", "a", `\d`, "(?:a|b)"}
	caps := []string{`(\d+)`, "(b)", "(?P<n>b)", "(b|c)", "((?:b))", "(?:(b))"}
	tails := []string{"", "c", "(?:c)"}
	for _, nc := range ncs {
		for _, cp := range caps {
			for _, tl := range tails {
				for _, shape := range []string{"/u/{id:%s}", "/{id:%s}", "/u/{id:%s}/x", "/u[/{id:%s}]", "/u/{k}/{id:%s}"} {
					items = append(items, c13RegexItem{pat: fmt.Sprintf(shape, nc+cp+tl), reject: true, paths: []string{"/u/ab", "/ab", "/u/1", "/1", "/u/abc", "/abc", "/u/b", "/b", "/u/ab/x", "/u/k/ab", "/u/k/b", "/u/k/1", "/u/bc", "/bc", "/u"}})
				}
			}
		}
	}
	// ... next to a second placeholder whose name is unusual (a placeholder that yields no group of its own must not
	// balance the group count of the definition)
	for _, name := range []string{"a.b", "a-b", "a_b", "a b", "1", ".", "a.b.c", "{k}", "k:", "a.b:x"} {
		for _, nc := range ncs {
			for _, cp := range caps {
				for _, shape := range []string{"/{%s}/{id:%s}", "/{id:%[2]s}/{%[1]s}", "/u/{%s}[/{id:%s}]"} {
					items = append(items, c13RegexItem{pat: fmt.Sprintf(shape, name, nc+cp), reject: true, paths: []string{"/k/ab", "/ab/k", "/u/k/ab", "/{" + name + "}/ab", "/{" + name + "}/b", "/ab/{" + name + "}", "/k/b", "/b/k"}})
				}
			}
		}
	}
	// negative controls: escaped or bracketed '(' and non-capturing groups stay accepted
	for _, ok := range []string{`\(\d+\)`, `[(]\d+`, `(?:\d+)`, `(?i:a)b`, `(?:a)(?:b)`, `(?:a(?:b))`, `[0-9]{2}`, `a|b`, `\d+`, `.+`, `(?:a|b)+`, `[^/]+`, `(?:\()`} {
		for _, shape := range []string{"/u/{id:%s}", "/{id:%s}", "/u[/{id:%s}]"} {
			items = append(items, c13RegexItem{pat: fmt.Sprintf(shape, ok), reject: false, paths: []string{"/u/(12)", "/(12)", "/u/(1", "/(1", "/u/12", "/12", "/u/ab", "/ab", "/u/a", "/a", "/u", "/u/(", "/("}})
		}
	}
	// an optional part that is not at the end
	for _, bad := range []string{"/a[/b]/c", "/a[/{x}]/y", "[/{c}]/{id}", "/a[/b]c", "/a[/b][/c]", "/a[/{x}][/{y}]", "/a[/b[/c]/d]", "/[a]/{x}", "/a[/b]/{x}[/c]", "/a[/b", "/a[/{x}", "/a[/b[/c]", "/{x}[/b]]", "/a[/b]]"} {
		items = append(items, c13RegexItem{pat: bad, reject: true})
	}
	// uncompilable variable regexes
	for _, bad := range []string{"/u/{id:[a-}", "/u/{id:*}", "/u/{id:a{2,1}}", `/u/{id:\}`, "/u/{id:(?:a}", "/u/{id:a)}", "/u/{id:(?<x}", "/u/{id:[[:foo:]]}", `/u/{id:\8}`, "/u/{id:a(}", "/u/{id:+}"} {
		items = append(items, c13RegexItem{pat: bad, reject: true})
	}
	// valid optional / nested shapes: accepted, lookups total
	for _, ok := range []string{"/a[/b]", "/a[/{x}]", "/a[/{x}[/{y}]]", "/a[.html]", "/[{x}]", "/a[/b[/c]]", `/a/{x:\d+}[/{y}]`, "/{all}", "/{any}/{num}",
		// one variable name used twice (accepted or not, the statement does not say - but never a panic at lookup)
		"/c/{id}/{id}", "/{a}/x/{a}", "/t/{k}[/{k}]", `/c/{id:\d+}/{id}`, "/{a}/{a}/{a}",
		// literal starts that span several segments
		"/a/x/{id}", "/a/x/1/{id}", "/a/x/1[/{id}]", "/a/x/{id}/y", "/a/a/a/a/{id}", "/a.x/x.1/{id}", "/a/x/q{id}", "/site/settings/{id}", "/api/v1/users/{id}[/{x}]"} {
		items = append(items, c13RegexItem{pat: ok, reject: false, paths: []string{"/a", "/a/b", "/a/b/c", "/a/1", "/a/1/2", "/a.html", "/", "/x", "/x/12"}})
	}
	return items
}

func c13MethodStrings() []string {
	al := []byte("GETDLPUSHA ,")
	seen := map[string]bool{}
	var out []string
	addS := func(s string) {
		if !seen[s] {
			seen[s] = true
			out = append(out, s)
		}
	}
	var rec func(cur string, n int)
	rec = func(cur string, n int) {
		addS(cur)
		if n == 4 {
			return
		}
		for _, c := range al {
			rec(cur+string(c), n+1)
		}
	}
	rec("", 0)
	for name := range c13Names {
		for i := 0; i <= len(name); i++ {
			addS(name[:i])
			addS(name[i:])
			addS(strings.ToLower(name[:i]))
		}
		addS(" " + name + " ")
		addS(name + ",")
		addS("," + name)
		addS(name + "S")
		addS("X" + name)
		addS(strings.ToLower(name))
		addS(strings.Title(strings.ToLower(name)))
		for other := range c13Names {
			addS(name + "," + other)
		}
	}
	return out
}

func c13Gen(tier string, emit func(c13Case)) {
	// methods
	ms := c13MethodStrings()
	for _, m := range ms {
		emit(c13Case{Kind: "method", Method: m})
	}
	// handler counts through the three ways to the limit, and mixed group+route
	for _, via := range []string{"route-use", "variadic", "group", "use-twice", "any", "any-in-group"} {
		for n := 0; n <= 70; n++ {
			emit(c13Case{Kind: "count", Via: via, N: n})
		}
		// far beyond the limit, around every power of two a narrower counter could wrap at
		for _, n := range []int{100, 126, 127, 128, 129, 130, 190, 191, 192, 193, 254, 255, 256, 257, 258, 300, 318, 319, 320, 383, 384, 385, 511, 512, 513, 600, 1000} {
			emit(c13Case{Kind: "count", Via: via, N: n})
		}
	}
	for g := 1; g <= 66; g += 5 {
		for k := 0; k <= 66; k++ {
			emit(c13Case{Kind: "count", Via: "group+route", N: g, N2: k})
			// the route already carries its middleware when it is attached inside the group
			emit(c13Case{Kind: "count", Via: "group+attached-route", N: g, N2: k})
			emit(c13Case{Kind: "count", Via: "nested-groups", N: g, N2: k})
		}
	}
	// nil handler, options after routes, empty caching router
	for o := 0; o < 32; o++ {
		emit(c13Case{Kind: "misc", Opts: o})
		if o&8 != 0 {
			emit(c13Case{Kind: "misc", Opts: o | 32})
			emit(c13Case{Kind: "misc", Opts: o | 64})
		}
	}
	// accepted method sets (one name, several, all nine through Any, all but one) on static and dynamic routes, under
	// every option mask: lookups with every method string are total
	for o := 0; o < 32; o++ {
		for ms := 0; ms < 4+9; ms++ {
			emit(c13Case{Kind: "methodset", Opts: o, N: ms})
		}
	}
	// method lists of every length 1..12 (valid names, repeated beyond nine) with an unsupported name at every position
	for n := 1; n <= 12; n++ {
		emit(c13Case{Kind: "methodlist", N: n})
	}
	// structured patterns
	for _, it := range c13Structured() {
		for _, o := range []int{0, 31, 8, 23, 8 | 32, 31 | 64} {
			emit(c13Case{Kind: "pattern", Pattern: it.pat, Reject: it.reject, Paths: it.paths, Opts: o})
		}
		// the same pattern as the prefix of a group / controller whose only route has a plain path
		if it.reject {
			emit(c13Case{Kind: "pattern", Pattern: it.pat, Reject: true, Paths: it.paths, Via: "group-prefix"})
			emit(c13Case{Kind: "pattern", Pattern: it.pat, Reject: true, Paths: it.paths, Via: "controller-prefix", Opts: 31})
		}
	}
	// raw token product, sharded on the first two tokens
	L := 5
	if tier == "thorough" {
		L = 6
	}
	for i := range c13Tokens {
		for j := range c13Tokens {
			emit(c13Case{Kind: "raw", Prefix: []int{i, j}, Len: L, Light: tier == "quick"})
		}
	}
}

func c13Options(o int) []func(*rux.Router) {
	var opts []func(*rux.Router)
	if o&1 != 0 {
		opts = append(opts, rux.HandleMethodNotAllowed)
	}
	if o&2 != 0 {
		opts = append(opts, rux.HandleFallbackRoute)
	}
	if o&4 != 0 {
		opts = append(opts, rux.StrictLastSlash)
	}
	if o&8 != 0 {
		// bit 5 / bit 6 select the boundary capacities 0 and 1 instead of 2
		capacity := 2
		if o&32 != 0 {
			capacity = 0
		} else if o&64 != 0 {
			capacity = 1
		}
		opts = append(opts, rux.CachingWithNum(uint16(capacity)))
	}
	if o&16 != 0 {
		opts = append(opts, rux.UseEncodedPath)
	}
	return opts
}

func c13Noop(*rux.Context) {}

// lookups on an accepted definition must not panic
// c13AfterReject: lookups on a router on which the registration of `what` has just been rejected by a panic
func c13AfterReject(r *rux.Router, paths []string, what string, st *fw.Stats, add func(sig, msg string)) {
	for _, p := range paths {
		st.Evals++
		if pv := try(func() { r.Match("GET", p) }); pv != nil {
			add("lookup:panic:after-rejected-definition", fmt.Sprintf("%s was rejected by registration or registered again (a panic, if any, was recovered); the router, which holds accepted definitions only, then panicked in Match(GET,%q): %v", what, p, pv))
			return
		}
	}
}

func c13LightLookups(r *rux.Router, what string, st *fw.Stats, add func(sig, msg string)) {
	for i, p := range c13ShortPaths[:31] {
		st.Evals++
		if pv := try(func() { r.Match("GET", p) }); pv != nil {
			add("lookup:panic:match", fmt.Sprintf("%s was accepted by registration, but Match(GET,%q) panicked: %v", what, p, pv))
		}
		if i%3 == 0 {
			if pv := try(func() { r.Match("HEAD", p) }); pv != nil {
				add("lookup:panic:match", fmt.Sprintf("%s was accepted by registration, but Match(HEAD,%q) panicked: %v", what, p, pv))
			}
		}
	}
	for _, p := range c13SpecialPaths {
		st.Evals++
		if _, pv := serve(r, "GET", p); pv != nil {
			add("lookup:panic:serve", fmt.Sprintf("%s was accepted by registration, but ServeHTTP(GET %q) panicked: %v", what, trunc(p), pv))
		}
	}
	for _, m := range c13SpecialMethods {
		st.Evals++
		if pv := try(func() { r.Match(m, "/a/1") }); pv != nil {
			add("lookup:panic:match", fmt.Sprintf("%s was accepted by registration, but Match(%q,\"/a/1\") panicked: %v", what, m, pv))
		}
	}
}

func c13Lookups(r *rux.Router, paths []string, what string, st *fw.Stats, add func(sig, msg string)) {
	do := func(m, p string) {
		st.Evals++
		if pv := try(func() { r.Match(m, p) }); pv != nil {
			add("lookup:panic:match", fmt.Sprintf("%s was accepted by registration, but Match(%q,%q) panicked: %v", what, m, trunc(p), pv))
		}
		if _, pv := serve(r, m, p); pv != nil {
			add("lookup:panic:serve", fmt.Sprintf("%s was accepted by registration, but ServeHTTP(%q %q) panicked: %v", what, m, trunc(p), pv))
		}
	}
	for _, p := range paths {
		do("GET", p)
		do("HEAD", p) // (served by the GET routes: a lookup path of its own)
	}
	for _, p := range c13SpecialPaths {
		do("GET", p)
		for _, m := range c13SpecialMethods {
			do(m, p)
		}
	}
}

func trunc(s string) string {
	if len(s) > 40 {
		return s[:40] + "…"
	}
	return s
}

func c13Run(c c13Case, st *fw.Stats) []fw.Viol {
	var viols []fw.Viol
	add := func(sig, msg string) {
		if len(viols) < 6 {
			viols = append(viols, fw.Viol{Sig: sig, Msg: msg})
		}
	}
	switch c.Kind {
	case "method":
		norm := strings.ToUpper(strings.TrimSpace(c.Method))
		valid := c13Names[norm]
		for _, list := range [][]string{{c.Method}, {"GET", c.Method}, {c.Method, "POST"}} {
			if len(list) == 2 && norm == "" {
				continue // a blank entry next to valid names: the statement does not say
			}
			st.Evals++
			var r *rux.Router
			var rt *rux.Route
			pv := try(func() {
				r = rux.New()
				rt = r.Add("/m", c13Noop, list...)
			})
			if !valid {
				st.Nontrivial++
				if pv == nil {
					add("method:accepted-unknown", fmt.Sprintf("Add(\"/m\", h, %q): method name %q is not one of the 9 supported names but registration accepted it (route methods %q)", list, c.Method, rt.Methods()))
				}
				continue
			}
			if pv != nil {
				add("method:rejected-valid", fmt.Sprintf("Add(\"/m\", h, %q) panicked although %q is a supported method: %v", list, norm, pv))
				continue
			}
			has := false
			for _, m := range rt.Methods() {
				if m == norm {
					has = true
				}
			}
			got, _, _ := r.Match(norm, "/m")
			if !has || got == nil {
				add("method:not-registered", fmt.Sprintf("Add(\"/m\", h, %q): accepted, but the route is not reachable with %s (methods %q)", list, norm, rt.Methods()))
			}
		}
	case "count":
		mk := func(n int) []rux.HandlerFunc {
			hs := make([]rux.HandlerFunc, n)
			for i := range hs {
				hs[i] = c13Noop
			}
			return hs
		}
		total := c.N + c.N2
		wantReject := total > 62
		st.Evals++
		if total >= 60 && total <= 66 {
			st.Nontrivial++
		}
		var r *rux.Router
		pv := try(func() {
			r = rux.New()
			switch c.Via {
			case "route-use":
				r.GET("/h", c13Noop).Use(mk(c.N)...)
			case "variadic":
				r.GET("/h", c13Noop, mk(c.N)...)
			case "group":
				r.Group("/", func() { r.GET("/h", c13Noop) }, mk(c.N)...)
			case "use-twice":
				r.GET("/h", c13Noop, mk(c.N/2)...).Use(mk(c.N - c.N/2)...)
			case "any":
				r.Any("/h", c13Noop, mk(c.N)...)
			case "any-in-group":
				r.Group("/", func() { r.Any("/h", c13Noop, mk(c.N)...) })
			case "group+route":
				r.Group("/", func() { r.GET("/h", c13Noop, mk(c.N2)...) }, mk(c.N)...)
			case "group+attached-route":
				r.Group("/", func() {
					rt := rux.NewRoute("/h", c13Noop, "GET")
					if c.N2 > 0 {
						rt.Use(mk(c.N2)...)
					}
					rt.AttachTo(r)
				}, mk(c.N)...)
			case "nested-groups":
				r.Group("/", func() { r.Group("/", func() { r.GET("/h", c13Noop) }, mk(c.N2)...) }, mk(c.N)...)
			}
		})
		what := fmt.Sprintf("route with %d middleware handlers (+1 main handler) registered via %s (n=%d,n2=%d)", total, c.Via, c.N, c.N2)
		if wantReject && pv == nil {
			add("count:accepted-over-limit", what+": exceeds the limit of 62 middleware + main handler but was accepted")
		} else if !wantReject && pv != nil {
			add("count:rejected-within-limit", fmt.Sprintf("%s: within the limit but registration panicked: %v", what, pv))
		} else if pv == nil {
			c13Lookups(r, []string{"/h"}, what, st, add)
		}
	case "misc":
		opts := c13Options(c.Opts)
		// nil handler
		for _, p := range []string{"/n", "/n/{id}", "/n[/x]"} {
			st.Evals++
			st.Nontrivial++
			if pv := try(func() { rux.New(opts...).Add(p, nil, "GET") }); pv == nil {
				add("nil-handler:accepted", fmt.Sprintf("Add(%q, nil) was accepted", p))
			}
			if pv := try(func() { rux.New(opts...).AddRoute(rux.NewRoute(p, nil)) }); pv == nil {
				add("nil-handler:accepted", fmt.Sprintf("AddRoute(NewRoute(%q, nil)) was accepted", p))
			}
		}
		// empty method list
		if pv := try(func() { rux.New(opts...).Add("/e", c13Noop, "", " ") }); pv == nil {
			add("method:accepted-empty", "Add(\"/e\", h, \"\", \" \") was accepted with no method name")
		}
		// options changed after routes exist
		// (also when the only route is the catch-all "/*", which a HandleFallbackRoute router files separately)
		for _, p := range []string{"/s", "/d/{id}", "/o[/x]", "/*", "/{all}"} {
			st.Evals++
			r := rux.New(opts...)
			r.GET(p, c13Noop)
			if pv := try(func() { r.WithOptions(rux.StrictLastSlash) }); pv == nil {
				add("options:accepted-after-route", fmt.Sprintf("WithOptions after GET(%q) was accepted", p))
			}
			// every option on its own, and every ordered pair of options (the first one of a list decides)
			late := []struct {
				name string
				opt  func(*rux.Router)
			}{{"InterceptAll(/x)", rux.InterceptAll("/x")}, {"MaxNumCaches(8)", rux.MaxNumCaches(8)}, {"CachingWithNum(8)", rux.CachingWithNum(8)}, {"UseEncodedPath", rux.UseEncodedPath},
				{"EnableCaching", rux.EnableCaching}, {"StrictLastSlash", rux.StrictLastSlash}, {"HandleFallbackRoute", rux.HandleFallbackRoute}, {"HandleMethodNotAllowed", rux.HandleMethodNotAllowed}}
			for i, a := range late {
				st.Evals++
				r := rux.New(opts...)
				r.GET(p, c13Noop)
				if pv := try(func() { r.WithOptions(a.opt) }); pv == nil {
					add("options:accepted-after-route", fmt.Sprintf("router (options mask %d) with GET(%q): WithOptions(%s) afterwards was accepted", c.Opts, p, a.name))
				}
				b := late[(i+3)%len(late)]
				r = rux.New(opts...)
				r.GET(p, c13Noop)
				if pv := try(func() { r.WithOptions(a.opt, b.opt) }); pv == nil {
					add("options:accepted-after-route", fmt.Sprintf("router (options mask %d) with GET(%q): WithOptions(%s, %s) afterwards was accepted", c.Opts, p, a.name, b.name))
				}
				// no options at all is not a change
				_ = try(func() { r.WithOptions() })
			}
		}
		// global middleware is not counted by the registration limit: accepted definitions whose chain (global + route
		// middleware + main handler) is longer than the limit are still served without the router panicking
		for _, gl := range []int{1, 2, 3, 8} {
			for _, rm := range []int{60, 61, 62} {
				st.Evals++
				r := rux.New(opts...)
				var rt *rux.Route
				nexts := make([]rux.HandlerFunc, rm)
				for i := range nexts {
					nexts[i] = func(x *rux.Context) { x.Next() }
				}
				if pv := try(func() {
					for i := 0; i < gl; i++ {
						r.Use(func(x *rux.Context) { x.Next() })
					}
					rt = r.GET("/many/{id}", c13Noop, nexts...)
				}); pv != nil || rt == nil {
					continue // rejected: fine
				}
				for _, p := range []string{"/many/1", "/many/1", "/many", "/zz"} {
					if _, pv := serve(r, "GET", p); pv != nil {
						add("lookup:panic:serve", fmt.Sprintf("%d global middleware + a route with %d middleware (accepted by registration, options mask %d): ServeHTTP(GET %q) panicked: %v", gl, rm, c.Opts, p, pv))
						break
					}
				}
			}
		}
		// ONE Route value registered a second time (on the same router / on a second one): whether that is accepted or
		// rejected, the router that accepted it first still matches without a panic
		for _, pat := range []string{"/d/{id}", "/o[/{x}]", "/s", `/d/{id:\d+}/{k}`} {
			for _, second := range []string{"same router", "second router", "second router through AttachTo"} {
				st.Evals++
				r1 := rux.New(opts...)
				rt := rux.NewRoute(pat, c13Noop, "GET")
				if pv := try(func() { r1.AddRoute(rt) }); pv != nil {
					continue
				}
				_ = try(func() {
					switch second {
					case "same router":
						r1.AddRoute(rt)
					case "second router":
						rux.New(opts...).AddRoute(rt)
					default:
						rt.AttachTo(rux.New(opts...))
					}
				})
				c13AfterReject(r1, []string{"/d/1", "/d/1/2", "/o", "/o/2", "/s", "/d/x/y"}, fmt.Sprintf("Route %q, accepted by a router (options mask %d) and then registered again on the %s,", pat, c.Opts, second), st, add)
			}
		}
		// an option function applied DIRECTLY (not through WithOptions) after routes exist: the call may be rejected, but
		// if it is not, the definitions accepted earlier must still be matched without a panic
		direct := []struct {
			name string
			opt  func(*rux.Router)
		}{{"EnableCaching", rux.EnableCaching}, {"CachingWithNum(2)", rux.CachingWithNum(2)}, {"MaxNumCaches(1)", rux.MaxNumCaches(1)}, {"StrictLastSlash", rux.StrictLastSlash},
			{"UseEncodedPath", rux.UseEncodedPath}, {"HandleFallbackRoute", rux.HandleFallbackRoute}, {"HandleMethodNotAllowed", rux.HandleMethodNotAllowed}, {"InterceptAll(/d/1)", rux.InterceptAll("/d/1")}}
		for _, d := range direct {
			st.Evals++
			r := rux.New(opts...)
			r.GET("/s", c13Noop)
			r.GET("/d/{id}", c13Noop)
			r.GET("/o[/{x}]", c13Noop)
			if pv := try(func() { d.opt(r) }); pv != nil {
				continue // rejected at the call: fine
			}
			c13Lookups(r, []string{"/s", "/d/1", "/d/1/", "/o", "/o/2", "/zz"}, fmt.Sprintf("routes /s, /d/{id}, /o[/{x}] on a router (options mask %d) whose option %s was then applied by calling the option function directly", c.Opts, d.name), st, add)
			// ... and a route registered after that is matched too
			if pv := try(func() { r.GET("/late/{y}", c13Noop) }); pv == nil {
				c13Lookups(r, []string{"/late/1", "/d/1"}, fmt.Sprintf("route /late/{y} registered after option %s was applied directly (options mask %d)", d.name, c.Opts), st, add)
			}
		}
		// a router without routes, any option combination: lookups are total
		r := rux.New(opts...)
		c13Lookups(r, c13ShortPaths[:40], fmt.Sprintf("router without routes (options mask %d)", c.Opts), st, add)
		// same after WithOptions enabled caching later
		r2 := rux.New()
		r2.WithOptions(opts...)
		c13Lookups(r2, nil, fmt.Sprintf("router without routes, options via WithOptions (mask %d)", c.Opts), st, add)
	case "methodset":
		all := []string{"GET", "POST", "PUT", "PATCH", "DELETE", "OPTIONS", "HEAD", "CONNECT", "TRACE"}
		var set []string
		switch {
		case c.N == 0:
			set = nil // Any()
		case c.N == 1:
			set = []string{"GET"}
		case c.N == 2:
			set = []string{"GET", "POST"}
		case c.N == 3:
			set = []string{"HEAD", "OPTIONS", "TRACE"}
		default: // all but one
			for i, m := range all {
				if i != c.N-4 {
					set = append(set, m)
				}
			}
		}
		for _, pat := range []string{"/m", "/a/{id}", "/{x}", "/o[/{y}]"} {
			var r *rux.Router
			what := fmt.Sprintf("route %q for methods %v (nil = Any) (options mask %d)", pat, set, c.Opts)
			if pv := try(func() {
				r = rux.New(c13Options(c.Opts)...)
				if set == nil {
					r.Any(pat, c13Noop)
				} else {
					r.Add(pat, c13Noop, set...)
				}
			}); pv != nil {
				add("methodset:rejected-valid", fmt.Sprintf("%s: registration panicked: %v", what, pv))
				continue
			}
			st.Nontrivial++
			methods := append(append([]string{}, all...), c13SpecialMethods...)
			methods = append(methods, "PROPFIND", " ", "GET ", "Get", "G", "GETS", "*")
			for _, m := range methods {
				for _, p := range []string{"/m", "/a/1", "/a", "/o", "/o/2", "/zz/q", "", "/"} {
					st.Evals++
					if pv := try(func() { r.Match(m, p) }); pv != nil {
						add("lookup:panic:match", fmt.Sprintf("%s was accepted by registration, but Match(%q,%q) panicked: %v", what, m, p, pv))
					}
					if _, pv := serve(r, m, p); pv != nil {
						add("lookup:panic:serve", fmt.Sprintf("%s was accepted by registration, but ServeHTTP(%q %q) panicked: %v", what, m, p, pv))
					}
				}
			}
		}
	case "methodlist":
		all := []string{"GET", "POST", "PUT", "PATCH", "DELETE", "OPTIONS", "HEAD", "CONNECT", "TRACE"}
		valid := make([]string, c.N)
		for i := range valid {
			valid[i] = all[i%len(all)]
		}
		st.Evals++
		if pv := try(func() { rux.New().Add("/m", c13Noop, valid...) }); pv != nil {
			add("method:rejected-valid", fmt.Sprintf("Add(\"/m\", h, %q) panicked although every name is a supported method: %v", valid, pv))
		}
		for _, bad := range []string{"BREW", "DEL", "GETS", "get?"} {
			for pos := 0; pos <= c.N; pos++ {
				// pos == N: every name is the unsupported one
				list := append([]string(nil), valid...)
				if pos == c.N {
					for i := range list {
						list[i] = bad
					}
				} else {
					list[pos] = bad
				}
				for _, pat := range []string{"/m", "/a/{id}"} {
					st.Evals++
					st.Nontrivial++
					var rt *rux.Route
					if pv := try(func() { rt = rux.New().Add(pat, c13Noop, list...) }); pv == nil {
						add("method:accepted-unknown", fmt.Sprintf("Add(%q, h, %q) (%d names): method name %q is not one of the 9 supported names but registration accepted it (route methods %q)", pat, list, len(list), bad, rt.Methods()))
					}
				}
			}
		}
	case "pattern":
		st.Evals++
		var r *rux.Router
		pv := try(func() {
			r = rux.New(c13Options(c.Opts)...)
			switch c.Via {
			case "group-prefix":
				r.Group(c.Pattern, func() { r.GET("/child", c13Noop) })
			case "controller-prefix":
				r.Controller(c.Pattern, &progCtl{hs: []rux.HandlerFunc{c13Noop, c13Noop, c13Noop}})
			default:
				r.GET(c.Pattern, c13Noop)
				r.POST(c.Pattern, c13Noop)
			}
		})
		what := fmt.Sprintf("route pattern %q (options mask %d)", c.Pattern, c.Opts)
		if c.Via != "" {
			what = fmt.Sprintf("pattern %q used as a %s (its route has a plain path of its own; options mask %d)", c.Pattern, c.Via, c.Opts)
		}
		if c.Reject {
			st.Nontrivial++
			if pv == nil {
				sig := "pattern:accepted-invalid"
				if strings.Contains(c.Pattern, ":") && strings.Contains(c.Pattern, "(") {
					sig += ":capturing-group"
				} else if strings.Contains(c.Pattern, "[") {
					sig += ":optional-not-at-end"
				}
				add(sig, what+": invalid by construction but registration accepted it")
				// still: lookups must not panic
				c13Lookups(r, c.Paths, what, st, add)
			} else if r != nil {
				// the rejected definition must not have left anything behind: the router (whose only accepted routes are
				// the ones registered before the rejection, if any) is used on
				c13AfterReject(r, append(append([]string{}, c.Paths...), c13ShortPaths[:31]...), what, st, add)
			}
			return viols
		}
		if pv != nil {
			// a control that registration refuses is not a violation: the statement only says what must be rejected
			st.Inc("controls_rejected", 1)
			return viols
		}
		st.Inc("controls_accepted", 1)
		c13Lookups(r, append(append([]string{}, c.Paths...), c13ShortPaths[:31]...), what, st, add)
		// every byte prefix of the pattern's literal start (extended by a value and a further segment), with and without
		// a trailing slash: lengths just below, at and above every internal boundary
		lit := c.Pattern
		if i := strings.IndexAny(lit, "{["); i >= 0 {
			lit = lit[:i]
		}
		lit += "7/zz"
		for _, p := range []string{"/c/1/2", "/1/x/2", "/t/1", "/t/1/2", "/c/12/ab", "/a/b/c", "/1/1/1"} {
			st.Evals++
			if pv := try(func() { r.Match("GET", p) }); pv != nil {
				add("lookup:panic:match", fmt.Sprintf("%s was accepted by registration, but Match(\"GET\",%q) panicked: %v", what, p, pv))
			}
			if _, pv := serve(r, "GET", p); pv != nil {
				add("lookup:panic:serve", fmt.Sprintf("%s was accepted by registration, but ServeHTTP(GET %q) panicked: %v", what, p, pv))
			}
		}
		for k := 0; k <= len(lit); k++ {
			for _, p := range []string{lit[:k], lit[:k] + "/"} {
				for _, m := range []string{"GET", "POST", "HEAD", "DELETE"} {
					st.Evals++
					if pv := try(func() { r.Match(m, p) }); pv != nil {
						add("lookup:panic:match", fmt.Sprintf("%s was accepted by registration, but Match(%q,%q) panicked: %v", what, m, p, pv))
					}
				}
			}
		}
	case "raw":
		prefix := ""
		for _, i := range c.Prefix {
			prefix += c13Tokens[i]
		}
		var rec func(cur string, n int)
		rec = func(cur string, n int) {
			st.Evals++
			var r, rc *rux.Router
			pv := try(func() {
				r = rux.New()
				r.GET(cur, c13Noop)
			})
			if pv == nil {
				st.Inc("raw_accepted", 1)
				dynamic := strings.ContainsAny(cur, "{[")
				what := fmt.Sprintf("raw pattern %q", cur)
				if dynamic {
					st.Nontrivial++
					st.Inc("raw_accepted_dynamic", 1)
					look := func(r *rux.Router, what string) {
						if c.Light {
							c13LightLookups(r, what, st, add)
						} else {
							c13Lookups(r, c13ShortPaths, what, st, add)
						}
					}
					look(r, what)
					// the same definition with every option on (normalisation differs in strict mode, so it may be rejected there)
					if pv2 := try(func() {
						rc = rux.New(c13Options(31)...)
						rc.GET(cur, c13Noop)
					}); pv2 == nil {
						look(rc, what+" (all options on, cache 2)")
					}
					// ... and with a cache that can hold nothing
					if pv3 := try(func() {
						rc = rux.New(c13Options(8 | 32)...)
						rc.GET(cur, c13Noop)
					}); pv3 == nil {
						c13LightLookups(rc, what+" (cache capacity 0)", st, add)
					}
				} else {
					// static: one exact and a few near lookups
					for _, p := range []string{cur, cur + "/", "/" + cur, " " + cur, "/a", ""} {
						if pv := try(func() { r.Match("GET", p) }); pv != nil {
							add("lookup:panic:match", fmt.Sprintf("%s was accepted by registration, but Match(GET,%q) panicked: %v", what, p, pv))
						}
					}
				}
			} else {
				st.Inc("raw_rejected", 1)
				if r != nil {
					c13AfterReject(r, c13ShortPaths[:31], fmt.Sprintf("raw pattern %q", cur), st, add)
				}
			}
			if n == c.Len {
				return
			}
			for _, t := range c13Tokens {
				rec(cur+t, n+1)
			}
		}
		// shorter strings are covered by the shards whose prefix they are; the one- and zero-token strings by shard (0,0)
		if c.Prefix[0] == 0 && c.Prefix[1] == 0 {
			for _, t := range append([]string{""}, c13Tokens...) {
				t := t
				if pv := try(func() {
					r := rux.New()
					r.GET(t, c13Noop)
					c13Lookups(r, c13ShortPaths[:31], fmt.Sprintf("raw pattern %q", t), st, add)
				}); pv != nil {
					st.Inc("raw_rejected", 1)
				}
			}
		}
		rec(prefix, 2)
		if st.WantSample() {
			st.Sample(map[string]any{"kind": "raw", "prefix": prefix, "max_tokens": c.Len, "tokens": c13Tokens})
		}
	}
	return viols
}

var c13Spec = fw.Spec[c13Case]{
	ID:    "C13",
	Level: "model_checking",
	Rule: "complete enumeration per category: (rejection) all method-name strings of <=4 letters over {G,E,T,D,L,P,U,S,H,A,space,comma} plus every prefix/suffix/case/concatenation variant of the 9 names, as single and mixed lists; method lists of every length 1..12 with one of 4 unsupported names at every position (and at all positions); handler counts 0..70 (and 27 counts up to 1000 around powers of two) through Route.Use, variadic middleware, Any(), group middleware and mixed; nil handler; each of the 8 options (alone and first of a pair) applied through WithOptions after a route exists; 13 accepted method sets (one name, several, Any, all but each one) on 4 route shapes x 32 option masks looked up with 22 method strings x 8 paths; structured variable regexes with a capturing group at every position (and escaped / non-capturing controls), optional parts not at the end, uncompilable regexes - each also as the prefix of a group / controller whose route has a plain path; " +
		"(totality) after every rejected definition the same router is looked up again (a rejected definition leaves nothing behind); ALL pattern strings of <=5 (thorough 6) tokens over 15 tokens: every one registration accepts is matched against 156 short paths + 16 special paths x 7 method strings through Match and ServeHTTP, on a default router and with all options on; non-trivial = an invalid-by-construction definition, or an accepted dynamic raw pattern",
	Assume: []string{"invalid definitions are built by injecting one listed fault into a valid definition; raw token strings are never classified, only checked for lookup totality"},
	Bounds: func(tier string) map[string]any {
		L := 5
		if tier == "thorough" {
			L = 6
		}
		return map[string]any{"raw_tokens": len(c13Tokens), "raw_max_tokens": L, "method_strings": len(c13MethodStrings()), "structured_patterns": len(c13Structured()), "handler_counts": "0..70"}
	},
	Gen:   c13Gen,
	Run:   c13Run,
	Batch: 8,
}

func init() {
	Registry["C13"] = func(args []string) int { return fw.Main(c13Spec, args) }
}
