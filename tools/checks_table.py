check('C14',
  'explicit-state model checking to fix-point of the real LRU cache against a reference LRU; BFS over request histories for the router clause',
  'Every reachable state of the real cachedRoutes for 1..4 keys x 2 values x capacities -1..4 is visited and every operation is applied in it and compared with a 30-line reference LRU (result, successor state, size invariants); the router clause is explored over all request histories up to the cache fix-point. Exhaustive within those bounds, which cover every branch of the 110-line cache.',
  'Bounded: at most 5 keys and capacity 5 (thorough). States are read through the verif hook VerifSnapshot; successors are built by replaying the shortest history on a fresh cache. Concurrency of the cache is decided under C03, not here.',
  'DESIGN.md 5 C14')
check('C01',
  'bounded exhaustive enumeration (complete product of route tables x methods x paths) of the real router against a reference resolver',
  'Every ordered table of up to 3 patterns (4 over a core pool) drawn from a 26-pattern pool that contains colliding inputs for every indexing shortcut of the router, with every method-set assignment, is registered on a real router and every one of 259 paths x 3-4 methods is resolved through Router.Match and ServeHTTP and compared with an independent reference resolver (back-tracking matcher + the documented tier rule). Nothing is sampled; the enumeration is complete within the stated alphabets.',
  'Small-scope: <=4 routes, <=3 path segments over 6 segment strings. The reference matcher and resolver (mc/refmodel/route.go) are trusted; they share no code with rux and are sanity-tested against hand-computed cases.',
  'DESIGN.md 5 C01')
check('C02',
  'bounded exhaustive enumeration of (pattern, request history) against a back-tracking reference matcher',
  'For each of 15 multi-variable patterns every ordered pair of candidate paths (all tuples over 12 values at every optional depth plus perturbations) is requested as the history p,q,p,q on routers with the cache off, capacity 1 and capacity 2, through Match and through ServeHTTP; the reported parameters must be a decomposition of the normalised path by the pattern (all decompositions are computed by an independent back-tracking matcher), non-matching paths must not reach the route, and the handler must see the same parameters.',
  'Values and patterns come from fixed alphabets; the reference matcher is trusted. Selection between several routes is C01.',
  'DESIGN.md 5 C02')
check('C06',
  'bounded exhaustive enumeration of (route table, option set, request) against a reference resolver',
  'Every ordered table of up to 2 (thorough 3) routes from an 11-route pool x all 16 option subsets x 6 InterceptAll values x default/custom NotFound and NotAllowed handlers is built; all 10 methods x 8 paths are resolved twice through Match and ServeHTTP and compared with the documented resolution order (direct, HEAD->GET, fallback route, 405 with exact allowed set / Allow header / OPTIONS 200, 404).',
  'Bounded tables and path alphabet; reference resolver trusted.',
  'DESIGN.md 5 C06')
check('C07',
  'explicit-state model checking to fix-point over request histories (cache-state graph) with a non-caching twin as oracle',
  'For 8 route tables x 8 option subsets x capacities 0..3 (thorough 0..4) the complete graph of reachable cache states of the real router is explored breadth-first (state = cache keys in recency order with the route and params each entry holds); in every state every request of an 12/15-request alphabet (hits, misses, evictions, HEAD->GET, 405 probes, fallback route, 404) is executed through Match and ServeHTTP and must observe exactly what the same router without caching observes. Fix-point reached: every state x every request.',
  'The canonical state is the cache content only (tables/options are frozen after registration, contexts are reset - C10). Bounded request alphabet and tables.',
  'DESIGN.md 5 C07')
check('C11',
  'bounded exhaustive enumeration: the full square of all strings up to length L as registered and as requested path',
  'ALL strings of length <=5 (thorough 6) over {/, space, ., a, b, TAB} are registered, each on its own router, and ALL of them are looked up against it in both StrictLastSlash modes (209 M / 6.3 G lookups): a request reaches the route iff both normalise to the same string under an independent 10-line normaliser, Route.Path() is that normal form and nothing panics. The same is done for group prefix x path x request (length <=3) and for raw/escaped paths of <=4 tokens under both UseEncodedPath settings.',
  'Alphabet of 6 characters, bounded length; net/url EscapedPath is taken as the definition of the escaped path.',
  'DESIGN.md 5 C11')
check('C13',
  'bounded exhaustive enumeration: invalid definitions built by construction must be rejected; every accepted definition of the complete token product is probed for lookup totality',
  'Rejection: all 22.8 k method-name strings (<=4 letters over a 12-symbol alphabet plus variants of the 9 names), handler counts 0..70 through every registration path, nil handlers, late options, and ~600 structured patterns (capturing group at every position of a variable regex, optional part not at the end, uncompilable regex) - each invalid by construction - must panic in the registration call. Totality: ALL pattern strings of <=5 (thorough 6) tokens over 15 tokens (0.8 M / 12 M) are offered to registration and every accepted one is matched against short and special path strings and method strings through Match and ServeHTTP, with all options off and all on; none may panic.',
  'Garbage patterns are never classified (only lookup totality is required of them). Over-rejection (a valid control refused) is not a violation of the statement and is only counted.',
  'DESIGN.md 5 C13')
