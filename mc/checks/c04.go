package checks

import (
	"strings"

	"verif/mc/fw"
	"verif/mc/refmodel"
)

// C04: middleware onion order. Part (a) registration programs (regprog.go),
// part (b) all behaviour vectors over {no Next, Next once, Next twice} for
// chains n<=6 x all global/group/route splits, part (c) chains near the
// handler limit with deviation bounding.

var c04Table = map[byte]refmodel.Behaviour{
	'p': {},
	'n': {refmodel.SNext},
	'd': {refmodel.SNext, refmodel.SNext},
	// records an error (for the OnError hook), then goes on like 'p' / 'n'
	'e': {refmodel.SAddErr},
	'f': {refmodel.SAddErr, refmodel.SNext},
}

type c04Case struct {
	Shapes []chainShape `json:"chains,omitempty"`
	Prog   *progCase    `json:"program,omitempty"`
}

func c04Gen(tier string, emit func(c04Case)) {
	var cur []chainShape
	push := func(s chainShape) {
		cur = append(cur, s)
		if len(cur) == 64 {
			emit(c04Case{Shapes: cur})
			cur = nil
		}
	}
	maxN := 6
	if tier == "thorough" {
		maxN = 7
	}
	for n := 1; n <= maxN; n++ {
		for _, sp := range splitsOf(n - 1) {
			for _, via := range []string{"variadic", "use", "mixed"} {
				if sp[2] < 2 && via != "variadic" {
					continue
				}
				vectors("pnd", n, func(b string) { push(chainShape{N: n, Split: sp, Via: via, Beh: b}) })
			}
		}
	}
	// the same chains on a dynamic route of a caching router, measured on the second identical request (a cache hit)
	for n := 1; n <= 4; n++ {
		for _, sp := range splitsOf(n - 1) {
			vectors("pnd", n, func(b string) { push(chainShape{N: n, Split: sp, Via: viaFor(sp), Beh: b, Hooks: "C"}) })
		}
	}
	// a HEAD-only dynamic route next to a GET route with other middleware on a caching router, measured after GET and HEAD warmed the cache
	for n := 1; n <= 4; n++ {
		for _, sp := range splitsOf(n - 1) {
			vectors("pn", n, func(b string) { push(chainShape{N: n, Split: sp, Via: "use", Beh: b, Hooks: "K"}) })
			// ... a route registered with Any from a caller-owned slice that the caller overwrites afterwards
			if sp[2] > 0 {
				vectors("pn", n, func(b string) { push(chainShape{N: n, Split: sp, Via: "variadic", Beh: b, Hooks: "N"}) })
			}
			// ... and a PUT route registered before a broader POST+PUT route, measured after a POST of the same path
			vectors("pn", n, func(b string) { push(chainShape{N: n, Split: sp, Via: "use", Beh: b, Hooks: "M"}) })
		}
	}
	// group middleware added one Use at a time + a later sibling route with middleware of its own
	// ... with three (and five) group middleware: append gives the slice spare capacity exactly then
	for _, sp := range [][3]int{{0, 3, 1}, {1, 3, 1}, {0, 3, 2}, {0, 5, 1}} {
		n := sp[0] + sp[1] + sp[2] + 1
		for _, via := range []string{"variadic", "use"} {
			vectors("pn", n, func(b string) { push(chainShape{N: n, Split: sp, Via: via, Beh: b, Hooks: "S"}) })
		}
	}
	for n := 3; n <= 4; n++ {
		for _, sp := range splitsOf(n - 1) {
			if sp[1] == 0 || sp[2] == 0 {
				continue
			}
			for _, via := range []string{"variadic", "use", "mixed"} {
				vectors("pn", n, func(b string) { push(chainShape{N: n, Split: sp, Via: via, Beh: b, Hooks: "S"}) })
			}
		}
	}
	// the chain of every action of a resource controller (route middleware from Uses()), for every method of the REST table
	for n := 1; n <= 3; n++ {
		for _, sp := range splitsOf(n - 1) {
			for _, via := range chainResVias {
				vectors("pn", n, func(b string) { push(chainShape{N: n, Split: sp, Via: via, Beh: b}) })
			}
		}
	}
	// handlers that record errors, on routers with an OnError hook (which must not change what the chain does)
	for n := 1; n <= 4; n++ {
		for _, sp := range splitsOf(n - 1) {
			vectors("pnef", n, func(b string) {
				if strings.ContainsAny(b, "ef") {
					push(chainShape{N: n, Split: sp, Via: viaFor(sp), Beh: b, Hooks: "E"})
				}
			})
		}
	}
	// the request reaches the measured route through another route's forwarding middleware (no global middleware)
	for n := 2; n <= 4; n++ {
		for _, sp := range splitsOf(n - 1) {
			if sp[0] > 0 {
				continue
			}
			vectors("pn", n, func(b string) { push(chainShape{N: n, Split: sp, Via: viaFor(sp), Beh: b, Hooks: "Y"}) })
		}
	}
	// caller-owned spread slices with spare capacity, reused by the caller for a second router / a sibling route
	for n := 2; n <= 4; n++ {
		for _, sp := range splitsOf(n - 1) {
			for _, via := range []string{"variadic", "use", "mixed"} {
				if sp[2] < 2 && via == "mixed" {
					continue
				}
				vectors("pn", n, func(b string) { push(chainShape{N: n, Split: sp, Via: via, Beh: b, Hooks: "V"}) })
			}
		}
	}
	// the same chains registered and served in rux's debug mode
	for n := 1; n <= 4; n++ {
		for _, sp := range splitsOf(n - 1) {
			for _, via := range []string{"variadic", "use"} {
				vectors("pn", n, func(b string) { push(chainShape{N: n, Split: sp, Via: via, Beh: b, Hooks: "D"}) })
			}
		}
	}
	d := 2
	for _, n := range []int{22, 33, 43, 44, 61, 62, 63} {
		splits := [][3]int{{0, 0, n - 1}, {2, 3, n - 6}, {3, 0, n - 4}}
		for _, def := range []byte{'p', 'n', 'd'} {
			for _, sp := range splits {
				dd := d
				if tier == "quick" && (n < 61 || sp[0] != 0) {
					dd = 1
				}
				deviations(n, def, "pnd", dd, func(b string) { push(chainShape{N: n, Split: sp, Via: "mixed", Beh: b}) })
			}
		}
	}
	// chains LONGER than the limit: group + route middleware stay within it, global middleware (not counted) adds the
	// rest; every handler must still run, in order
	for _, sp := range [][3]int{{1, 31, 31}, {2, 31, 31}, {3, 0, 62}, {17, 31, 31}, {40, 2, 3}} {
		n := sp[0] + sp[1] + sp[2] + 1
		for _, def := range []byte{'n', 'p'} {
			deviations(n, def, "pnd", 1, func(b string) { push(chainShape{N: n, Split: sp, Via: "mixed", Beh: b}) })
		}
	}
	if len(cur) > 0 {
		emit(c04Case{Shapes: cur})
	}
	progGen(tier, "C04", func(p progCase) { emit(c04Case{Prog: &p}) })
}

func c04Run(c c04Case, st *fw.Stats) []fw.Viol {
	if c.Prog != nil {
		return progRun(*c.Prog, "C04", st)
	}
	var vs []fw.Viol
	for _, sh := range c.Shapes {
		if strings.ContainsAny(sh.Beh, "pd") && sh.N > 1 {
			st.Nontrivial++
		}
		for _, v := range compareChain(sh, c04Table, st) {
			if len(vs) < 6 {
				vs = append(vs, v)
			}
		}
		st.Max("max_chain", int64(sh.N))
	}
	if st.WantSample() {
		st.Sample(map[string]any{"chain": c.Shapes[0], "codes": "p=returns without Next, n=Next once, d=Next twice"})
	}
	return vs
}

var c04Spec = fw.Spec[c04Case]{
	ID:    "C04",
	Level: "model_checking",
	Rule: "complete enumeration: (a) all registration programs of <=N statements over {Use(k), Group(prefix,k){...}, Route(k variadic + k2 later Route.Use), Resource (a controller instance with its own per-action Uses() middleware), NotFound(k), NotAllowed(k)} with nesting <=3, one request per registered route plus a 404 and a 405 request, then again after one more middleware was attached to every route (Route.Use) and after one more global middleware was added (Router.Use); (b) all behaviour vectors over {returns without Next, Next once, Next twice} for chains of n<=6 (thorough 7) x every split of the middleware into global/group/route x how route middleware is attached (n<=4 also on a dynamic route of a caching router, measured on the cache hit, registered and served in debug mode, as a PUT route registered before a broader POST+PUT route and measured after a POST of the same path, and registered with Any from a caller-owned slice that the caller overwrites afterwards); (c) chains of 22..63 handlers, and of 64..81 handlers (global middleware is not counted by the limit), by deviation bounding (uniform default, <=2 deviating positions); " +
		"oracle = enter/leave trace equals the cursor-free chain interpreter over the chain computed by the registration-program model; non-trivial = program with a group or a Use / chain with a handler that does not call Next exactly once",
	Assume: []string{"handler identity = closure id allocated in program order by both harness and model"},
	Bounds: func(tier string) map[string]any {
		if tier == "quick" {
			return map[string]any{"program_statements": 4, "nesting": 3, "vector_n": "1..6", "near_limit_n": "22,33,43,44,61,62,63", "deviations": "2 for n>=61 on the route-only split, else 1"}
		}
		return map[string]any{"program_statements": 5, "nesting": 3, "vector_n": "1..7", "near_limit_n": "22,33,43,44,61,62,63", "deviations": 2}
	},
	Gen:   c04Gen,
	Run:   c04Run,
	Batch: 4,
}

func init() {
	Registry["C04"] = func(args []string) int { return fw.Main(c04Spec, args) }
}
