package checks

import "verif/mc/fw"

// router clause of C14: explored on the cache-state graph of c07.go.

type c14RouterCfg struct {
	Cfg  cgConfig `json:"config"`
	Ext  bool     `json:"extended_alphabet"`
	Full int      `json:"unmerged_depth"`
}

func c14GenRouter(tier string, emit func(c14Case)) {
	cgGen(tier, func(c cgConfig, ext bool) {
		if c.Cap == 0 {
			return
		}
		emit(c14Case{Kind: "router", Router: &c14RouterCfg{Cfg: c, Ext: ext, Full: cgFullDepth(tier)}})
	})
}

func c14RunRouter(c c14Case, st *fw.Stats) []fw.Viol {
	return cacheGraphRun(c.Router.Cfg, cgReqsFor(c.Router.Cfg.Table, c.Router.Ext), "C14", c.Router.Full, st)
}
