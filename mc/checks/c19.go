package checks

import (
	"bytes"
	"encoding/json"
	"encoding/xml"
	"errors"
	"fmt"
	"io"
	"math"
	"net/http"
	"net/http/httptest"
	"strconv"
	"strings"
	"testing/iotest"

	"github.com/gookit/rux"
	"github.com/gookit/rux/pkg/render"

	"verif/mc/fw"
)

// C19: response helpers emit the given status, content type and a decodable body.

type c19XML struct {
	XMLName xml.Name `xml:"item" json:"-"`
	ID      int      `xml:"id" json:"id"`
	Name    string   `xml:"name" json:"name"`
	Tags    []string `xml:"tag" json:"tags"`
}

type c19Cyclic struct {
	Self *c19Cyclic `json:"self" xml:"self"`
}

var c19Strings = []string{"", "plain", "<b>html & \"quotes\"</b>", "unicode é 世界", "ctl\x00\x1f\n\ttab", "</script><script>", "100% ?#;"}

var c19Statuses = []int{200, 201, 204, 301, 302, 400, 404, 500}

var c19Callbacks = []string{"cb", "angular.callbacks._0", "$cb", "a[0]", "jQuery1_2", "回调"}

type c19Case struct {
	Kind   string `json:"kind"` // helper | render | negotiate | after | standalone
	Helper string `json:"helper,omitempty"`
	First  int    `json:"first,omitempty"`
	MaxLen int    `json:"max_accept_entries,omitempty"`
}

var c19Helpers = []string{"Text", "HTML", "JSON", "JSONBytes", "JSONP", "XML", "Blob", "Stream", "NoContent", "Redirect", "HTTPError"}

func c19Values() []any {
	vs := []any{}
	for _, s := range c19Strings {
		vs = append(vs, s)
	}
	vs = append(vs,
		map[string]any{"a": 1.0, "b": map[string]any{"c": []any{"x", 2.0, nil}}, "s": "<&>"},
		c19XML{ID: 7, Name: "n <&> é", Tags: []string{"a", "b"}},
		&c19XML{ID: -1, Name: "", Tags: nil},
		[]byte("bytes\x00\xff"),
		[]int{1, 2, 3},
		nil, 42, true, 3.5,
		// values that already are JSON text
		json.RawMessage(`{"x":[1,2,{"y":null}]}`), json.RawMessage(nil), json.RawMessage(`"s"`),
	)
	return vs
}

// c19SliceErr is an error whose dynamic type cannot be compared with ==
type c19SliceErr []string

func (e c19SliceErr) Error() string { return strings.Join(e, ";") }

func c19Unencodable() []any {
	cyc := &c19Cyclic{}
	cyc.Self = cyc
	return []any{make(chan int), func() {}, math.NaN(), map[string]any{"f": func() {}}, cyc, math.Inf(1), json.RawMessage(`{"broken":`), json.RawMessage(`]`)}
}

func c19Gen(tier string, emit func(c19Case)) {
	for _, h := range c19Helpers {
		emit(c19Case{Kind: "helper", Helper: h})
	}
	emit(c19Case{Kind: "render"})
	emit(c19Case{Kind: "after"})
	emit(c19Case{Kind: "standalone"})
	for i := 0; i < len(c19Accepts); i++ {
		emit(c19Case{Kind: "negotiate", First: i, MaxLen: map[string]int{"quick": 3, "thorough": 4}[tier]})
	}
}

var c19Accepts = []string{"application/json", "text/html", "text/plain", "application/xml", "text/xml", "foo/bar", "*/*", "application/json;q=0.8", "text/xml; q=0.1", ""}

func jsonEq(a []byte, v any) bool {
	want, err := json.Marshal(v)
	if err != nil {
		return false
	}
	var x, y any
	if json.Unmarshal(a, &x) != nil || json.Unmarshal(want, &y) != nil {
		return false
	}
	bx, _ := json.Marshal(x)
	by, _ := json.Marshal(y)
	return bytes.Equal(bx, by)
}

func xmlEq(body []byte, v any) bool {
	if !bytes.HasPrefix(body, []byte(xml.Header)) {
		return false
	}
	var got c19XML
	if xml.Unmarshal(body[len(xml.Header):], &got) != nil {
		return false
	}
	var want c19XML
	switch t := v.(type) {
	case c19XML:
		want = t
	case *c19XML:
		want = *t
	default:
		return false
	}
	return got.ID == want.ID && got.Name == want.Name && strings.Join(got.Tags, "\x00") == strings.Join(want.Tags, "\x00")
}

// runs f as the handler of one request; returns the recorder, the context errors, a panic value
func c19Serve(preset string, f func(c *rux.Context)) (*httptest.ResponseRecorder, []error, any) {
	r := rux.New()
	var errs []error
	// an earlier handler may already have selected (not committed) another status: the helper's own status wins
	if strings.HasPrefix(preset, "status500|") {
		preset = strings.TrimPrefix(preset, "status500|")
		r.Use(func(c *rux.Context) { c.SetStatus(500) })
	}
	// ... or may have recorded an error (no OnError hook is installed): the helper's response is not affected
	direct := false
	if strings.HasPrefix(preset, "direct|") {
		// the request is dispatched by Router.HandleContext on a context the caller built itself
		preset = strings.TrimPrefix(preset, "direct|")
		direct = true
	}
	if strings.HasPrefix(preset, "erred|") {
		preset = strings.TrimPrefix(preset, "erred|")
		r.Use(func(c *rux.Context) { c.AddError(errors.New("recorded by an earlier middleware")) })
	}
	r.GET("/x", func(c *rux.Context) {
		if preset != "" {
			c.SetHeader("Content-Type", preset)
		}
		n0 := len(c.Errors)
		f(c)
		errs = append(errs, c.Errors[n0:]...)
	})
	w := httptest.NewRecorder()
	req := httptest.NewRequest("GET", "/x", nil)
	req.Header.Set("Referer", "/back")
	pv := try(func() {
		if direct {
			ctx := &rux.Context{}
			ctx.Init(w, req)
			r.HandleContext(ctx)
			return
		}
		r.ServeHTTP(w, req)
	})
	return w, errs, pv
}

// one plain invocation of every helper (and the failing variants of the encoders)
type c19Call struct {
	name string
	f    func(c *rux.Context)
}

func c19Catalogue() []c19Call {
	return []c19Call{
		{"Text(200)", func(c *rux.Context) { c.Text(200, "t") }},
		{"HTML(200)", func(c *rux.Context) { c.HTML(200, []byte("<p>h</p>")) }},
		{"JSON(200, map)", func(c *rux.Context) { c.JSON(200, map[string]any{"a": 1}) }},
		{"JSON(200, unencodable)", func(c *rux.Context) { c.JSON(200, make(chan int)) }},
		{"JSONBytes(200)", func(c *rux.Context) { c.JSONBytes(200, []byte(`{"b":2}`)) }},
		{"JSONP(200)", func(c *rux.Context) { c.JSONP(200, "cb", map[string]any{"a": 1}) }},
		{"XML(200, struct)", func(c *rux.Context) { c.XML(200, c19XML{ID: 1, Name: "n"}) }},
		{"XML(200, unencodable)", func(c *rux.Context) { c.XML(200, make(chan int)) }},
		{"Blob(200)", func(c *rux.Context) { c.Blob(200, "x/blob", []byte("bl")) }},
		{"Stream(200)", func(c *rux.Context) { c.Stream(200, "x/stream", strings.NewReader("st")) }},
		{"NoContent", func(c *rux.Context) { c.NoContent() }},
		{"Redirect(302)", func(c *rux.Context) { c.Redirect("/to", 302) }},
		{"HTTPError(418)", func(c *rux.Context) { c.HTTPError("teapot", 418) }},
	}
}

func c19Observe(f func(c *rux.Context)) string {
	w, errs, pv := c19Serve("", f)
	return fmt.Sprintf("status=%d Content-Type=%q body=%q errors=%d panic=%v", w.Code, w.Header().Get("Content-Type"), w.Body.String(), len(errs), pv)
}

// what each helper produces in a process that has not produced any response yet (taken at program start)
var c19Pristine = func() []string {
	var out []string
	for _, h := range c19Catalogue() {
		out = append(out, c19Observe(h.f))
	}
	return out
}()

func c19Run(c c19Case, st *fw.Stats) []fw.Viol {
	var vs []fw.Viol
	add := func(sig, msg string) {
		if len(vs) < 6 {
			vs = append(vs, fw.Viol{Sig: sig, Msg: msg})
		}
	}
	if c.Kind == "standalone" {
		// a handler used directly as an http.Handler (rux.HandlerFunc.ServeHTTP builds a context that belongs to no
		// router): the helpers produce the same body and type, and an encoding failure is still recorded, not a panic
		for k, h := range c19Catalogue() {
			st.Evals++
			st.Nontrivial++
			var errs []error
			hf := rux.HandlerFunc(func(c *rux.Context) {
				h.f(c)
				errs = append(errs, c.Errors...)
			})
			w := httptest.NewRecorder()
			req := httptest.NewRequest("GET", "/x", nil)
			req.Header.Set("Referer", "/back")
			if pv := try(func() { hf.ServeHTTP(w, req) }); pv != nil {
				add("helper:panic-on-standalone-context", fmt.Sprintf("%s on the context of a handler used directly as http.Handler panicked: %v", h.name, pv))
				continue
			}
			got := fmt.Sprintf("Content-Type=%q body=%q errors=%d", w.Header().Get("Content-Type"), w.Body.String(), len(errs))
			want := c19Pristine[k]
			if i := strings.Index(want, "Content-Type="); i >= 0 {
				want = strings.TrimSuffix(want[i:], " panic=<nil>")
			}
			if got != want {
				add("helper:standalone-context", fmt.Sprintf("%s on the context of a handler used directly as http.Handler produces %s; through a router it produces %s", h.name, got, want))
			}
		}
		return vs
	}
	if c.Kind == "after" {
		// one response built by TWO helper calls in a row (an encoder that failed followed by an error page, say), then
		// every helper alone on a fresh router: it must produce what it produces in a pristine process
		cat := c19Catalogue()
		for i, h1 := range cat {
			for j, h2 := range cat {
				_, _, _ = c19Serve("", func(c *rux.Context) { h1.f(c); h2.f(c) })
				for k, h3 := range cat {
					st.Evals++
					st.Nontrivial++
					if got := c19Observe(h3.f); got != c19Pristine[k] {
						add("helper:changed-by-earlier-response", fmt.Sprintf("after a response built by %s followed by %s (calls %d,%d), %s on a fresh router produces %s; in a pristine process it produces %s", h1.name, h2.name, i, j, h3.name, got, c19Pristine[k]))
					}
				}
			}
		}
		return vs
	}
	check := func(what string, w *httptest.ResponseRecorder, pv any, status int, ctype string, bodyOK func([]byte) bool) {
		st.Evals++
		st.Nontrivial++
		if pv != nil {
			add("helper:panic", fmt.Sprintf("%s panicked: %v", what, pv))
			return
		}
		if w.Code != status {
			add("helper:status", fmt.Sprintf("%s: status %d, expected %d", what, w.Code, status))
		}
		if ctype != "*" && w.Header().Get("Content-Type") != ctype {
			add("helper:content-type", fmt.Sprintf("%s: Content-Type %q, expected %q", what, w.Header().Get("Content-Type"), ctype))
		}
		if bodyOK != nil && !bodyOK(w.Body.Bytes()) {
			add("helper:body", fmt.Sprintf("%s: body %q does not decode back to the value", what, trunc(w.Body.String())))
		}
	}
	switch c.Kind {
	case "helper":
		for _, status := range c19Statuses {
			switch c.Helper {
			case "Text", "HTML", "JSONBytes", "Blob", "Stream":
				for _, s := range c19Strings {
					for _, preset := range []string{"", "x/custom", "status500|", "erred|", "direct|"} {
						s, status := s, status
						ct := map[string]string{"Text": "text/plain; charset=utf-8", "HTML": "text/html; charset=utf-8", "JSONBytes": "application/json; charset=utf-8", "Blob": "app/blob", "Stream": "app/stream"}[c.Helper]
						w, _, pv := c19Serve(preset, func(ctx *rux.Context) {
							switch c.Helper {
							case "Text":
								ctx.Text(status, s)
							case "HTML":
								ctx.HTML(status, []byte(s))
							case "JSONBytes":
								ctx.JSONBytes(status, []byte(s))
							case "Blob":
								ctx.Blob(status, "app/blob", []byte(s))
							case "Stream":
								ctx.Stream(status, "app/stream", strings.NewReader(s))
							}
						})
						check(fmt.Sprintf("%s(%d, %q) preset Content-Type %q", c.Helper, status, s, preset), w, pv, status, ct, func(b []byte) bool { return string(b) == s })
					}
				}
				if c.Helper == "Stream" {
					// reader shapes: data together with EOF, one byte at a time, half reads, more than one buffer, a failing reader
					big := strings.Repeat("0123456789abcdef", 1300) + "tail"
					for _, body := range []string{"", "x", "stream body é", big} {
						for name, mk := range map[string]func(string) io.Reader{
							"data+EOF":    func(b string) io.Reader { return iotest.DataErrReader(strings.NewReader(b)) },
							"one-byte":    func(b string) io.Reader { return iotest.OneByteReader(strings.NewReader(b)) },
							"half":        func(b string) io.Reader { return iotest.HalfReader(strings.NewReader(b)) },
							"no-WriterTo": func(b string) io.Reader { return struct{ io.Reader }{strings.NewReader(b)} },
							"data+EOF no-WriterTo": func(b string) io.Reader {
								return iotest.DataErrReader(struct{ io.Reader }{strings.NewReader(b)})
							},
						} {
							body, status, mk := body, status, mk
							w, errs, pv := c19Serve("", func(ctx *rux.Context) { ctx.Stream(status, "app/stream", mk(body)) })
							what := fmt.Sprintf("Stream(%d, %s reader over %d bytes)", status, name, len(body))
							check(what, w, pv, status, "app/stream", func(b []byte) bool { return string(b) == body })
							if len(errs) != 0 {
								add("helper:unexpected-error", fmt.Sprintf("%s recorded errors %v", what, errs))
							}
						}
					}
					// readers that know their size and were partly read before they are handed over: what is streamed is the
					// rest, and a Content-Length, if one is announced, is the length of what is streamed
					for name, mk := range map[string]func() (io.Reader, string){
						"strings.Reader after 4 of 14 bytes": func() (io.Reader, string) {
							r := strings.NewReader("MAGICthe rest.")
							_, _ = io.ReadFull(r, make([]byte, 4))
							return r, "Cthe rest."
						},
						"bytes.Reader after 1 of 3 bytes": func() (io.Reader, string) {
							r := bytes.NewReader([]byte("abc"))
							_, _ = r.ReadByte()
							return r, "bc"
						},
						"io.SectionReader after 2 of 5 bytes": func() (io.Reader, string) {
							r := io.NewSectionReader(strings.NewReader("0123456789"), 3, 5)
							_, _ = io.ReadFull(r, make([]byte, 2))
							return r, "567"
						},
						"bytes.Reader read to its end": func() (io.Reader, string) {
							r := bytes.NewReader([]byte("abc"))
							_, _ = io.ReadAll(r)
							return r, ""
						},
						"bytes.Buffer after 2 of 6 bytes": func() (io.Reader, string) {
							r := bytes.NewBufferString("xxrest")
							r.Next(2)
							return r, "rest"
						},
					} {
						status, mk := status, mk
						var rest string
						w, _, pv := c19Serve("", func(ctx *rux.Context) {
							var rd io.Reader
							rd, rest = mk()
							ctx.Stream(status, "app/stream", rd)
						})
						what := fmt.Sprintf("Stream(%d, %s)", status, name)
						check(what, w, pv, status, "app/stream", func(b []byte) bool { return string(b) == rest })
						if cl := w.Header().Get("Content-Length"); cl != "" && cl != strconv.Itoa(w.Body.Len()) {
							add("helper:content-length", fmt.Sprintf("%s: announces Content-Length %s but sends %d bytes (%q)", what, cl, w.Body.Len(), trunc(w.Body.String())))
						}
					}
					// two helper failures in one request, with the very same error value / with errors of a type that cannot be
					// compared: both are reported, nothing panics
					for name, mkErr := range map[string]func() error{
						"the same sentinel error twice":           func() error { return io.ErrUnexpectedEOF },
						"two errors of an uncomparable type":      func() error { return c19SliceErr{"a", "b"} },
						"an uncomparable error after a plain one": nil,
					} {
						status, mkErr := status, mkErr
						_, errs2, pv2 := c19Serve("", func(ctx *rux.Context) {
							if mkErr == nil {
								ctx.AddError(errors.New("plain"))
								ctx.Stream(status, "app/stream", iotest.ErrReader(c19SliceErr{"x"}))
								ctx.AddError(c19SliceErr{"x"})
								return
							}
							ctx.Stream(status, "app/stream", iotest.ErrReader(mkErr()))
							ctx.Stream(status, "app/stream", iotest.ErrReader(mkErr()))
						})
						st.Evals++
						if pv2 != nil {
							add("helper:panic-on-unencodable", fmt.Sprintf("Stream(%d) failing twice in one request (%s) panicked: %v", status, name, pv2))
						} else if want := map[bool]int{true: 3, false: 2}[mkErr == nil]; len(errs2) != want {
							add("helper:no-error-on-unencodable", fmt.Sprintf("Stream(%d) failing twice in one request (%s): %d entries in the context's error list, expected %d", status, name, len(errs2), want))
						}
					}
					status := status
					w, errs, pv := c19Serve("", func(ctx *rux.Context) {
						ctx.Stream(status, "app/stream", io.MultiReader(strings.NewReader("partial"), iotest.ErrReader(errors.New("read failed"))))
					})
					st.Evals++
					if pv != nil {
						add("helper:panic-on-unencodable", fmt.Sprintf("Stream(%d, failing reader) panicked: %v", status, pv))
					} else if len(errs) == 0 {
						add("helper:no-error-on-unencodable", fmt.Sprintf("Stream(%d, failing reader): the read error is not in the context's error list (body %q)", status, trunc(w.Body.String())))
					}
				}
			case "JSON", "JSONP", "XML":
				for _, v := range c19Values() {
					for _, preset := range []string{"", "x/custom", "status500|", "erred|", "direct|"} {
						v, status := v, status
						// the callback name is emitted as given
						cbName := c19Callbacks[(status/100+len(preset))%len(c19Callbacks)]
						_, isX := v.(c19XML)
						_, isXP := v.(*c19XML)
						if c.Helper == "XML" && !isX && !isXP {
							continue
						}
						ct := map[string]string{"JSON": "application/json; charset=utf-8", "JSONP": "application/javascript; charset=utf-8", "XML": "application/xml; charset=utf-8"}[c.Helper]
						if preset != "" && preset != "status500|" && preset != "erred|" && preset != "direct|" {
							ct = preset // the renderers never override a Content-Type that is already set
						}
						w, errs, pv := c19Serve(preset, func(ctx *rux.Context) {
							switch c.Helper {
							case "JSON":
								ctx.JSON(status, v)
							case "JSONP":
								ctx.JSONP(status, cbName, v)
							case "XML":
								ctx.XML(status, v)
							}
						})
						what := fmt.Sprintf("%s(%d, %#v) preset Content-Type %q", c.Helper, status, v, preset)
						check(what, w, pv, status, ct, func(b []byte) bool {
							switch c.Helper {
							case "JSON":
								return jsonEq(b, v)
							case "JSONP":
								s := string(b)
								if !strings.HasPrefix(s, cbName+"(") || !strings.HasSuffix(s, ");") {
									return false
								}
								return jsonEq([]byte(s[len(cbName)+1:len(s)-2]), v)
							default:
								return xmlEq(b, v)
							}
						})
						if len(errs) != 0 {
							add("helper:unexpected-error", fmt.Sprintf("%s recorded errors %v", what, errs))
						}
					}
				}
				if c.Helper != "XML" {
					for _, v := range c19Unencodable() {
						v, status := v, status
						// a Content-Type the caller has set survives a failed encode as well
						wp, _, pvp := c19Serve("x/custom", func(ctx *rux.Context) {
							if c.Helper == "JSON" {
								ctx.JSON(status, v)
							} else {
								ctx.JSONP(status, "cb", v)
							}
						})
						if pvp == nil && wp.Header().Get("Content-Type") != "x/custom" {
							add("helper:preset-content-type-lost", fmt.Sprintf("%s(%d, unencodable %T) with preset Content-Type x/custom: Content-Type is now %q", c.Helper, status, v, wp.Header().Get("Content-Type")))
						}
						w, errs, pv := c19Serve("", func(ctx *rux.Context) {
							if c.Helper == "JSON" {
								ctx.JSON(status, v)
							} else {
								ctx.JSONP(status, "cb", v)
							}
						})
						st.Evals++
						st.Nontrivial++
						what := fmt.Sprintf("%s(%d, unencodable %T)", c.Helper, status, v)
						if pv != nil {
							add("helper:panic-on-unencodable", fmt.Sprintf("%s panicked: %v", what, pv))
						} else if len(errs) == 0 {
							add("helper:no-error-on-unencodable", fmt.Sprintf("%s: no error in the context's error list (status %d body %q)", what, w.Code, trunc(w.Body.String())))
						}
					}
				} else {
					// nil values: whatever is sent, the helper does not panic
					for _, v := range []any{nil, (*c19XML)(nil), []string(nil), error(nil)} {
						v := v
						_, _, pv := c19Serve("", func(ctx *rux.Context) { ctx.XML(status, v) })
						st.Evals++
						if pv != nil {
							add("helper:panic", fmt.Sprintf("XML(%d, %#v) panicked: %v", status, v, pv))
						}
					}
					for _, v := range []any{make(chan int), func() {}, map[string]int{"a": 1}} {
						v := v
						_, errs, pv := c19Serve("", func(ctx *rux.Context) { ctx.XML(status, v) })
						st.Evals++
						if pv != nil {
							add("helper:panic-on-unencodable", fmt.Sprintf("XML(%d, unencodable %T) panicked: %v", status, v, pv))
						} else if len(errs) == 0 {
							add("helper:no-error-on-unencodable", fmt.Sprintf("XML(%d, unencodable %T): no error in the context's error list", status, v))
						}
					}
				}
			case "NoContent":
				for _, preset := range []string{"", "status500|", "erred|", "direct|"} {
					w, _, pv := c19Serve(preset, func(ctx *rux.Context) { ctx.NoContent() })
					check(fmt.Sprintf("NoContent() preset %q", preset), w, pv, 204, "*", func(b []byte) bool { return len(b) == 0 })
				}
			case "Redirect":
				if status < 300 || status > 399 {
					continue
				}
				for _, target := range []string{"/to", "/a b?x=1&y=é", "http://other/x"} {
					target := target
					w, _, pv := c19Serve("", func(ctx *rux.Context) { ctx.Redirect(target, status) })
					check(fmt.Sprintf("Redirect(%q, %d)", target, status), w, pv, status, "*", nil)
					if loc := w.Header().Get("Location"); loc == "" {
						add("helper:redirect-location", fmt.Sprintf("Redirect(%q, %d): no Location header", target, status))
					}
				}
				if status == 301 {
					// every redirection code, through Redirect and through Back
					for code := 300; code <= 308; code++ {
						code := code
						w, _, pv := c19Serve("", func(ctx *rux.Context) { ctx.Redirect("/to", code) })
						check(fmt.Sprintf("Redirect(\"/to\", %d)", code), w, pv, code, "*", nil)
						w, _, pv = c19Serve("", func(ctx *rux.Context) { ctx.Back(code) })
						check(fmt.Sprintf("Back(%d)", code), w, pv, code, "*", nil)
					}
				}
				w, _, pv := c19Serve("", func(ctx *rux.Context) { ctx.Redirect("/dflt") })
				check("Redirect(\"/dflt\") default code", w, pv, 301, "*", nil)
				w, _, pv = c19Serve("", func(ctx *rux.Context) { ctx.Back() })
				check("Back()", w, pv, 302, "*", nil)
				if w.Header().Get("Location") != "/back" {
					add("helper:redirect-location", "Back(): Location is not the referer")
				}
			case "HTTPError":
				for _, s := range c19Strings {
					for _, preset := range []string{"", "x/custom", "application/json; charset=utf-8", "status500|", "erred|"} {
						s := s
						w, _, pv := c19Serve(preset, func(ctx *rux.Context) { ctx.HTTPError(s, status) })
						check(fmt.Sprintf("HTTPError(%q, %d) preset Content-Type %q", s, status, preset), w, pv, status, "text/plain; charset=utf-8", func(b []byte) bool { return string(b) == s+"\n" })
					}
				}
			}
		}
	case "render":
		// the renderers of pkg/render never override a preset Content-Type; failures come back as errors
		type rf struct {
			name string
			ct   string
			f    func(w http.ResponseWriter) error
			body string
		}
		val := map[string]any{"k": "v<>"}
		for _, preset := range []string{"", "x/custom", "text/weird; a=b"} {
			fns := []rf{
				{"render.Text", "text/plain; charset=utf-8", func(w http.ResponseWriter) error { return render.Text(w, "t") }, "t"},
				{"render.Plain", "text/plain; charset=utf-8", func(w http.ResponseWriter) error { return render.Plain(w, "t") }, "t"},
				{"render.TextBytes", "text/plain; charset=utf-8", func(w http.ResponseWriter) error { return render.TextBytes(w, []byte("t")) }, "t"},
				{"render.HTML", "text/html; charset=utf-8", func(w http.ResponseWriter) error { return render.HTML(w, "<i>") }, "<i>"},
				{"render.HTMLBytes", "text/html; charset=utf-8", func(w http.ResponseWriter) error { return render.HTMLBytes(w, []byte("<i>")) }, "<i>"},
				{"render.Blob", "a/b", func(w http.ResponseWriter) error { return render.Blob(w, "a/b", []byte("zz")) }, "zz"},
				{"render.JSON", "application/json; charset=utf-8", func(w http.ResponseWriter) error { return render.JSON(w, val) }, ""},
				{"render.JSONIndented", "application/json; charset=utf-8", func(w http.ResponseWriter) error { return render.JSONIndented(w, val) }, ""},
				{"render.JSONP", "application/javascript; charset=utf-8", func(w http.ResponseWriter) error { return render.JSONP("cb", val, w) }, ""},
				{"render.XML", "application/xml; charset=utf-8", func(w http.ResponseWriter) error { return render.XML(w, c19XML{ID: 1}) }, ""},
				{"render.XMLPretty", "application/xml; charset=utf-8", func(w http.ResponseWriter) error { return render.XMLPretty(w, c19XML{ID: 1}) }, ""},
			}
			// the string / byte renderers over the whole string alphabet (incl. the empty string and nil bytes)
			for _, sv := range c19Strings {
				sv := sv
				bv := []byte(sv)
				if sv == "" {
					bv = nil
				}
				q := fmt.Sprintf("(%q)", sv)
				fns = append(fns,
					rf{"render.Text" + q, "text/plain; charset=utf-8", func(w http.ResponseWriter) error { return render.Text(w, sv) }, "=" + sv},
					rf{"render.Plain" + q, "text/plain; charset=utf-8", func(w http.ResponseWriter) error { return render.Plain(w, sv) }, "=" + sv},
					rf{"render.TextBytes" + q, "text/plain; charset=utf-8", func(w http.ResponseWriter) error { return render.TextBytes(w, bv) }, "=" + sv},
					rf{"render.HTML" + q, "text/html; charset=utf-8", func(w http.ResponseWriter) error { return render.HTML(w, sv) }, "=" + sv},
					rf{"render.HTMLBytes" + q, "text/html; charset=utf-8", func(w http.ResponseWriter) error { return render.HTMLBytes(w, bv) }, "=" + sv},
					rf{"render.Blob" + q, "a/b", func(w http.ResponseWriter) error { return render.Blob(w, "a/b", bv) }, "=" + sv},
				)
			}
			for _, fn := range fns {
				st.Evals++
				st.Nontrivial++
				w := httptest.NewRecorder()
				if preset != "" {
					w.Header().Set("Content-Type", preset)
				}
				var err error
				if pv := try(func() { err = fn.f(w) }); pv != nil {
					add("render:panic", fmt.Sprintf("%s panicked: %v", fn.name, pv))
					continue
				}
				want := fn.ct
				if preset != "" {
					want = preset
				}
				if err != nil || w.Header().Get("Content-Type") != want {
					add("render:content-type", fmt.Sprintf("%s with preset Content-Type %q: Content-Type %q err=%v, expected %q", fn.name, preset, w.Header().Get("Content-Type"), err, want))
				}
				if strings.HasPrefix(fn.body, "=") {
					if w.Body.String() != fn.body[1:] {
						add("render:body", fmt.Sprintf("%s with preset Content-Type %q: body %q", fn.name, preset, w.Body.String()))
					}
				} else if fn.body != "" && w.Body.String() != fn.body {
					add("render:body", fmt.Sprintf("%s: body %q", fn.name, w.Body.String()))
				}
			}
		}
		for _, v := range c19Unencodable() {
			for name, f := range map[string]func(w http.ResponseWriter, v any) error{
				"render.JSON":  func(w http.ResponseWriter, v any) error { return render.JSON(w, v) },
				"render.JSONP": func(w http.ResponseWriter, v any) error { return render.JSONP("cb", v, w) },
				"render.XML":   func(w http.ResponseWriter, v any) error { return render.XML(w, v) },
			} {
				if _, isF := v.(float64); isF && name == "render.XML" {
					continue // XML encodes NaN / Inf as text
				}
				if _, isRaw := v.(json.RawMessage); isRaw && name == "render.XML" {
					continue // for encoding/xml a RawMessage is a byte slice like any other
				}
				if _, isC := v.(*c19Cyclic); isC && name == "render.XML" {
					continue // encoding/xml has no cycle detection: not a value the statement can mean
				}
				st.Evals++
				var err error
				wr := httptest.NewRecorder()
				wr.Header().Set("Content-Type", "x/custom")
				if pv := try(func() { _ = f(wr, v) }); pv == nil && wr.Header().Get("Content-Type") != "x/custom" {
					add("render:preset-content-type-lost", fmt.Sprintf("%s(%T) failed to encode and changed the preset Content-Type to %q", name, v, wr.Header().Get("Content-Type")))
				}
				if pv := try(func() { err = f(httptest.NewRecorder(), v) }); pv != nil {
					add("render:panic-on-unencodable", fmt.Sprintf("%s(%T) panicked: %v", name, v, pv))
				} else if err == nil {
					add("render:no-error-on-unencodable", fmt.Sprintf("%s(%T) returned no error", name, v))
				}
			}
		}
	case "negotiate":
		if c.First == 0 {
			// the JSON renderer with and without HTML escaping, indented or not: the body decodes back to the value - also for
			// strings that hold the TEXT of an escape sequence
			for _, v := range []any{"<&>", `a\u003cb`, `{"embedded":"\u0026"}`, map[string]any{"k<": `v\u003e`, "n": 1.5}, []any{"\\u0026", "&"}} {
				for _, jr := range []render.JSONRenderer{{}, {NotEscape: true}, {Indent: "  "}, {Indent: " ", NotEscape: true}} {
					st.Evals++
					st.Nontrivial++
					wj := httptest.NewRecorder()
					var err error
					if pv := try(func() { err = jr.Render(wj, v) }); pv != nil {
						add("render:panic", fmt.Sprintf("JSONRenderer%+v.Render(%#v) panicked: %v", jr, v, pv))
					} else if err != nil || !jsonEq(wj.Body.Bytes(), v) {
						add("render:json-body", fmt.Sprintf("JSONRenderer%+v.Render(%#v): err=%v, body %q does not decode back to the value", jr, v, err, trunc(wj.Body.String())))
					}
				}
			}
			// ShouldRender reports the failure of THIS rendering (nil when the value was encoded), whatever was recorded on
			// the context before
			for _, pre := range []bool{false, true} {
				for _, tc := range []struct {
					val  any
					fail bool
				}{{map[string]any{"a": 1}, false}, {"text", false}, {make(chan int), true}, {math.NaN(), true}} {
					st.Evals++
					st.Nontrivial++
					var got error
					preset := ""
					if pre {
						preset = "erred|"
					}
					w, _, pv := c19Serve(preset, func(ctx *rux.Context) { got = ctx.ShouldRender(201, tc.val, render.JSONRenderer{}) })
					if pv != nil {
						add("helper:panic", fmt.Sprintf("ShouldRender(201, %T, JSON) panicked: %v", tc.val, pv))
					} else if (got != nil) != tc.fail || (got != nil && strings.Contains(got.Error(), "recorded by an earlier middleware")) {
						add("helper:should-render-error", fmt.Sprintf("ShouldRender(201, %T, JSON) (an error recorded earlier on the context: %v) returned %v; expected failure=%v of this rendering (status %d body %q)", tc.val, pre, got, tc.fail, w.Code, trunc(w.Body.String())))
					}
				}
			}
			// Context.AcceptedTypes, the list a negotiating handler reads, is the list of THIS request: every ordered pair of
			// Accept headers on one router (the second request runs on a recycled context, asked twice), against a router
			// that only ever saw the second header
			{
				accepted := func(r *rux.Router, accept string) string {
					req := httptest.NewRequest("GET", "/acc", nil)
					if accept != "" {
						req.Header.Set("Accept", accept)
					}
					w := httptest.NewRecorder()
					if pv := try(func() { r.ServeHTTP(w, req) }); pv != nil {
						return fmt.Sprintf("panic: %v", pv)
					}
					return w.Body.String()
				}
				mk := func() *rux.Router {
					r := rux.New()
					r.GET("/acc", func(ctx *rux.Context) {
						ctx.Text(200, strings.Join(ctx.AcceptedTypes(), "|")+"#"+strings.Join(ctx.AcceptedTypes(), "|"))
					})
					return r
				}
				for _, a := range c19Accepts {
					for _, b := range c19Accepts {
						st.Evals++
						st.Nontrivial++
						want := accepted(mk(), b)
						r := mk()
						_ = accepted(r, a)
						for k := 0; k < 2; k++ {
							if got := accepted(r, b); got != want {
								add("negotiate:accepted-types-of-another-request", fmt.Sprintf("Context.AcceptedTypes() (read twice) for Accept %q on a router that served Accept %q before (request #%d with it): %q; a fresh router answers %q", b, a, k+1, got, want))
							}
						}
					}
				}
			}
			// the first supported type listed answers even when the value cannot be encoded in it: the failure is returned
			// (nothing falls through to a later entry of the list)
			for _, tc := range []struct {
				accept string
				val    any
			}{{"application/xml, application/json", map[string]int{"a": 1}}, {"text/xml,application/json", map[string]int{"a": 1}}, {"application/json, application/xml", math.NaN()},
				{"foo/bar, application/json, text/plain", make(chan int)}, {"application/json;q=0.9, application/xml", math.Inf(1)},
				// ... and when the answering type is text/plain (listed, or the fallback for an absent / unsupported Accept)
				{"text/plain", make(chan int)}, {"", map[string]any{"f": func() {}}}, {"foo/bar", math.NaN()}, {"text/plain, application/json", struct{ C chan int }{}}} {
				st.Evals++
				st.Nontrivial++
				w := httptest.NewRecorder()
				req := httptest.NewRequest("GET", "/x", nil)
				if tc.accept != "" {
					req.Header.Set("Accept", tc.accept)
				}
				var err error
				if pv := try(func() { err = render.Auto(w, req, tc.val) }); pv != nil {
					add("negotiate:panic", fmt.Sprintf("render.Auto(%T) with Accept %q panicked: %v", tc.val, tc.accept, pv))
				} else if err == nil {
					add("negotiate:first-supported", fmt.Sprintf("render.Auto with Accept %q and a value (%T) that the first supported type listed cannot encode: no error was returned (Content-Type %q, body %q)", tc.accept, tc.val, w.Header().Get("Content-Type"), trunc(w.Body.String())))
				}
			}
		}
		supported := map[string]string{"application/json": "json", "text/html": "html", "text/plain": "text", "application/xml": "xml", "text/xml": "xml"}
		val := c19XML{ID: 3, Name: "n"}
		var rec func(list []string)
		rec = func(list []string) {
			st.Evals++
			accept := strings.Join(list, ", ")
			want := ""
			nonEmpty := 0
			for _, a := range list {
				m := strings.TrimSpace(strings.Split(a, ";")[0])
				if m != "" {
					nonEmpty++
				}
				if k, ok := supported[m]; ok && want == "" {
					want = k
				}
			}
			if nonEmpty == 0 {
				want = "text" // no Accept: the fallback type
			}
			if len(list) > 1 {
				st.Nontrivial++
			}
			w := httptest.NewRecorder()
			req := httptest.NewRequest("GET", "/x", nil)
			if accept != "" {
				req.Header.Set("Accept", accept)
			}
			var err error
			if pv := try(func() { err = render.Auto(w, req, val) }); pv != nil {
				add("negotiate:panic", fmt.Sprintf("render.Auto with Accept %q panicked: %v", accept, pv))
				return
			}
			got := ""
			ct := w.Header().Get("Content-Type")
			switch {
			case err != nil:
				got = ""
			case strings.HasPrefix(ct, "application/json"):
				got = "json"
			case strings.HasPrefix(ct, "application/xml"):
				got = "xml"
			case strings.HasPrefix(ct, "text/plain"):
				got = "text"
			case ct == "" && w.Body.Len() == 0:
				got = "html"
			default:
				got = "?" + ct
			}
			if got != want {
				sig := "negotiate:first-supported"
				if want == "xml" {
					sig += ":xml"
				}
				add(sig, fmt.Sprintf("render.Auto with Accept %q: rendered as %q (Content-Type %q, err=%v), the first supported type listed is %q", accept, got, ct, err, want))
			}
			if len(list) >= max(c.MaxLen, 3) {
				return
			}
			for _, a := range c19Accepts {
				rec(append(append([]string(nil), list...), a))
			}
		}
		rec([]string{c19Accepts[c.First]})
		if c.First == 0 {
			rec(nil)
		}
	}
	if st.WantSample() {
		st.Sample(map[string]any{"case": c, "statuses": c19Statuses, "strings": c19Strings})
	}
	return vs
}

var c19Spec = fw.Spec[c19Case]{
	ID:    "C19",
	Level: "model_checking",
	Rule: "complete product: every helper on the context of a handler used directly as http.Handler; every helper alone on a fresh router after every ordered pair of 13 helper calls built one earlier response (differential against the pristine process); 11 context helpers x 8 status codes x value alphabets (7 strings with HTML / unicode / control characters; maps, structs, pointers, byte and int slices, scalars; unencodable chan / func / NaN / Inf / cyclic values / invalid json.RawMessage; json.RawMessage values incl. nil; two helper failures in one request with the same or with uncomparable error values; for Stream also 5 reader shapes and 5 sized readers that were partly read before - the rest is streamed and an announced Content-Length equals it) x preset Content-Type absent / present (HTTPError answers text/plain whatever was set before) x another status already selected by an earlier handler / an error already recorded by an earlier middleware (no OnError hook) / the request dispatched by HandleContext on a caller-owned context; 11 pkg/render functions x 3 preset Content-Types (the six string / byte renderers over all 7 strings incl. the empty one and nil bytes); render.Auto x ALL Accept lists of <=3 (thorough 4) entries over 10 entries (the five supported MIME strings, foo/bar, */*, q-parameters, empty) 4 JSON renderer settings (escaping / indentation) x 5 values holding HTML characters and the text of escape sequences; ShouldRender with and without an earlier recorded error; Context.AcceptedTypes for every ordered pair of the 10 Accept headers on one router against a fresh router; and 9 lists whose answering type (the first supported one listed, or the text/plain fallback) cannot encode the value (the failure is returned); " +
		"oracle: recorded status, documented Content-Type (preset preserved by every pkg/render renderer), body decodes back (JSONP unwrapped), first supported entry wins, encoding failures land in Context.Errors / the returned error; every evaluation is non-trivial except single-entry Accept lists",
	Assume: []string{"text/html negotiation is the code's documented no-op and is modelled as such", "XML round trips use one struct type; encoding/xml has no cycle detection so cyclic values are not offered to it"},
	Bounds: func(tier string) map[string]any {
		return map[string]any{"helpers": len(c19Helpers), "statuses": len(c19Statuses), "accept_entries": len(c19Accepts), "accept_list_len": 3}
	},
	Gen:   c19Gen,
	Run:   c19Run,
	Batch: 1,
}

func init() {
	Registry["C19"] = func(args []string) int { return fw.Main(c19Spec, args) }
}
