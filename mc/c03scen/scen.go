// Package c03scen holds the harness bodies of C03: router shapes, request
// kinds and the per-request observation. The same bodies are used by the
// controlled-scheduler exploration and by the free-running -race pass.
package c03scen

import (
	"fmt"
	"hash/crc32"
	"io"
	"net/http"
	"net/url"
	"os"
	"path/filepath"
	"sort"
	"strings"
	"sync"
	"time"

	"github.com/gookit/rux"
	"github.com/gookit/rux/pkg/handlers"
)

// Shape is a router shape.
type Shape struct {
	Globals      int  `json:"globals"`       // number of global middleware
	GlobalsApart bool `json:"globals_apart"` // added by separate Use calls (slice capacity > length) instead of one call
	GroupMW      int  `json:"group_mw"`
	RouteMW      int  `json:"route_mw"`
	RouteMWLater bool `json:"route_mw_later"` // attached by a later Route.Use (again spare capacity) instead of variadic
	Cache        int  `json:"cache"`          // -1 = caching off, else capacity
	NotAllowed   bool `json:"not_allowed"`
	CustomNF     bool `json:"custom_not_found"`
	CustomNA     bool `json:"custom_not_allowed"`
	Hook         bool `json:"on_panic_hook"`
}

func (s Shape) String() string {
	return fmt.Sprintf("globals=%d(apart=%v) group=%d route=%d(later=%v) cache=%d notAllowed=%v customNF=%v customNA=%v hook=%v",
		s.Globals, s.GlobalsApart, s.GroupMW, s.RouteMW, s.RouteMWLater, s.Cache, s.NotAllowed, s.CustomNF, s.CustomNA, s.Hook)
}

// Req is a request kind.
type Req struct {
	Method string `json:"m"`
	Path   string `json:"p"`
}

func (q Req) String() string { return q.Method + " " + q.Path }

// Kinds: same static route, two static routes, cached / uncached dynamic
// routes (same path = hit vs fill, different paths = eviction), 404, 405
// probe, HEAD->GET fallback.
var Kinds = []Req{
	{"GET", "/a"}, {"GET", "/b"}, {"GET", "/u/1"}, {"GET", "/u/2"}, {"GET", "/k/y"},
	{"GET", "/zz/q"}, {"POST", "/a"}, {"HEAD", "/u/1"}, {"POST", "/u/1"}, {"GET", "/g/s"}, {"POST", "/k/y"}, {"GET", "/cp/7"},
	{"GET", "/redir"}, {"GET", "/to/1"},
	// a HEAD request for a static GET-only path; two requests whose handlers build the URL of one named route from
	// their own parameter
	{"HEAD", "/a"}, {"GET", "/bu/1"}, {"GET", "/bu/2"},
	// a path that is not in normal form (normalised on every request)
	{"GET", "//b/"},
	// a second dynamic route in the lookup bucket of /u/{id}; a form post and a query request bound by Context.Bind
	// (two different binders of pkg/binding)
	{"GET", "/u/1/z"}, {"POST", "/bind"}, {"GET", "/bind?q=x&age=4"},
	// a route with an optional part and no variables whose handler adds an entry to the parameter map it was given
	{"GET", "/mo.html"},
	// a handler that hands its context to a SECOND router whose handler panics; a handler that reports which router its
	// context belongs to; a download of a 70 KB file through Context.FileContent (three copy rounds)
	{"GET", "/sub/boom"}, {"GET", "/who"}, {"GET", "/file"},
	// handlers that record an error of their own and read the error list back; a streaming handler (write, Flush, write)
	{"GET", "/err/1"}, {"GET", "/err/2"}, {"GET", "/stream"},
}

var (
	bigOnce sync.Once
	bigPath string
)

// bigFile returns the path of a 70 KB file with position-dependent content (written once per machine, re-created when missing)
func bigFile() string {
	bigOnce.Do(func() {
		bigPath = filepath.Join(os.TempDir(), "rux-verif-c03-download.bin")
		want := make([]byte, 70*1024)
		for i := range want {
			want[i] = byte('a' + (i/1024)%26)
		}
		if got, err := os.ReadFile(bigPath); err == nil && string(got) == string(want) {
			return
		}
		tmp := fmt.Sprintf("%s.%d", bigPath, os.Getpid())
		if os.WriteFile(tmp, want, 0o644) == nil {
			_ = os.Rename(tmp, bigPath)
		}
	})
	return bigPath
}

// bindForm is what the /bind route binds (the form binder and the query binder read different tags)
type bindForm struct {
	Name string `form:"name" query:"q"`
	Age  int    `form:"age" query:"age"`
}

// kept holds, per request, the Copy() of the context its handler kept beyond the request
var kept sync.Map

// Yield is called by the harness handlers at entry and exit (a scheduling
// point under the controlled scheduler, nothing in the free-running pass).
var Yield = func() {}

func mw(tag string) rux.HandlerFunc {
	return func(c *rux.Context) {
		Yield()
		c.WriteString(tag + ">")
		c.Next()
		c.WriteString("<" + tag)
		Yield()
	}
}

func main(tag string) rux.HandlerFunc {
	return func(c *rux.Context) {
		Yield()
		ps := make([]string, 0, len(c.Params))
		for k, v := range c.Params {
			ps = append(ps, k+"="+v)
		}
		sort.Strings(ps)
		if tag == "U" {
			// this route answers through the JSON response helper (pkg/render is instrumented as well)
			c.JSON(200, rux.M{"route": tag, "params": strings.Join(ps, ","), "method": c.Req.Method, "path": c.Req.URL.Path})
			Yield()
			return
		}
		c.WriteString("[" + tag + " " + strings.Join(ps, ",") + " " + c.Req.Method + " " + c.Req.URL.Path + "]")
		Yield()
	}
}

// Build registers the shape on a fresh router.
func Build(s Shape) *rux.Router {
	var opts []func(*rux.Router)
	if s.Cache >= 0 {
		opts = append(opts, rux.CachingWithNum(uint16(s.Cache)))
	}
	if s.NotAllowed {
		opts = append(opts, rux.HandleMethodNotAllowed)
	}
	r := rux.New(opts...)
	var gs []rux.HandlerFunc
	for i := 0; i < s.Globals; i++ {
		gs = append(gs, mw(fmt.Sprintf("g%d", i)))
	}
	if s.GlobalsApart {
		for _, g := range gs {
			r.Use(g)
		}
	} else if len(gs) > 0 {
		r.Use(gs...)
	}
	route := func(path, tag string, methods ...string) {
		var rm []rux.HandlerFunc
		for i := 0; i < s.RouteMW; i++ {
			rm = append(rm, mw(fmt.Sprintf("%s.r%d", tag, i)))
		}
		if s.RouteMWLater {
			rt := r.Add(path, main(tag), methods...)
			for _, m := range rm {
				rt.Use(m)
			}
		} else {
			r.Add(path, main(tag), methods...).Use(rm...)
		}
	}
	route("/a", "A", "GET")
	route("/b", "B", "GET")
	// two methods each, so that a 405 probe for another method resolves (and caches) the route twice
	route("/u/{id}", "U", "GET", "DELETE")
	route("/{x}/y", "XY", "GET", "PUT")
	route("/u/{id}/z", "UZ", "GET")
	sub := rux.New()
	sub.GET("/sub/boom", func(c *rux.Context) { panic("boom in the mounted router") })
	r.GET("/sub/boom", func(c *rux.Context) {
		Yield()
		sub.HandleContext(c)
	})
	r.GET("/who", func(c *rux.Context) {
		Yield()
		c.WriteString(fmt.Sprintf("[WHO router-is-the-serving-router=%v]", c.Router() == r))
	})
	r.GET("/err/{id}", func(c *rux.Context) {
		Yield()
		c.AddError(fmt.Errorf("error of request %s", c.Param("id")))
		Yield()
		c.WriteString(fmt.Sprintf("[ERR n=%d first=%v]", len(c.Errors), c.FirstError()))
	})
	r.GET("/stream", func(c *rux.Context) {
		Yield()
		c.WriteString("chunk1;")
		if f, ok := c.Resp.(http.Flusher); ok {
			f.Flush()
		}
		Yield()
		c.WriteString("chunk2")
	})
	r.GET("/file", func(c *rux.Context) {
		Yield()
		c.FileContent(bigFile())
	})
	r.GET("/mo[.html]", func(c *rux.Context) {
		Yield()
		seen := fmt.Sprintf("%d%s", len(c.Params), c.Param("ext"))
		if c.Params != nil {
			c.Params["ext"] = "html"
		}
		Yield()
		c.WriteString("[MO " + seen + "]")
	})
	r.Add("/bind", func(c *rux.Context) {
		Yield()
		var f bindForm
		err := c.Bind(&f)
		Yield()
		c.WriteString(fmt.Sprintf("[BIND %s err=%v %+v]", c.Req.Method, err, f))
	}, "GET", "POST")
	if s.GroupMW > 0 {
		var gm []rux.HandlerFunc
		for i := 0; i < s.GroupMW; i++ {
			gm = append(gm, mw(fmt.Sprintf("grp%d", i)))
		}
		r.Group("/g", func() { route("/s", "GS", "GET") }, gm...)
	} else {
		r.Group("/g", func() { route("/s", "GS", "GET") })
	}
	// a panicking route and a route that re-dispatches with HandleContext (used as sequential history)
	// a handler that keeps a copy of its context for later (a background job would)
	r.GET("/cp/{id}", func(c *rux.Context) {
		Yield()
		c.Set("user", "u"+c.Param("id"))
		kept.Store(c.Req, c.Copy())
		c.WriteString("[CP " + c.Param("id") + "]")
		Yield()
	})
	r.AddNamed("post", "/users/{uid}/posts/{pid}", main("POST"), "GET")
	r.GET("/bu/{id}", func(c *rux.Context) {
		Yield()
		u := c.Router().BuildURL("post", "{uid}", c.Param("id"), "{pid}", "1"+c.Param("id"))
		Yield()
		c.WriteString("[BU " + u.String() + "]")
	})
	// a route behind the Timeout middleware whose deadline has already passed (no wall-clock dependence): the handler
	// still runs to completion on the request's own goroutine
	r.GET("/to/{id}", main("TO"), handlers.Timeout(-time.Second))
	route("/boom", "BOOM", "GET")
	r.GET("/boom/now", func(c *rux.Context) { panic("boom") })
	r.GET("/redir", func(c *rux.Context) {
		c.Req.URL.Path = "/a"
		c.Router().HandleContext(c)
	})
	if s.Hook {
		r.OnPanic = func(c *rux.Context) {
			c.SetStatus(500)
			c.WriteString("recovered")
		}
	}
	if s.CustomNF {
		r.NotFound(mw("nf0"), func(c *rux.Context) {
			c.Text(404, fmt.Sprintf("custom-not-found %s params=%d%v", c.Req.URL.Path, len(c.Params), c.Params))
		})
	}
	if s.CustomNA {
		r.NotAllowed(func(c *rux.Context) {
			al, _ := c.SafeGet(rux.CTXAllowedMethods).([]string)
			al = append([]string(nil), al...)
			sort.Strings(al)
			c.Text(405, fmt.Sprintf("custom-not-allowed %s params=%d%v", strings.Join(al, ","), len(c.Params), c.Params))
		})
	}
	return r
}

// Rec is a minimal recording ResponseWriter owned by one request.
type Rec struct {
	H      http.Header
	Code   int
	NWH    int
	Body   []byte
	Thread int
	NFlush int
}

func NewRec() *Rec                  { return &Rec{H: http.Header{}} }
func (w *Rec) Header() http.Header  { return w.H }
func (w *Rec) WriteHeader(code int) { w.NWH++; w.Code = code }
func (w *Rec) Flush()               { w.NFlush++ }
func (w *Rec) Write(b []byte) (int, error) {
	w.Body = append(w.Body, b...)
	return len(b), nil
}

// Serve runs one request and returns everything its issuer observes.
func Serve(r http.Handler, q Req) (obs string) {
	w := NewRec()
	req := &http.Request{Method: q.Method, URL: &url.URL{Path: q.Path}, Header: http.Header{}, Proto: "HTTP/1.1", ProtoMajor: 1, ProtoMinor: 1}
	if i := strings.IndexByte(q.Path, '?'); i >= 0 {
		req.URL.Path, req.URL.RawQuery = q.Path[:i], q.Path[i+1:]
	}
	if q.Method == "POST" && q.Path == "/bind" {
		req.Header.Set("Content-Type", "application/x-www-form-urlencoded")
		req.Body = io.NopCloser(strings.NewReader("name=n&age=3"))
	}
	defer func() {
		if p := recover(); p != nil {
			obs = fmt.Sprintf("PANIC: %v", p)
		}
	}()
	r.ServeHTTP(w, req)
	if len(w.Body) > 4096 {
		// (a download: length and checksum instead of the bytes)
		obs = fmt.Sprintf("%d wh=%d allow=%q <%d bytes, crc32 %08x>", w.Code, w.NWH, w.H.Get("Allow"), len(w.Body), crc32.ChecksumIEEE(w.Body))
	} else {
		obs = fmt.Sprintf("%d wh=%d allow=%q %q", w.Code, w.NWH, w.H.Get("Allow"), w.Body)
	}
	if w.NFlush > 0 || q.Path == "/stream" {
		obs += fmt.Sprintf(" flushed=%d", w.NFlush)
	}
	if cp, ok := kept.LoadAndDelete(req); ok {
		// the request is over and its pooled context may already serve someone else: the copy must still read the same
		Yield()
		c := cp.(*rux.Context)
		obs += fmt.Sprintf(" kept-copy{user=%v path=%v id=%s}", c.SafeGet("user"), c.SafeGet(rux.CTXCurrentRoutePath), c.Param("id"))
	}
	return obs
}

// QuickShapes / ThoroughShapes
func Shapes(thorough bool) []Shape {
	var out []Shape
	caches := []int{-1, 1, 2}
	for _, g := range []int{0, 1, 3} {
		for _, apart := range []bool{false, true} {
			if g < 2 && apart {
				continue
			}
			for _, c := range caches {
				s := Shape{Globals: g, GlobalsApart: apart, Cache: c, NotAllowed: true}
				// vary the other dimensions with the shape index so that each value occurs with each cache setting
				i := len(out)
				s.GroupMW = i % 2
				s.RouteMW = (i / 2 % 2) * 2
				s.RouteMWLater = i%3 == 0
				s.CustomNF = i%4 == 1
				s.CustomNA = i%4 == 2
				s.Hook = i%2 == 1
				out = append(out, s)
			}
		}
	}
	if thorough {
		for _, g := range []int{2, 3} {
			for _, c := range []int{-1, 0, 1, 2} {
				for v := 0; v < 4; v++ {
					out = append(out, Shape{Globals: g, GlobalsApart: true, Cache: c, NotAllowed: v&1 == 0, GroupMW: 1, RouteMW: 2, RouteMWLater: v&2 != 0, CustomNF: v == 1, CustomNA: v == 2, Hook: v >= 2})
				}
			}
		}
	}
	return out
}
