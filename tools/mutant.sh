#!/bin/bash
# tools/mutant.sh <patch.diff> <tier> <check id>...   — applies the patch to a scratch worktree of /repo (never to /repo),
# optionally runs rux's own suite there (SUITE=1), runs the checks against it and reports which ones raise a VIOLATION.
set -u
PATCH="$(readlink -f "$1")"; TIER="$2"; shift 2
HERE="$(cd "$(dirname "${BASH_SOURCE[0]}")/.." && pwd)"
WT="$(mktemp -d /tmp/rux-mut.XXXXXX)"
cleanup() { git -C /repo worktree remove --force "$WT" >/dev/null 2>&1; rm -rf "$WT"; git -C /repo worktree prune; }
trap cleanup EXIT
git -C /repo worktree add --detach -q "$WT" HEAD || exit 2
if ! git -C "$WT" apply "$PATCH" 2>/dev/null && ! git -C "$WT" apply --3way "$PATCH" 2>/dev/null; then echo "MUTANT $(basename "$PATCH"): patch does not apply"; exit 2; fi
export GOFLAGS=-mod=mod GOPROXY=off GOSUMDB=off GOTOOLCHAIN=local
if [ "${SUITE:-0}" = 1 ]; then
  if (cd "$WT" && go test -vet=off -count=1 ./... >/tmp/suite.$$.log 2>&1); then echo "MUTANT $(basename "$PATCH"): suite passes"; else echo "MUTANT $(basename "$PATCH"): SUITE FAILS"; grep -E "^(--- FAIL|FAIL|panic)" /tmp/suite.$$.log | head -5; fi
  rm -f /tmp/suite.$$.log
fi
rc=0
for id in "$@"; do
  out="$(VERIF_REPO="$WT" VERIF_OUT="$WT/.verif-out" "$HERE/bin/check" "$id" "$TIER" 2>&1)"; code=$?
  if [ $code = 1 ] && grep -q "^VIOLATION property=$id" <<<"$out"; then
    echo "MUTANT $(basename "$PATCH"): $id CAUGHT: $(grep -A2 "^VIOLATION" <<<"$out" | sed -n '2,3p' | tr '\n' ' ' | cut -c1-400)"
  else
    echo "MUTANT $(basename "$PATCH"): $id MISSED (exit $code): $(tail -2 <<<"$out" | tr '\n' ' ' | cut -c1-300)"; rc=1
  fi
done
exit $rc
