package checks

import (
	"errors"
	"fmt"
	"strings"
	"time"

	"github.com/gookit/rux"
	"github.com/gookit/rux/pkg/handlers"

	"verif/mc/fw"
)

// C10: every request starts from a pristine context whatever happened before.
// All histories of length <= 3 (thorough 4) over the 15 request kinds of
// kinds.go; differential oracle: the last request of a history observes what
// the same request observes as the first request on a fresh identical router.

type c10Case struct {
	Prefix []string `json:"history_prefix"` // the case enumerates all completions by one more request
	Hook   bool     `json:"on_panic_hook"`
	OnErr  bool     `json:"on_error_handler"`
	Cache  bool     `json:"caching"`
	NoGlob bool     `json:"no_global_middleware"`
	MutNA  bool     `json:"not_allowed_handler_edits_its_slice,omitempty"`
	// Detached: instead of a history, one request through handlers.Timeout whose handler is held inside the chain by
	// the harness: ServeHTTP must not return (and so recycle the context) while the handler still runs
	Detached string `json:"handler_held_under_timeout,omitempty"` // "expired" | "far"
}

func c10Gen(tier string, emit func(c10Case)) {
	maxPrefix := 2
	if tier == "thorough" {
		maxPrefix = 3
	}
	for cfg := 0; cfg < 13; cfg++ {
		if tier == "thorough" {
			maxPrefix = 3
		} else if cfg%2 == 0 && cfg != 0 && cfg != 8 {
			// quick: histories of length 3 on seven configurations, of length 2 on the other five
			maxPrefix = 1
		} else {
			maxPrefix = 2
		}
		if cfg < 8 {
			emit(c10Case{Hook: cfg&1 != 0, OnErr: cfg&2 != 0, Cache: cfg&4 != 0, Detached: "expired"})
			emit(c10Case{Hook: cfg&1 != 0, OnErr: cfg&2 != 0, Cache: cfg&4 != 0, Detached: "far"})
		}
		var rec func(p []string)
		rec = func(p []string) {
			if cfg == 12 {
				// a custom NotAllowed handler that edits the allowed-methods slice it is handed (with caching on)
				emit(c10Case{Prefix: append([]string(nil), p...), Cache: true, MutNA: true})
			} else if cfg >= 8 {
				// routers without global middleware and with custom NotFound / NotAllowed chains
				emit(c10Case{Prefix: append([]string(nil), p...), Hook: cfg&1 != 0, Cache: cfg&2 != 0, NoGlob: true})
			} else {
				emit(c10Case{Prefix: append([]string(nil), p...), Hook: cfg&1 != 0, OnErr: cfg&2 != 0, Cache: cfg&4 != 0})
			}
			if len(p) == maxPrefix {
				return
			}
			for _, k := range kindNames {
				rec(append(p, k))
			}
		}
		rec(nil)
	}
}

// c10Detached: the handler of GET /slow (behind handlers.Timeout) is held by the harness. ServeHTTP returning while it
// is held means the context goes back to the pool with a handler still using it. The wait for "does not return" is a
// bounded one (100 ms): it can only miss a violation, never invent one.
func c10Detached(c c10Case, cfg kindCfg, st *fw.Stats) []fw.Viol {
	var vs []fw.Viol
	for _, last := range kindNames {
		st.Evals++
		st.Nontrivial++
		k := newKindRouter(cfg)
		d := time.Hour
		if c.Detached == "expired" {
			d = -time.Second
		}
		entered, proceed, served := make(chan struct{}), make(chan struct{}), make(chan struct{})
		k.r.GET("/slow", func(ctx *rux.Context) {
			close(entered)
			<-proceed
			ctx.Set("late", "value")
			ctx.AddError(errors.New("late"))
		}, handlers.Timeout(d))
		base := newKindRouter(cfg)
		base.r.GET("/slow", func(ctx *rux.Context) {}, handlers.Timeout(d))
		go func() {
			defer close(served)
			k.doReq("GET", "/slow", nil)
		}()
		early := false
		select {
		case <-entered:
			select {
			case <-served:
				early = true
			case <-time.After(100 * time.Millisecond):
			}
		case <-served:
			early = true
		}
		if early && len(vs) < 6 {
			vs = append(vs, fw.Viol{Sig: "pristine:served-while-handler-runs", Msg: fmt.Sprintf("router{hook=%v onError=%v cache=%v} GET /slow behind handlers.Timeout(%v): ServeHTTP returned while the route's handler was still running (its context is back in the pool and the handler still holds it)", c.Hook, c.OnErr, c.Cache, d)})
		}
		if early {
			// the held handler is never released: letting it go on would make it run on a recycled context (it may
			// index past the next request's chain and bring the process down); this router is not used any further
			continue
		}
		close(proceed)
		<-served
		got := k.do(last, nil)
		want := base.do(last, nil)
		if got.String() != want.String() && len(vs) < 6 {
			vs = append(vs, fw.Viol{Sig: "pristine:context-state", Msg: fmt.Sprintf("router{hook=%v onError=%v cache=%v} GET /slow behind handlers.Timeout(%v) then %q: observed %s; on a fresh identical router: %s", c.Hook, c.OnErr, c.Cache, d, last, got, want)})
		}
	}
	return vs
}

func c10Run(c c10Case, st *fw.Stats) []fw.Viol {
	var vs []fw.Viol
	cfg := kindCfg{Hook: c.Hook, OnError: c.OnErr, Cache: c.Cache, NoGlobal: c.NoGlob, MutNA: c.MutNA}
	if c.Cache && c.Hook && !c.MutNA {
		// (the configurations with a hook cache one entry only: every second dynamic path evicts the first)
		cfg.CacheCap = 1
	}
	if c.Detached != "" {
		return c10Detached(c, cfg, st)
	}
	for _, last := range kindNames {
		st.Evals++
		base := newKindRouter(cfg).do(last, nil)
		k := newKindRouter(cfg)
		seen := map[*rux.Context]bool{}
		for _, h := range c.Prefix {
			k.do(h, seen)
		}
		got := k.do(last, seen)
		if got.reused {
			st.Inc("last_request_on_reused_context", 1)
			st.Nontrivial++
		}
		if strings.Contains(got.snap, "PARAMS-NOT-FROM-ROUTE") || strings.Contains(base.snap, "PARAMS-NOT-FROM-ROUTE") {
			if len(vs) < 6 {
				vs = append(vs, fw.Viol{Sig: "pristine:params-not-from-route", Msg: fmt.Sprintf("router{hook=%v onError=%v cache=%v noGlobalMiddleware=%v} history [%s] then %q: observed %s; as the first request on a fresh identical router of this process: %s", c.Hook, c.OnErr, c.Cache, c.NoGlob, strings.Join(c.Prefix, ", "), last, got, base)})
			}
		}
		if got.String() != base.String() {
			sig := "pristine:" + last
			switch {
			case strings.Contains(got.snap, "KEPT-COPY-CHANGED"):
				sig = "pristine:kept-copy-changed-by-later-request"
			case got.snap != base.snap:
				sig = "pristine:context-state"
			case got.resp != base.resp:
				sig = "pristine:response"
			}
			if len(vs) < 6 {
				vs = append(vs, fw.Viol{Sig: sig, Msg: fmt.Sprintf("router{hook=%v onError=%v cache=%v noGlobalMiddleware=%v notAllowedHandlerEditsItsSlice=%v} history [%s] then %q: observed %s; as the first request on a fresh identical router: %s", c.Hook, c.OnErr, c.Cache, c.NoGlob, c.MutNA, strings.Join(c.Prefix, ", "), last, got, base)})
			}
		}
	}
	if st.WantSample() && len(c.Prefix) >= 2 {
		st.Sample(map[string]any{"history_prefix": c.Prefix, "then_each_of": kindNames, "config": fmt.Sprintf("hook=%v onError=%v cache=%v", c.Hook, c.OnErr, c.Cache)})
	}
	return vs
}

var c10Spec = fw.Spec[c10Case]{
	ID:    "C10",
	Level: "model_checking",
	Rule: "complete enumeration: all request histories of length <=3 (quick: on 7 of the 12 router configurations, <=2 on the others; thorough 4 on all 13 configurations) over 32 request kinds (handler stores values / records errors / aborts / sets status and writes / replaces c.Resp / replaces c.Req / calls SetHandlers / dynamic routes with params / 404 / 405 / panics (also after recording an uncommitted status) / edits the url.Values of its query / renders a view that fails half way / renders a view / hijacks the connection / streams with Flush / re-dispatches with HandleContext / issues a nested ServeHTTP / copies the context / hands the request to a second router mounted through the net/http adapter / decorates the URL value BuildURL gave it / adds an entry to the parameter map of a route without variables) x {OnPanic hook} x {OnError handler} x {caching, two entries - one entry on the configurations with a hook}, plus four configurations without any global middleware and with custom NotFound / NotAllowed chains, and one whose NotAllowed handler edits the allowed-methods slice it is given; a probe installed as first global middleware snapshots Data, Params, Errors, abort state, status, length, chain length, writer and request identity at entry (the parameters found at entry must also be exactly those the request's route yields - an absolute expectation no twin of the same process is needed for), plus one request through handlers.Timeout (deadline passed / far) whose handler the harness holds inside the chain: ServeHTTP must not return meanwhile; " +
		"differential oracle: the last request observes exactly what it observes as first request on a fresh identical router; non-trivial = history whose last request really ran on a context used earlier in the history (pointer identity)",
	Assume: []string{"sync.Pool is the real one here (reuse is counted, not forced); the controlled pool of C03 forces reuse deterministically"},
	Bounds: func(tier string) map[string]any {
		if tier == "quick" {
			return map[string]any{"kinds": len(kindNames), "history_length": 3, "router_configs": 13}
		}
		return map[string]any{"kinds": len(kindNames), "history_length": 4, "router_configs": 13}
	},
	Gen: c10Gen,
	Run: c10Run,
	Guard: func(tier string, st *fw.Stats) []string {
		if st.C["last_request_on_reused_context"] == 0 {
			return []string{"no history ended on a reused context"}
		}
		return nil
	},
	Batch: 4,
	BudgetSec: func(tier string) int {
		if tier == "thorough" {
			return 3600
		}
		return 120
	},
}

func init() {
	Registry["C10"] = func(args []string) int { return fw.Main(c10Spec, args) }
}
