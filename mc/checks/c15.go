package checks

import (
	"fmt"
	"net/http"
	"net/http/httptest"
	"net/url"
	"regexp"
	"strings"

	"github.com/gookit/rux"

	"verif/mc/fw"
	"verif/mc/refmodel"
)

// C15: a URL built for a named route is routed back to that route.

var c15Templates = []string{
	"/s/static",
	"/u/{id}",
	`/u2/{id:\d+}`,
	`/n/{c}/{i:\d+}/d`,
	"/t/{a}/{b}/{c}",
	"/f/{f:.+}",
	"/p-{id}/x",
	"/v/{id}.json",
	"/a.b/{x}",
	"/x/{name:[a-z]+}/y",
	`/w/{w:[a-z0-9 .]+}`,
	`/m/{x}/m/{y:\d+}`,
	"/{all}",
	"/num/{num}",
	// a route that begins with a variable (values may equal the literal first segment of another dynamic route)
	"/{user}/repos",
	// custom regexes on variables that carry the name of a global variable
	`/ar/{num:\d+}`,
	`/tg/{all:[a-z]+}/feed`,
	// more literal dots than the shortest values have bytes
	"/v1.0/f.x/{name}.json",
	"/d.o.t.s/{a}/{b}",
	// static routes whose literal text holds characters that are special in a URL reference
	"/lang/c#/intro",
	"/faq/why?/short",
	"/sale/50%25/off",
	"/a b/c;d/e&f=g",
	// a two-node literal head in front of two variables
	"/api/{ver}/{id}",
}

var c15Values = []string{"7", "20", "ab", "a b", "é", "100%", "a?b", "a#b", "a;b", "a%2Fb", ".", "..", "a/b", "x.json", "0", "a+b", "a&b=c", " ", "%41"}

var c15Extras = [][][2]string{nil, {{"page", "2"}}, {{"page", "2"}, {"q", "a b&c=d"}}, {{"utf", "é/?#"}}}

type c15Case struct {
	Kind     string   `json:"kind"` // build | naming
	Template string   `json:"template,omitempty"`
	Style    string   `json:"style,omitempty"`      // map | pairs | builder | builder-reused
	Reg      string   `json:"registered,omitempty"` // "" top-level AddNamed | group: NewNamedRoute, ToURL() once, AddRoute inside Group("/api") | controller
	Ops      []string `json:"naming_ops,omitempty"`
}

var c15VarRe = regexp.MustCompile(`\{([a-z0-9]+)(?::([^/]+))?\}`)

func c15Gen(tier string, emit func(c15Case)) {
	for _, t := range c15Templates {
		for _, st := range []string{"map", "pairs", "builder", "builder-reused"} {
			emit(c15Case{Kind: "build", Template: t, Style: st})
		}
		// the same route registered inside a group (after its URL template was already asked for once), and named afterwards
		for _, st := range []string{"map", "builder"} {
			emit(c15Case{Kind: "build", Template: t, Style: st, Reg: "group"})
			emit(c15Case{Kind: "build", Template: t, Style: st, Reg: "named-later"})
			emit(c15Case{Kind: "build", Template: t, Style: st, Reg: "root-group"})
			// a POST route with the same literal skeleton and variable names but other variable regexes is registered first
			emit(c15Case{Kind: "build", Template: t, Style: st, Reg: "twin-before"})
			// a caching router that has already answered "no route" for every URL it will build, before the route exists
			emit(c15Case{Kind: "build", Template: t, Style: st, Reg: "late-after-miss"})
			// a caching router with room for two entries only: all URLs are built and requested in two passes
			emit(c15Case{Kind: "build", Template: t, Style: st, Reg: "tiny-cache-two-passes"})
			emit(c15Case{Kind: "build", Template: t, Style: st, Reg: "head-twin-cached"})
			if strings.Contains(t, "{") {
				emit(c15Case{Kind: "build", Template: t, Style: st, Reg: "strict-slash"})
			}
			// a later route that has one of the values as literal text where the template has its first variable
			if strings.Count(t, "{") >= 2 {
				emit(c15Case{Kind: "build", Template: t, Style: st, Reg: "literal-decoy-after"})
				emit(c15Case{Kind: "build", Template: t, Style: st, Reg: "literal-decoy-after-listed"})
			}
		}
	}
	// naming: all sequences of <= 3 operations over 2 names x 3 APIs
	var ops []string
	for _, api := range []string{"AddNamed", "NewNamedRoute", "NamedTo"} {
		for _, name := range []string{"n1", "n2"} {
			ops = append(ops, api+":"+name)
		}
	}
	// renaming an already registered route (the first / the previous one) with NamedTo
	for _, name := range []string{"n1", "n2"} {
		ops = append(ops, "RenameFirst:"+name, "RenamePrev:"+name)
	}
	// a route that is named first (NamedTo on a Route value that no router holds yet) and attached afterwards
	for _, name := range []string{"n1", "n2"} {
		ops = append(ops, "NamedToThenAttachTo:"+name)
	}
	// a route for ANOTHER method registered under the name with the very path of the previous registration
	for _, name := range []string{"n1", "n2"} {
		ops = append(ops, "AddNamedSamePathOtherMethod:"+name)
	}
	maxL := 3
	if tier == "thorough" {
		maxL = 4
	}
	var rec func(cur []string)
	rec = func(cur []string) {
		if len(cur) > 0 {
			emit(c15Case{Kind: "naming", Ops: append([]string(nil), cur...)})
		}
		if len(cur) == maxL {
			return
		}
		for _, o := range ops {
			rec(append(cur, o))
		}
	}
	rec(nil)
}

func c15Run(c c15Case, st *fw.Stats) []fw.Viol {
	var vs []fw.Viol
	add := func(sig, msg string) {
		if len(vs) < 6 {
			vs = append(vs, fw.Viol{Sig: sig, Msg: msg})
		}
	}
	if c.Kind == "naming" {
		st.Evals++
		r := rux.New()
		want := map[string]*rux.Route{}
		var all []*rux.Route
		lastPath := ""
		for i, op := range c.Ops {
			parts := strings.SplitN(op, ":", 2)
			api, name := parts[0], parts[1]
			path := fmt.Sprintf("/p%d/{id}", i)
			if len(c.Ops)%2 == 0 {
				path = fmt.Sprintf("/p%d", i) // static routes: BuildURL without arguments
			}
			var rt *rux.Route
			switch api {
			case "AddNamedSamePathOtherMethod":
				if lastPath == "" {
					continue
				}
				path = lastPath
				rt = r.AddNamed(name, path, c13Noop, []string{"POST", "PUT", "DELETE"}[i%3])
			case "NamedToThenAttachTo":
				rt = rux.NewRoute(path, c13Noop, "GET")
				rt.NamedTo(name, r)
				rt.AttachTo(r)
			case "AddNamed":
				rt = r.AddNamed(name, path, c13Noop, "GET")
			case "NewNamedRoute":
				rt = rux.NewNamedRoute(name, path, c13Noop, "GET")
				r.AddRoute(rt)
			case "NamedTo":
				rt = r.GET(path, c13Noop)
				rt.NamedTo(name, r)
			case "RenameFirst", "RenamePrev":
				if len(all) == 0 {
					continue
				}
				rt = all[0]
				if api == "RenamePrev" {
					rt = all[len(all)-1]
				}
				rt.NamedTo(name, r)
				want[name] = rt
				continue
			}
			all = append(all, rt)
			want[name] = rt
			lastPath = path
			// after every step the URL built for the name is the URL of the route now registered under it
			if !strings.Contains(path, "{") {
				if pv := try(func() {
					if u := r.BuildURL(name); u.Path != rt.Path() {
						add("naming:build-stale", fmt.Sprintf("naming operations %v, after step %d: BuildURL(%q) = %q, the route now registered under that name has path %q", c.Ops, i+1, name, u.Path, rt.Path()))
					}
				}); pv != nil {
					add("naming:build-panic", fmt.Sprintf("naming operations %v, after step %d: BuildURL(%q) panicked: %v", c.Ops, i+1, name, pv))
				}
			}
		}
		if len(c.Ops) > 1 {
			st.Nontrivial++
		}
		for name, rt := range want {
			got := r.GetRoute(name)
			if got != rt {
				gp := "<nil>"
				if got != nil {
					gp = got.Path()
				}
				add("naming:last-wins", fmt.Sprintf("naming operations %v: GetRoute(%q) returns route %s, the route most recently registered under that name is %s", c.Ops, name, gp, rt.Path()))
			} else if got.Name() != name && !strings.Contains(strings.Join(c.Ops, " "), "Rename") {
				add("naming:name", fmt.Sprintf("naming operations %v: GetRoute(%q).Name() = %q", c.Ops, name, got.Name()))
			}
			// the route a name points at is a registered one: its own path reaches it
			reqPath := strings.ReplaceAll(rt.Path(), "{id}", "5")
			if m, _, _ := r.Match(rt.Methods()[0], reqPath); m == nil {
				add("naming:not-registered", fmt.Sprintf("naming operations %v: GetRoute(%q) is %s %s, but %s %q matches no route", c.Ops, name, rt.Methods()[0], rt.Path(), rt.Methods()[0], reqPath))
			}
			if u := try(func() { r.BuildURL(name, "{id}", "5") }); u != nil {
				add("naming:build-panic", fmt.Sprintf("naming operations %v: BuildURL(%q) panicked: %v", c.Ops, name, u))
			}
		}
		return vs
	}
	// ---- build round trip ----
	strict := false
	if c.Reg == "strict-slash" {
		// StrictLastSlash router: the named route is the template WITH a trailing slash, a sibling without it exists too
		strict = true
		c.Template += "/"
	}
	vars := c15VarRe.FindAllStringSubmatch(c.Template, -1)
	type vdef struct {
		name string
		re   *regexp.Regexp
	}
	var defs []vdef
	for _, m := range vars {
		re := m[2]
		if re == "" {
			re = `[^/]+`
			if g, ok := refmodel.GlobalVars[m[1]]; ok {
				re = g
			}
		}
		defs = append(defs, vdef{m[1], regexp.MustCompile("^(?:" + re + ")$")})
	}
	var seenIdx int = -1
	var seenParams map[string]string
	r := rux.New()
	if c.Reg == "late-after-miss" {
		r = rux.New(rux.CachingWithNum(64))
	}
	if c.Reg == "tiny-cache-two-passes" {
		r = rux.New(rux.CachingWithNum(2))
	}
	if c.Reg == "head-twin-cached" {
		r = rux.New(rux.CachingWithNum(8))
	}
	if strict {
		r = rux.New(rux.StrictLastSlash)
		r.GET(strings.TrimSuffix(c.Template, "/"), func(ctx *rux.Context) { seenIdx = 7 })
	}
	var seenViaParam map[string]string
	th := func(ctx *rux.Context) {
		seenIdx = 0
		seenParams = map[string]string{}
		seenViaParam = map[string]string{}
		for k, v := range ctx.Params {
			seenParams[k] = v
			seenViaParam[k] = ctx.Param(k) // what a handler gets from the accessor
		}
	}
	prefix := ""
	switch c.Reg {
	case "group":
		prefix = "/api"
		rt := rux.NewNamedRoute("target", c.Template, th, "GET")
		_ = try(func() { rt.ToURL() }) // asking an unattached route for its URL must not freeze a stale template
		r.Group("/api", func() { r.AddRoute(rt) })
	case "root-group":
		// registered inside a group mounted at the site root
		r.Group("/", func() { r.AddNamed("target", c.Template, th, "GET") })
	case "named-later":
		r.GET(c.Template, th).NamedTo("target", r)
	case "twin-before":
		twin := c15VarRe.ReplaceAllStringFunc(c.Template, func(m string) string {
			sm := c15VarRe.FindStringSubmatch(m)
			if sm[2] != "" {
				return "{" + sm[1] + "}" // drop the regex
			}
			return "{" + sm[1] + `:\d+}` // add one
		})
		if twin != c.Template {
			r.POST(twin, func(ctx *rux.Context) { seenIdx = 4 })
		}
		r.AddNamed("target", c.Template, th, "GET")
	case "head-twin-cached":
		// a second named route with the same template serves HEAD; every built URL is asked with HEAD first
		r.AddNamed("target", c.Template, th, "GET")
		r.AddNamed("target-for-head", c.Template, func(ctx *rux.Context) { seenIdx = 6 }, "HEAD")
	case "late-after-miss":
		// registered below, after the misses
	default:
		r.AddNamed("target", c.Template, th, "GET")
	}
	if strings.HasPrefix(c.Reg, "literal-decoy-after") {
		// a LATER route of the same method that spells the first variable of the template as a literal (one of the
		// values) and keeps the other variables: the named route was registered first and still wins
		first := true
		decoy := c15VarRe.ReplaceAllStringFunc(c.Template, func(m string) string {
			if first {
				first = false
				sm := c15VarRe.FindStringSubmatch(m)
				for _, v := range []string{"ab", "7", "20"} {
					if sm[2] == "" || regexp.MustCompile("^(?:"+sm[2]+")$").MatchString(v) {
						return v
					}
				}
			}
			return m
		})
		if decoy != c.Template && strings.Contains(decoy, "{") {
			_ = try(func() { r.GET(decoy, func(ctx *rux.Context) { seenIdx = 5 }) })
		}
	}
	// another named route, used to check that a builder object can be reused across routes
	r.AddNamed("other", "/other/{o}", func(ctx *rux.Context) { seenIdx = 2 }, "GET")
	shared := rux.NewBuildRequestURL()
	// decoys that must not capture the built URL
	r.GET("/zz/{x}", func(ctx *rux.Context) { seenIdx = 1 })
	// ... whose first segment is one of the values, but which matches no built URL
	r.GET(`/ab/{x:\d+}/edit`, func(ctx *rux.Context) { seenIdx = 3 })
	r.GET(`/7/{x:\d+}/edit`, func(ctx *rux.Context) { seenIdx = 3 })
	if c.Reg == "late-after-miss" {
		// every path the values can spell is requested first (no route yet), then the named route is registered
		cur := make([]string, len(defs))
		var pre func(i int)
		pre = func(i int) {
			if i < len(defs) {
				for _, v := range c15Values {
					if defs[i].re.MatchString(v) {
						cur[i] = v
						pre(i + 1)
					}
				}
				return
			}
			spelled := c.Template
			for k, m := range vars {
				spelled = strings.Replace(spelled, m[0], cur[k], 1)
			}
			_ = try(func() { r.Match("GET", spelled) })
			_ = try(func() {
				r.ServeHTTP(httptest.NewRecorder(), &http.Request{Method: "GET", URL: &url.URL{Path: spelled}, Header: http.Header{}, Host: "h"})
			})
		}
		pre(0)
		r.AddNamed("target", c.Template, th, "GET")
	}
	if c.Reg == "literal-decoy-after-listed" {
		// the route table is listed (read-only calls) between registration and the requests
		_ = try(func() {
			_ = r.Routes()
			r.IterateRoutes(func(*rux.Route) {})
			_ = r.NamedRoutes()
			_ = r.String()
		})
	}
	target := r.GetRoute("target")
	vals := make([]string, len(defs))
	var rec func(i int)
	rec = func(i int) {
		if i < len(defs) {
			for _, v := range c15Values {
				if defs[i].re.MatchString(v) {
					vals[i] = v
					rec(i + 1)
				}
			}
			return
		}
		// the path the values spell out; tuples whose path is not in normal form (white space or '/' at its
		// end) are outside the round trip: C11 says lookups ignore those characters
		spelled := prefix + c.Template
		for k, m := range vars {
			spelled = strings.Replace(spelled, m[0], vals[k], 1)
		}
		if strict {
			// a tuple whose path the slash-less sibling (registered first) matches as well belongs to the sibling
			if sib, err := refmodel.CachedPattern(refmodel.Norm(strings.TrimSuffix(prefix+c.Template, "/"), true)); err == nil && sib.Matches(spelled) {
				st.Inc("skipped_sibling_matches_too", 1)
				return
			}
		}
		if refmodel.Norm(spelled, strict) != spelled {
			st.Inc("skipped_not_normal_form", 1)
			return
		}
		extras := c15Extras
		if len(defs) > 0 {
			// a query argument whose key is spelled like one of the route's variables (without braces)
			extras = append(append([][][2]string{}, c15Extras...), [][2]string{{defs[0].name, "q9"}}, [][2]string{{defs[len(defs)-1].name, ""}, {"z", "1"}})
		}
		for _, extra := range extras {
			st.Evals++
			if len(defs) > 0 {
				st.Nontrivial++
			}
			wantParams := map[string]string{}
			var args []any
			m := rux.M{}
			for k, d := range defs {
				wantParams[d.name] = vals[k]
				m["{"+d.name+"}"] = vals[k]
				args = append(args, "{"+d.name+"}", vals[k])
			}
			for _, e := range extra {
				m[e[0]] = e[1]
				args = append(args, e[0], e[1])
			}
			desc := fmt.Sprintf("template %q values %q extra %v style %s", c.Template, vals, extra, c.Style)
			var u *url.URL
			pv := try(func() {
				switch c.Style {
				case "map":
					if len(m) == 0 {
						u = r.BuildURL("target")
					} else {
						u = r.BuildURL("target", m)
					}
				case "pairs":
					u = r.BuildURL("target", args...)
				case "builder", "builder-reused":
					b := rux.NewBuildRequestURL()
					if c.Style == "builder-reused" {
						// one builder object serves several BuildURL calls, for different routes
						b = shared
						r.BuildRequestURL("other", b.Params(rux.M{"{o}": "1"}).Queries(url.Values{}))
					}
					pm := rux.M{}
					q := url.Values{}
					for k, d := range defs {
						pm["{"+d.name+"}"] = vals[k]
					}
					for _, e := range extra {
						q.Add(e[0], e[1])
					}
					b.Params(pm)
					b.Queries(q)
					u = r.BuildRequestURL("target", b)
				}
			})
			if pv == nil && c.Style == "map" && len(m) > 0 {
				// the argument map stays the caller's: unchanged by the call, and a second call with it builds the same URL
				var u2 *url.URL
				pv2 := try(func() { u2 = r.BuildURL("target", m) })
				if pv2 != nil || u2 == nil || u2.String() != u.String() {
					add("build:second-call-differs", fmt.Sprintf("%s: BuildURL built %q, a second call with the same M value built %v (panic: %v)", desc, u.String(), u2, pv2))
				}
				if len(m) != len(defs)+len(extra) {
					add("build:argument-map-changed", fmt.Sprintf("%s: after BuildURL the caller's M value holds %d entries, it was given with %d", desc, len(m), len(defs)+len(extra)))
				}
			}
			if pv != nil {
				if c.Style == "pairs" && len(args) == 0 {
					continue
				}
				add("build:panic", fmt.Sprintf("%s: BuildURL panicked: %v", desc, pv))
				continue
			}
			if c.Reg == "head-twin-cached" {
				_ = try(func() { r.Match("HEAD", u.Path) })
				if hreq, err := http.NewRequest("HEAD", "http://h"+u.String(), nil); err == nil {
					seenIdx = -1
					_ = try(func() { r.ServeHTTP(httptest.NewRecorder(), hreq) })
					if seenIdx != 6 && strings.Contains(c.Template, "{") {
						add("build:request", fmt.Sprintf("%s: a HEAD request for %q reached handler %d, expected the HEAD route of the same template", desc, u.String(), seenIdx))
					}
				}
			}
			// 1. the path is dispatched to that same route with exactly the values
			rt, ps, _ := r.Match("GET", u.Path)
			// (a caching router hands out its cached copy of the route: identity is judged by name and path)
			if rt == nil || rt.Name() != target.Name() || rt.Path() != target.Path() {
				gp := "<none>"
				if rt != nil {
					gp = rt.Path()
				}
				add("build:route", fmt.Sprintf("%s: built path %q is dispatched to %s, not to the named route", desc, u.Path, gp))
				continue
			}
			if canonParams(ps) != canonParams(wantParams) {
				add("build:params", fmt.Sprintf("%s: built path %q yields params {%s}, the values given were {%s}", desc, u.Path, canonParams(ps), canonParams(wantParams)))
				continue
			}
			// 2. a real request for u.String()
			req, err := http.NewRequest("GET", "http://h"+u.String(), nil)
			if err != nil {
				add("build:unparsable", fmt.Sprintf("%s: %q cannot be requested: %v", desc, u.String(), err))
				continue
			}
			seenIdx, seenParams = -1, nil
			w := httptest.NewRecorder()
			if pv := try(func() { r.ServeHTTP(w, req) }); pv != nil {
				add("build:serve-panic", fmt.Sprintf("%s: ServeHTTP(%q) panicked: %v", desc, u.String(), pv))
				continue
			}
			if seenIdx == 0 && canonParams(seenViaParam) != canonParams(wantParams) {
				add("build:request", fmt.Sprintf("%s: requesting %q: the handler reads {%s} through Context.Param, the values given were {%s}", desc, u.String(), canonParams(seenViaParam), canonParams(wantParams)))
				continue
			}
			if seenIdx != 0 || canonParams(seenParams) != canonParams(wantParams) {
				add("build:request", fmt.Sprintf("%s: requesting %q reached handler %d with params {%s}, expected the named route with {%s}", desc, u.String(), seenIdx, canonParams(seenParams), canonParams(wantParams)))
				continue
			}
			// 3. additional arguments are query parameters
			q := u.Query()
			for _, e := range extra {
				if q.Get(e[0]) != e[1] {
					add("build:query", fmt.Sprintf("%s: query parameter %q = %q in %q, expected %q", desc, e[0], q.Get(e[0]), u.String(), e[1]))
				}
			}
			if len(q) != len(extra) {
				add("build:query-extra", fmt.Sprintf("%s: query %v has %d parameters, expected %d", desc, q, len(q), len(extra)))
			}
		}
	}
	rec(0)
	if c.Reg == "tiny-cache-two-passes" {
		rec(0) // every URL again, after all the others pushed it out of the cache
	}
	if st.WantSample() {
		st.Sample(map[string]any{"template": c.Template, "style": c.Style, "values": c15Values, "extras": len(c15Extras)})
	}
	return vs
}

var c15Spec = fw.Spec[c15Case]{
	ID:    "C15",
	Level: "model_checking",
	Rule: "complete product: 24 named templates (static - also with '#', '?', '%25', ';', '&' and blanks in the literal text -, leading variable next to dynamic decoys whose literal first segment is one of the values, default / custom / global variable regexes, 1-3 variables, literal prefix and suffix around a variable, '.' in the literal text - also more dots than the shortest values have bytes) x ALL value tuples over 19 values (spaces, non-ASCII, %, ?, #, ;, encoded slash, dots, slash where the regex admits it) that satisfy the variables' regexes x 4 argument styles (M map - built twice from the same map value, which must stay unchanged -, key/value pairs, BuildRequestURL builder, one builder object reused across routes) x 11 registrations (the literal-decoy registration followed by read-only listings of the route table - Routes, IterateRoutes, NamedRoutes, String - before the first request; inside a group mounted at the site root; on a StrictLastSlash router with the template ending in a slash next to its slash-less sibling; on a caching router next to a second named route of the same template that serves HEAD, every URL asked with HEAD first; followed by a later route that spells the template's first variable as a literal equal to one of the values; on a caching router with two cache slots, every URL built and requested in two passes; on a caching router that answered 'no route' for every URL before the route existed; top-level AddNamed; NewNamedRoute + ToURL() + AddRoute inside a group; named after registration with NamedTo; after a POST route with the same skeleton and variable names but other variable regexes) x 4-6 sets of extra query arguments (also keys spelled like a variable of the route); " +
		"each built URL is matched (Match on u.Path) and requested (ServeHTTP on a request parsed from u.String()); naming: all sequences of <=3 (thorough 4) naming operations over 2 names x {AddNamed, NewNamedRoute+AddRoute, route.NamedTo on a new route, NamedTo renaming the first / the previous route}; non-trivial = a template with variables / a sequence of >=2 naming operations",
	Assume: []string{"values containing '{' or '}' are excluded: Build substitutes in Go map order, which the harness cannot own", "routes without optional parts, as the statement says", "value tuples that spell a path which is not in normal form (white space or '/' at the very end) are skipped: path normalisation (C11) ignores those characters by design"},
	Bounds: func(tier string) map[string]any {
		return map[string]any{"templates": len(c15Templates), "values": len(c15Values), "styles": 3, "extras": len(c15Extras)}
	},
	Gen:   c15Gen,
	Run:   c15Run,
	Batch: 1,
}

func init() {
	Registry["C15"] = func(args []string) int { return fw.Main(c15Spec, args) }
}
