// Package vrt is the verification runtime injected into gookit/rux (as the
// virtual package github.com/gookit/rux/vrt, through `go build -overlay`) for
// the controlled-scheduler exploration of C03. It is self-contained (stdlib
// only). With no execution active every shim behaves like the real thing.
//
// Threads are goroutines gated so that exactly one runs; control changes hands
// only at scheduling points: before Lock/RLock (a thread that cannot acquire
// is disabled), after Unlock/RUnlock, at Pool.Get/Put, inside the list shim,
// at every instrumented statement (Y) and at harness yields.
package vrt

import (
	"fmt"
	"sync"
)

// ---------------------------------------------------------------------------
// re-exports of the sync identifiers that are not hooked
// ---------------------------------------------------------------------------

type (
	WaitGroup = sync.WaitGroup
	Cond      = sync.Cond
	Locker    = sync.Locker
)

// Once: Do is a critical section under the shim mutex, so that a thread that gives up control inside f
// disables the other callers instead of blocking them on a real lock.
type Once struct {
	m    Mutex
	done bool
}

func (o *Once) Do(f func()) {
	if _, _, free := ctl(); free && o.done {
		return
	}
	o.m.Lock()
	defer o.m.Unlock()
	if !o.done {
		defer func() { o.done = true }()
		f()
	}
}

// Map: the real sync.Map with a scheduling point before every operation.
type Map struct{ m sync.Map }

func mapPoint() {
	if e, t := self(); e != nil {
		e.dispatch(t, "map")
	}
}

func (m *Map) Load(k any) (any, bool)           { mapPoint(); return m.m.Load(k) }
func (m *Map) Store(k, v any)                   { mapPoint(); m.m.Store(k, v) }
func (m *Map) LoadOrStore(k, v any) (any, bool) { mapPoint(); return m.m.LoadOrStore(k, v) }
func (m *Map) LoadAndDelete(k any) (any, bool)  { mapPoint(); return m.m.LoadAndDelete(k) }
func (m *Map) Delete(k any)                     { mapPoint(); m.m.Delete(k) }
func (m *Map) Swap(k, v any) (any, bool)        { mapPoint(); return m.m.Swap(k, v) }
func (m *Map) CompareAndSwap(k, o, n any) bool  { mapPoint(); return m.m.CompareAndSwap(k, o, n) }
func (m *Map) CompareAndDelete(k, o any) bool   { mapPoint(); return m.m.CompareAndDelete(k, o) }
func (m *Map) Range(f func(k, v any) bool)      { mapPoint(); m.m.Range(f) }
func (m *Map) Clear()                           { mapPoint(); m.m.Clear() }

func NewCond(l Locker) *Cond                                   { return sync.NewCond(l) }
func OnceFunc(f func()) func()                                 { return sync.OnceFunc(f) }
func OnceValue[T any](f func() T) func() T                     { return sync.OnceValue(f) }
func OnceValues[T1, T2 any](f func() (T1, T2)) func() (T1, T2) { return sync.OnceValues(f) }

// ---------------------------------------------------------------------------
// executions
// ---------------------------------------------------------------------------

type tstate int

const (
	tRunnable tstate = iota
	tBlocked
	tDone
)

type thread struct {
	id      int
	wake    chan struct{}
	state   tstate
	waitM   *RWMutex
	waitW   bool // waiting for the write lock
	vc      []int
	started bool
}

// Point is one recorded scheduling decision.
type Point struct {
	NEnabled       int
	Chosen         int
	RunningEnabled bool // the running thread could have continued (choosing another one is a preemption)
	Kind           string
}

// Race is a pair of conflicting accesses unordered by happens-before.
type Race struct {
	Obj    string
	T1, T2 int
	W1, W2 bool
}

// Exec is one controlled execution.
type Exec struct {
	threads  []*thread
	running  *thread
	prefix   []int
	Points   []Point
	done     chan struct{}
	Deadlock bool
	Livelock bool
	Diverged string
	Races    []Race
	horizon  int
	objs     map[any]*objClock
	aborted  bool
	once     sync.Once
	// ThreadPanic is set when a thread body panicked with something the body did not recover itself
	ThreadPanic string
}

func (e *Exec) closeDone() { e.once.Do(func() { close(e.done) }) }

var cur *Exec // the active execution (nil = free running)

type abortExec struct{}

// Run executes the thread bodies under the scheduler, replaying the choice
// prefix and taking choice 0 afterwards. It returns the recorded execution.
func Run(prefix []int, horizon int, bodies []func()) *Exec {
	e := &Exec{prefix: prefix, done: make(chan struct{}), horizon: horizon, objs: map[any]*objClock{}}
	n := len(bodies)
	for i := range bodies {
		t := &thread{id: i, wake: make(chan struct{}, 1), vc: make([]int, n)}
		t.vc[i] = 1
		e.threads = append(e.threads, t)
	}
	cur = e
	for i, b := range bodies {
		t, b := e.threads[i], b
		go func() {
			<-t.wake
			if e.aborted {
				return
			}
			defer func() {
				if r := recover(); r != nil {
					if _, ok := r.(abortExec); !ok {
						e.ThreadPanic = fmt.Sprintf("thread %d: %v", t.id, r)
						e.aborted = true
					}
				}
				if e.aborted {
					e.closeDone()
				}
			}()
			b()
			if !e.aborted {
				e.finish(t)
			}
		}()
	}
	// first decision: which thread starts
	e.dispatch(nil, "start")
	<-e.done
	cur = nil
	return e
}

// enabled threads in canonical order: the running thread first (if enabled), then ascending ids
func (e *Exec) enabledList(self *thread) (list []*thread, selfEnabled bool) {
	if self != nil && e.isEnabled(self) {
		list = append(list, self)
		selfEnabled = true
	}
	for _, t := range e.threads {
		if t != self && e.isEnabled(t) {
			list = append(list, t)
		}
	}
	return
}

func (e *Exec) isEnabled(t *thread) bool {
	switch t.state {
	case tRunnable:
		return true
	case tBlocked:
		return t.waitM.available(t.waitW)
	}
	return false
}

// dispatch takes one scheduling decision; self is the thread giving up control (nil for the main goroutine)
func (e *Exec) dispatch(self *thread, kind string) {
	if e.aborted {
		return
	}
	list, selfEnabled := e.enabledList(self)
	if len(list) == 0 {
		all := true
		for _, t := range e.threads {
			if t.state != tDone {
				all = false
			}
		}
		if !all {
			e.Deadlock = true
		}
		e.end()
		return
	}
	choice := 0
	i := len(e.Points)
	if i < len(e.prefix) {
		choice = e.prefix[i]
		if choice < 0 || choice >= len(list) {
			e.Diverged = fmt.Sprintf("replayed choice %d at point %d is out of range (%d enabled)", choice, i, len(list))
			e.end()
			return
		}
	}
	e.Points = append(e.Points, Point{NEnabled: len(list), Chosen: choice, RunningEnabled: selfEnabled, Kind: kind})
	if len(e.Points) > e.horizon {
		e.Livelock = true
		e.end()
		return
	}
	next := list[choice]
	if next == self {
		return
	}
	e.running = next
	next.wake <- struct{}{}
	if self != nil && self.state != tDone {
		<-self.wake
		if e.aborted {
			panic(abortExec{})
		}
	}
}

// end abandons the execution (deadlock, livelock, divergence): from now on every shim is a no-op,
// the running thread is unwound, parked threads stay parked.
func (e *Exec) end() {
	e.aborted = true
	if e.running != nil && e.running.state != tDone {
		panic(abortExec{}) // the thread wrapper closes done after unwinding
	}
	e.closeDone()
}

func (e *Exec) finish(t *thread) {
	t.state = tDone
	list, _ := e.enabledList(nil)
	if len(list) == 0 {
		all := true
		for _, o := range e.threads {
			if o.state != tDone {
				all = false
			}
		}
		if !all {
			e.Deadlock = true
		}
		e.aborted = true
		e.closeDone()
		return
	}
	e.dispatch(t, "exit")
}

// ctl returns the active execution and its running thread. free = no execution is active (shims use the
// real primitives); e == nil && !free = the execution was abandoned (shims do nothing).
func ctl() (e *Exec, t *thread, free bool) {
	e = cur
	if e == nil {
		return nil, nil, true
	}
	if e.aborted || e.running == nil {
		return nil, nil, false
	}
	return e, e.running, false
}

func self() (*Exec, *thread) {
	e, t, _ := ctl()
	return e, t
}

// StmtPoints switches the statement-level scheduling points on or off (the other points stay).
var StmtPoints = true

// Y is the statement-level scheduling point inserted by the instrumenter.
func Y(id int) {
	if cur == nil || !StmtPoints {
		return
	}
	if e, t := self(); e != nil {
		e.dispatch(t, "stmt")
	}
}

// Yield is a scheduling point for harness code (handler entry / exit).
func Yield() {
	if e, t := self(); e != nil {
		e.dispatch(t, "handler")
	}
}

// Active tells whether a controlled execution is in progress.
func Active() bool { return cur != nil }

// ---------------------------------------------------------------------------
// happens-before monitor (vector clocks)
// ---------------------------------------------------------------------------

type objClock struct {
	name  string
	wT    int   // last writer (-1 none)
	wVC   []int // its clock at the write
	rVC   []int // per thread: clock component at its last read
	hasR  []bool
	raced bool
}

func leq(a, b []int) bool {
	for i := range a {
		if a[i] > b[i] {
			return false
		}
	}
	return true
}

func join(dst, src []int) {
	for i := range dst {
		if src[i] > dst[i] {
			dst[i] = src[i]
		}
	}
}

// Access declares a read or write of obj by the running thread.
func Access(obj any, name string, write bool) {
	e, t := self()
	if e == nil {
		return
	}
	oc := e.objs[obj]
	if oc == nil {
		oc = &objClock{name: name, wT: -1, rVC: make([]int, len(e.threads)), hasR: make([]bool, len(e.threads))}
		e.objs[obj] = oc
	}
	report := func(other int, ow bool) {
		if !oc.raced {
			oc.raced = true
			e.Races = append(e.Races, Race{Obj: name, T1: other, T2: t.id, W1: ow, W2: write})
		}
	}
	// conflict with the last write
	if oc.wT >= 0 && oc.wT != t.id && !leq(oc.wVC, t.vc) {
		report(oc.wT, true)
	}
	if write {
		for i, has := range oc.hasR {
			if has && i != t.id && oc.rVC[i] > t.vc[i] {
				report(i, false)
			}
		}
		oc.wT = t.id
		oc.wVC = append(oc.wVC[:0], t.vc...)
	} else {
		oc.rVC[t.id] = t.vc[t.id]
		oc.hasR[t.id] = true
	}
	t.vc[t.id]++
}

// W declares a write of the variable p points to (inserted by the instrumenter before assignments to package-level
// variables and to fields of the Router: state that outlives a request and is shared by all of them).
func W(p any, name string) { Access(p, name, true) }

// ---------------------------------------------------------------------------
// RWMutex / Mutex
// ---------------------------------------------------------------------------

type RWMutex struct {
	real    sync.RWMutex
	writer  bool
	readers int
	// writers blocked in Lock: like the real RWMutex, new readers wait behind a pending writer (so a recursive read
	// lock deadlocks as soon as a writer arrives between the two RLock calls)
	waitingW int
	relW    []int // clock released by the last writer
	relR    []int // join of the clocks released by readers since the last writer
}

func (m *RWMutex) available(write bool) bool {
	if write {
		return !m.writer && m.readers == 0
	}
	return !m.writer && m.waitingW == 0
}

func (m *RWMutex) acquireClock(t *thread, write bool) {
	if m.relW != nil {
		join(t.vc, m.relW)
	}
	if write && m.relR != nil {
		join(t.vc, m.relR)
	}
}

func (m *RWMutex) wait(e *Exec, t *thread, write bool) {
	e.dispatch(t, "lock")
	pending := false
	for !m.available(write) {
		if write && !pending {
			pending = true
			m.waitingW++
		}
		t.state, t.waitM, t.waitW = tBlocked, m, write
		e.dispatch(t, "blocked")
		t.state = tRunnable
	}
	if pending {
		m.waitingW--
	}
}

func (m *RWMutex) Lock() {
	e, t, free := ctl()
	if free {
		m.real.Lock()
		return
	}
	if e == nil {
		return
	}
	m.wait(e, t, true)
	m.writer = true
	m.acquireClock(t, true)
}

func (m *RWMutex) Unlock() {
	e, t, free := ctl()
	if free {
		m.real.Unlock()
		return
	}
	if e == nil {
		return
	}
	if !m.writer {
		panic("vrt: Unlock of unlocked RWMutex")
	}
	m.writer = false
	m.relW = append(m.relW[:0], t.vc...)
	m.relR = nil
	t.vc[t.id]++
	e.dispatch(t, "unlock")
}

func (m *RWMutex) RLock() {
	e, t, free := ctl()
	if free {
		m.real.RLock()
		return
	}
	if e == nil {
		return
	}
	m.wait(e, t, false)
	m.readers++
	m.acquireClock(t, false)
}

func (m *RWMutex) RUnlock() {
	e, t, free := ctl()
	if free {
		m.real.RUnlock()
		return
	}
	if e == nil {
		return
	}
	if m.readers <= 0 {
		panic("vrt: RUnlock of unlocked RWMutex")
	}
	m.readers--
	if m.relR == nil {
		m.relR = make([]int, len(t.vc))
	}
	join(m.relR, t.vc)
	t.vc[t.id]++
	e.dispatch(t, "runlock")
}

func (m *RWMutex) TryLock() bool {
	e, t, free := ctl()
	if free {
		return m.real.TryLock()
	}
	if e == nil {
		return true
	}
	e.dispatch(t, "trylock")
	if m.available(true) {
		m.writer = true
		m.acquireClock(t, true)
		return true
	}
	return false
}

func (m *RWMutex) TryRLock() bool {
	e, t, free := ctl()
	if free {
		return m.real.TryRLock()
	}
	if e == nil {
		return true
	}
	e.dispatch(t, "tryrlock")
	if m.available(false) {
		m.readers++
		m.acquireClock(t, false)
		return true
	}
	return false
}

type rlocker RWMutex

func (r *rlocker) Lock()   { (*RWMutex)(r).RLock() }
func (r *rlocker) Unlock() { (*RWMutex)(r).RUnlock() }

func (m *RWMutex) RLocker() Locker { return (*rlocker)(m) }

// Mutex is an RWMutex used only for writing.
type Mutex struct{ m RWMutex }

func (m *Mutex) Lock()         { m.m.Lock() }
func (m *Mutex) Unlock()       { m.m.Unlock() }
func (m *Mutex) TryLock() bool { return m.m.TryLock() }

// ---------------------------------------------------------------------------
// Pool: deterministic LIFO free list (New when empty)
// ---------------------------------------------------------------------------

type Pool struct {
	New  func() any
	mu   sync.Mutex
	free []any
	rel  map[any][]int // clock at Put, joined at Get (Put happens-before the Get that returns the object)
	held map[any]int   // object -> thread that took it and has not put it back (ownership monitor)
}

func (p *Pool) Get() any {
	e, t := self()
	if e != nil {
		e.dispatch(t, "pool.get")
	}
	p.mu.Lock()
	var x any
	if n := len(p.free); n > 0 {
		x = p.free[n-1]
		p.free = p.free[:n-1]
		if e != nil && p.rel != nil {
			if vc, ok := p.rel[x]; ok && len(vc) == len(t.vc) {
				join(t.vc, vc)
			}
		}
	}
	if x == nil && p.New != nil {
		x = p.New()
	}
	if e != nil && x != nil {
		// ownership: an object handed out while another thread still holds it is shared by two requests
		if p.held == nil {
			p.held = map[any]int{}
		}
		if owner, taken := p.held[x]; taken && owner != t.id {
			e.Races = append(e.Races, Race{Obj: "pooled object handed to two threads at once", T1: owner, T2: t.id, W1: true, W2: true})
		}
		p.held[x] = t.id
	}
	p.mu.Unlock()
	return x
}

func (p *Pool) Put(x any) {
	if x == nil {
		return
	}
	e, t := self()
	p.mu.Lock()
	p.free = append(p.free, x)
	if e != nil {
		if p.held != nil && p.held[x] == t.id {
			delete(p.held, x)
		}
		if p.rel == nil {
			p.rel = map[any][]int{}
		}
		p.rel[x] = append([]int(nil), t.vc...)
		t.vc[t.id]++
	}
	p.mu.Unlock()
	if e != nil {
		e.dispatch(t, "pool.put")
	}
}

// FreeLen reports how many objects the pool holds and whether any object is held twice.
func (p *Pool) FreeLen() (n int, duplicate bool) {
	p.mu.Lock()
	defer p.mu.Unlock()
	seen := map[any]bool{}
	for _, x := range p.free {
		if seen[x] {
			duplicate = true
		}
		seen[x] = true
	}
	return len(p.free), duplicate
}

// Step is a scheduling point inside a shimmed data structure.
func Step() {
	if cur == nil {
		return
	}
	if e, t := self(); e != nil {
		e.dispatch(t, "list")
	}
}
