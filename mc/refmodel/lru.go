package refmodel

// LRU is the boring reference: a slice of entries, most recent first.
type LRU struct {
	Cap int
	E   []LRUEntry
}

type LRUEntry struct {
	K string
	V int
}

func (l *LRU) Clone() *LRU {
	return &LRU{Cap: l.Cap, E: append([]LRUEntry(nil), l.E...)}
}

func (l *LRU) find(k string) int {
	for i, e := range l.E {
		if e.K == k {
			return i
		}
	}
	return -1
}

func (l *LRU) toFront(i int) {
	e := l.E[i]
	copy(l.E[1:i+1], l.E[:i])
	l.E[0] = e
}

// Set stores k (replacing its value and making it most recent); a full cache
// drops its least recently used key. A cache without capacity holds nothing.
func (l *LRU) Set(k string, v int) {
	if i := l.find(k); i >= 0 {
		l.E[i].V = v
		l.toFront(i)
		return
	}
	l.E = append([]LRUEntry{{k, v}}, l.E...)
	max := l.Cap
	if max < 0 {
		max = 0
	}
	if len(l.E) > max {
		l.E = l.E[:len(l.E)-1]
	}
}

// Get reads k and makes it most recent.
func (l *LRU) Get(k string) (int, bool) {
	if i := l.find(k); i >= 0 {
		l.toFront(i)
		return l.E[0].V, true
	}
	return 0, false
}

// Peek reads k without touching recency.
func (l *LRU) Peek(k string) (int, bool) {
	if i := l.find(k); i >= 0 {
		return l.E[i].V, true
	}
	return 0, false
}

func (l *LRU) Delete(k string) bool {
	if i := l.find(k); i >= 0 {
		l.E = append(l.E[:i:i], l.E[i+1:]...)
		return true
	}
	return false
}

func (l *LRU) Len() int { return len(l.E) }
