package checks

import (
	"bytes"
	"encoding/json"
	"encoding/xml"
	"errors"
	"fmt"
	"io"
	"math"
	"mime/multipart"
	"net/http"
	"net/http/httptest"
	"net/url"
	"reflect"
	"strconv"
	"strings"
	"testing/iotest"

	"github.com/gookit/rux"
	"github.com/gookit/rux/pkg/binding"
	"github.com/gookit/validate"

	"verif/mc/fw"
)

// C18: binding picks its source from the request and round-trips data.

type c18Src struct {
	XMLName xml.Name `xml:"o" json:"-" query:"-" form:"-"`
	Name    string   `query:"name" form:"name" json:"name" xml:"name"`
}

type c18Val struct {
	XMLName xml.Name `xml:"v" json:"-" query:"-" form:"-"`
	ID      int      `query:"id" form:"id" json:"id" xml:"id"`
	Name    string   `query:"name" form:"name" json:"name" xml:"name"`
	On      bool     `query:"on" form:"on" json:"on" xml:"on"`
	Tags    []int    `query:"tags" form:"tags" json:"tags" xml:"tags"`
	A       string   `query:"a" form:"a" json:"a" xml:"a"`
}

// 64-bit integers
type c18Big struct {
	XMLName xml.Name `xml:"b" json:"-" query:"-" form:"-"`
	ID      int64    `query:"id" form:"id" json:"id" xml:"id"`
	U       uint64   `query:"u" form:"u" json:"u" xml:"u"`
	L       []int64  `query:"l" form:"l" json:"l" xml:"l"`
}

// what the handler behind a data-reading middleware binds
type c18Helper struct {
	Name  string `query:"name" form:"name"`
	Other string `query:"other" form:"other"`
}

// a list of strings (one element may hold a comma)
type c18Lab struct {
	XMLName xml.Name `xml:"l" json:"-" query:"-" form:"-"`
	Labels  []string `query:"labels" form:"labels" json:"labels" xml:"labels"`
	Note    string   `query:"note" form:"note" json:"note" xml:"note"`
}

// rules that live only inside slice elements
type c18Item struct {
	SKU string `json:"sku" xml:"sku" validate:"required|minLen:3"`
	Qty int    `json:"qty" xml:"qty" validate:"min:1"`
}

type c18Order struct {
	XMLName xml.Name  `xml:"order" json:"-"`
	Note    string    `json:"note" xml:"note"`
	Items   []c18Item `json:"items" xml:"items"`
}

// element names that HTML treats as void / auto-closing: an XML decoder must not
type c18Voids struct {
	XMLName xml.Name `xml:"doc" json:"-"`
	Link    string   `xml:"link" json:"link"`
	Meta    string   `xml:"meta" json:"meta"`
	Input   string   `xml:"input" json:"input"`
	After   string   `xml:"after" json:"after"`
}

// c18Custom is a validator installed by assignment to binding.Validator
type c18Custom struct{ calls int }

func (v *c18Custom) Validate(obj any) error {
	v.calls++
	if val := validate.Struct(obj); !val.Validate() {
		return val.Errors
	}
	return nil
}

type c18Rule struct {
	XMLName xml.Name `xml:"r" json:"-" query:"-" form:"-"`
	Age     int      `query:"age" form:"age" json:"age" xml:"age" validate:"min:1|max:99"`
	Name    string   `query:"name" form:"name" json:"name" xml:"name" validate:"required|minLen:2"`
}

var c18Methods = []string{"GET", "POST", "PUT", "PATCH", "DELETE", "OPTIONS", "HEAD", "CONNECT", "TRACE"}

var c18CTypes = []string{
	"application/x-www-form-urlencoded", "application/x-www-form-urlencoded; charset=utf-8",
	"multipart/form-data; boundary=BOUNDARY",
	"application/json", "application/json; charset=utf-8", "application/json; charset=utf-8; profile=x", "application/json;charset=UTF-8;", `application/json; charset="utf-8"`,
	"application/xml", "text/xml", "text/xml; charset=utf-8",
	"", "text/plain", "application/octet-stream", "text/html", "application/x-yaml", "image/png",
	// unsupported types whose sub-type is spelled like the name of a registered binder
	"application/query", "application/x-query; charset=utf-8", "text/query", "application/form", "application/x-form", "application/header", "application/x-header", "text/form-urlencoded",
}

// a struct whose field is spelled differently in every source
type c18Tags struct {
	XMLName xml.Name `xml:"t" json:"-" query:"-" form:"-" header:"-"`
	A       string   `query:"qa" form:"fa" json:"ja" xml:"xa" header:"Ha"`
}

type c18Case struct {
	Kind   string `json:"kind"` // table | roundtrip | malformed | validator | tags | request-history
	Method string `json:"method,omitempty"`
	Format string `json:"format,omitempty"`
	First  int    `json:"first,omitempty"`
	MaxLen int    `json:"max_len,omitempty"`
}

func c18Gen(tier string, emit func(c18Case)) {
	for _, m := range c18Methods {
		emit(c18Case{Kind: "table", Method: m})
	}
	// method tokens outside the nine standard ones (extension methods, other spellings, empty): none of them is POST, PUT
	// or PATCH, so the query string is the source
	for _, m := range []string{"PURGE", "PROPFIND", "SEARCH", "LINK", "post", "Patch", "pUT", "", "POSTS", "GET "} {
		emit(c18Case{Kind: "table", Method: m})
	}
	emit(c18Case{Kind: "tags", MaxLen: map[string]int{"quick": 3, "thorough": 4}[tier]})
	emit(c18Case{Kind: "request-history"})
	for _, f := range []string{"query", "form", "multipart", "json", "xml"} {
		emit(c18Case{Kind: "roundtrip", Format: f})
		emit(c18Case{Kind: "validator", Format: f})
	}
	for _, f := range []string{"json", "xml", "form", "multipart", "query"} {
		for first := 0; first < len(c18Bytes); first++ {
			emit(c18Case{Kind: "malformed", Format: f, First: first, MaxLen: map[string]int{"quick": 4, "thorough": 5}[tier]})
		}
	}
}

var c18Bytes = []byte{'{', '}', '"', ':', '<', '>', '/', 'a', '1', '\\', 0xff, '=', '&', '%'}

func c18MultipartBody(fields [][2]string) string {
	var b bytes.Buffer
	w := multipart.NewWriter(&b)
	_ = w.SetBoundary("BOUNDARY")
	for _, f := range fields {
		_ = w.WriteField(f[0], f[1])
	}
	_ = w.Close()
	return b.String()
}

// builds a request carrying fields in the given format
func c18Request(method, format string, fields [][2]string, obj any) *http.Request {
	vals := url.Values{}
	for _, f := range fields {
		vals.Add(f[0], f[1])
	}
	switch format {
	case "query":
		return httptest.NewRequest(method, "/x?"+vals.Encode(), nil)
	case "form":
		r := httptest.NewRequest(method, "/x", strings.NewReader(vals.Encode()))
		r.Header.Set("Content-Type", "application/x-www-form-urlencoded")
		return r
	case "multipart":
		r := httptest.NewRequest(method, "/x", strings.NewReader(c18MultipartBody(fields)))
		r.Header.Set("Content-Type", "multipart/form-data; boundary=BOUNDARY")
		return r
	case "json":
		b, _ := json.Marshal(obj)
		r := httptest.NewRequest(method, "/x", bytes.NewReader(b))
		r.Header.Set("Content-Type", "application/json")
		return r
	case "xml":
		b, _ := xml.Marshal(obj)
		r := httptest.NewRequest(method, "/x", bytes.NewReader(b))
		r.Header.Set("Content-Type", "application/xml")
		return r
	}
	panic(format)
}

func c18Run(c c18Case, st *fw.Stats) []fw.Viol {
	var vs []fw.Viol
	add := func(sig, msg string) {
		if len(vs) < 6 {
			vs = append(vs, fw.Viol{Sig: sig, Msg: msg})
		}
	}
	switch c.Kind {
	case "request-history":
		// (1) the request's form was parsed earlier (by a middleware reading a form value) while it still was a POST
		// with a body, then its method became body-less (method override) or its parsed form was edited: the source
		// of a body-less bind is the query string of the request as it is
		for _, m := range []string{"DELETE", "GET", "HEAD", "OPTIONS"} {
			for _, edit := range []string{"none", "del-key", "set-key"} {
				st.Evals++
				st.Nontrivial++
				req := httptest.NewRequest("POST", "/x?name=Q", strings.NewReader("name=F&other=1"))
				req.Header.Set("Content-Type", "application/x-www-form-urlencoded")
				_ = req.FormValue("other") // parses body and query into req.Form / req.PostForm
				switch edit {
				case "del-key":
					req.Form.Del("name")
				case "set-key":
					req.Form.Set("name", "EDITED")
				}
				req.Method = m
				var obj c18Src
				var err error
				if pv := try(func() { err = binding.Auto(req, &obj) }); pv != nil {
					add("history:panic", fmt.Sprintf("bind of a %s request whose form was parsed earlier panicked: %v", m, pv))
				} else if err != nil || obj.Name != "Q" {
					add("history:query-source", fmt.Sprintf("a request had its form parsed while it was a POST (body name=F, query name=Q; parsed form edited: %s) and is now %s: Auto bound Name=%q err=%v; the query string carries \"Q\"", edit, m, obj.Name, err))
				}
			}
		}
		// (2) a JSON / XML bind whose body reader failed after delivering part of the body, then ordinary binds: each
		// bind sees its own body only
		for _, f := range []string{"json", "xml"} {
			ct, part, good, goodName, empty := "application/json", `{"name":"STALE"`, `{"name":"ok"}`, "ok", ""
			if f == "xml" {
				ct, part, good = "application/xml", `<o><name>STALE</name>`, `<o><name>ok</name></o>`
			}
			for round := 0; round < 3; round++ {
				st.Evals++
				st.Nontrivial++
				bad := httptest.NewRequest("POST", "/x", io.MultiReader(strings.NewReader(part), iotest.ErrReader(errors.New("connection reset"))))
				bad.Header.Set("Content-Type", ct)
				var o1 c18Src
				var e1 error
				if pv := try(func() { e1 = binding.Auto(bad, &o1) }); pv != nil {
					add("history:panic", fmt.Sprintf("%s bind with a failing body reader panicked: %v", f, pv))
				} else if e1 == nil {
					add("history:read-error-ignored", fmt.Sprintf("%s bind whose body reader failed after %q succeeded with Name=%q", f, part, o1.Name))
				}
				for _, body := range []string{good, empty, good} {
					req := httptest.NewRequest("POST", "/x", strings.NewReader(body))
					req.Header.Set("Content-Type", ct)
					var o2 c18Src
					var e2 error
					if pv := try(func() { e2 = binding.Auto(req, &o2) }); pv != nil {
						add("history:panic", fmt.Sprintf("%s bind after a failed body read panicked: %v", f, pv))
					} else if body == good && (e2 != nil || o2.Name != goodName) {
						add("history:stale-body", fmt.Sprintf("%s bind of %q after an earlier bind whose body reader failed half way: Name=%q err=%v, expected %q", f, body, o2.Name, e2, goodName))
					} else if body == empty && e2 == nil {
						add("history:stale-body", fmt.Sprintf("%s bind of an EMPTY body after an earlier bind whose body reader failed half way succeeded with Name=%q", f, o2.Name))
					}
				}
			}
		}
		// (3) a middleware reads request data through one of the context's helpers before the handler binds: the bind
		// still reads the request's own body (query string for body-less methods), all of it
		helpers := []string{"none", "FormParams()", "FormParams([name])", "FormParams([name other])", "FormParams([missing])", "Post(name)", "PostParams(other)", "Query(name)", "QueryValues().Del(name)", "ParseMultipartForm()", "FormFile(nofile)", "FormParams([name]) twice", "Copy() kept", "Copy().Bind() first", "binding.Header.Bind first"}
		for _, hp := range helpers {
			for _, f := range []string{"form", "multipart", "query"} {
				for _, m := range []string{"POST", "PUT", "PATCH", "GET", "DELETE"} {
					bodyless := m == "GET" || m == "DELETE"
					if (f == "query") != bodyless {
						continue
					}
					st.Evals++
					st.Nontrivial++
					var req *http.Request
					switch f {
					case "form":
						req = httptest.NewRequest(m, "/x?name=Q&other=q1", strings.NewReader("name=F&other=1"))
						req.Header.Set("Content-Type", "application/x-www-form-urlencoded")
					case "multipart":
						req = httptest.NewRequest(m, "/x?name=Q&other=q1", strings.NewReader(c18MultipartBody([][2]string{{"name", "F"}, {"other", "1"}})))
						req.Header.Set("Content-Type", "multipart/form-data; boundary=BOUNDARY")
					default:
						req = httptest.NewRequest(m, "/x?name=Q&other=q1", nil)
					}
					var obj, copyObj c18Helper
					var err, copyErr error
					var keptCopy *rux.Context
					copyBound := false
					r := rux.New()
					r.Use(func(ctx *rux.Context) {
						switch hp {
						case "FormParams()":
							_, _ = ctx.FormParams()
						case "FormParams([name])":
							_, _ = ctx.FormParams([]string{"name"})
						case "FormParams([name]) twice":
							_, _ = ctx.FormParams([]string{"name"})
							_, _ = ctx.FormParams([]string{"name"})
						case "FormParams([name other])":
							_, _ = ctx.FormParams([]string{"name", "other"})
						case "FormParams([missing])":
							_, _ = ctx.FormParams([]string{"missing"})
						case "Post(name)":
							_ = ctx.Post("name")
						case "PostParams(other)":
							_, _ = ctx.PostParams("other")
						case "Query(name)":
							_ = ctx.Query("name")
						case "QueryValues().Del(name)":
							ctx.QueryValues().Del("name")
						case "ParseMultipartForm()":
							_ = ctx.ParseMultipartForm()
						case "FormFile(nofile)":
							_, _ = ctx.FormFile("nofile")
						case "binding.Header.Bind first":
							var hv struct {
								Trace string `header:"X-Trace"`
							}
							_ = binding.Header.Bind(ctx.Req, &hv)
						case "Copy() kept":
							keptCopy = ctx.Copy()
						case "Copy().Bind() first":
							keptCopy = ctx.Copy()
							copyErr = keptCopy.Bind(&copyObj)
							copyBound = true
						}
					})
					r.Any("/x", func(ctx *rux.Context) { err = ctx.Bind(&obj) })
					wantName, wantOther := "F", "1"
					if bodyless {
						wantName, wantOther = "Q", "q1"
					}
					if pv := try(func() { r.ServeHTTP(httptest.NewRecorder(), req) }); pv != nil {
						add("history:panic", fmt.Sprintf("%s %s request, middleware calls Context.%s, handler binds: panicked: %v", m, f, hp, pv))
					} else if copyBound && (copyErr != nil || copyObj.Name != wantName || copyObj.Other != wantOther) {
						add("history:helper-before-bind", fmt.Sprintf("%s request (%s data name=%s other=%s): a middleware takes Context.Copy() and binds on the copy: Name=%q Other=%q err=%v; the request carries Name=%q Other=%q", m, f, wantName, wantOther, copyObj.Name, copyObj.Other, copyErr, wantName, wantOther))
					} else if err != nil || obj.Name != wantName || obj.Other != wantOther {
						add("history:helper-before-bind", fmt.Sprintf("%s request (%s data name=%s other=%s; query string name=Q other=q1): a middleware calls Context.%s, then the handler's Bind gives Name=%q Other=%q err=%v; the request carries Name=%q Other=%q", m, f, wantName, wantOther, hp, obj.Name, obj.Other, err, wantName, wantOther))
					}
				}
			}
		}
	case "tags":
		// every sequence of <= MaxLen binds over the six sources, in one process: each bind reads the field under the
		// name its own source's tag gives it, whatever was bound before
		kinds := []string{"query", "form", "multipart", "json", "xml", "header"}
		bindOne := func(k string) (string, error, any) {
			var obj c18Tags
			var err error
			var req *http.Request
			switch k {
			case "query":
				req = httptest.NewRequest("GET", "/x?qa=from-query", nil)
			case "form":
				req = httptest.NewRequest("POST", "/x?qa=from-query", strings.NewReader("fa=from-form"))
				req.Header.Set("Content-Type", "application/x-www-form-urlencoded")
			case "multipart":
				req = httptest.NewRequest("POST", "/x", strings.NewReader(c18MultipartBody([][2]string{{"fa", "from-multipart"}})))
				req.Header.Set("Content-Type", "multipart/form-data; boundary=BOUNDARY")
			case "json":
				req = httptest.NewRequest("POST", "/x", strings.NewReader(`{"ja":"from-json"}`))
				req.Header.Set("Content-Type", "application/json")
			case "xml":
				req = httptest.NewRequest("POST", "/x", strings.NewReader(`<t><xa>from-xml</xa></t>`))
				req.Header.Set("Content-Type", "application/xml")
			case "header":
				req = httptest.NewRequest("GET", "/x", nil)
				req.Header = http.Header{"Ha": []string{"from-header"}}
			}
			pv := try(func() {
				if k == "header" {
					err = binding.Header.Bind(req, &obj)
				} else {
					err = binding.Auto(req, &obj)
				}
			})
			return obj.A, err, pv
		}
		var rec func(seq []string)
		rec = func(seq []string) {
			if len(seq) > 0 {
				st.Evals++
				if len(seq) > 1 {
					st.Nontrivial++
				}
				k := seq[len(seq)-1]
				for _, earlier := range seq[:len(seq)-1] {
					bindOne(earlier)
				}
				got, err, pv := bindOne(k)
				if pv != nil {
					add("tags:panic", fmt.Sprintf("bind sequence %v: the last bind panicked: %v", seq, pv))
				} else if err != nil || got != "from-"+k {
					add("tags:wrong-field-name", fmt.Sprintf("bind sequence %v (one process): the %s bind yielded A=%q err=%v; the field is named by the %s tag and the source carries %q", seq, k, got, err, k, "from-"+k))
				}
			}
			if len(seq) == c.MaxLen {
				return
			}
			for _, k := range kinds {
				rec(append(append([]string(nil), seq...), k))
			}
		}
		// (package-level state of the binding package is not reset between sequences: they all run in this process)
		rec(nil)
	case "table":
		for _, ct := range c18CTypes {
			for _, withQuery := range []bool{true, false} {
				st.Evals++
				st.Nontrivial++
				target := "/x"
				if withQuery {
					target += "?name=Q"
				}
				// every source carries a different value
				var body string
				switch {
				case strings.Contains(ct, "form-data"):
					body = c18MultipartBody([][2]string{{"name", "M"}})
				case strings.Contains(ct, "json"):
					body = `{"name":"J"}`
				case strings.Contains(ct, "xml"):
					body = `<o><name>X</name></o>`
				default:
					body = "name=F"
				}
				standard := false
				for _, m := range c18Methods {
					standard = standard || m == c.Method
				}
				req := httptest.NewRequest("POST", target, strings.NewReader(body))
				req.Method = c.Method
				if ct != "" {
					req.Header.Set("Content-Type", ct)
				}
				var obj c18Src
				var err error
				// through every automatic entry point: binding.Auto, binding.Bind, Context.Bind, Context.AutoBind
				entries := []string{"binding.Auto", "binding.Bind", "Context.Bind", "Context.AutoBind"}
				entry := entries[(len(ct)+b2i(withQuery))%len(entries)]
				if ct == "" || strings.Contains(ct, "json") || strings.Contains(ct, "form") {
					entry = entries[(len(c.Method)+len(ct)+b2i(withQuery))%len(entries)]
				}
				if !standard {
					// no route can be registered for such a method: the package-level entry points only
					entry = entries[(len(ct)+b2i(withQuery))%2]
				}
				pv := try(func() {
					switch entry {
					case "binding.Auto":
						err = binding.Auto(req, &obj)
					case "binding.Bind":
						err = binding.Bind(req, &obj)
					default:
						r := rux.New()
						r.Add("/x", func(ctx *rux.Context) {
							if entry == "Context.Bind" {
								err = ctx.Bind(&obj)
							} else {
								err = ctx.AutoBind(&obj)
							}
						}, c.Method)
						r.ServeHTTP(httptest.NewRecorder(), req)
					}
				})
				if pv != nil {
					add("table:panic", fmt.Sprintf("%s(%s, Content-Type %q, query=%v) panicked: %v", entry, c.Method, ct, withQuery, pv))
					continue
				}
				hasBody := c.Method == "POST" || c.Method == "PUT" || c.Method == "PATCH"
				want, wantErr := "", false
				switch {
				case !hasBody:
					if withQuery {
						want = "Q"
					}
				case strings.HasPrefix(ct, "application/x-www-form-urlencoded"):
					want = "F"
				case strings.HasPrefix(ct, "multipart/form-data"):
					want = "M"
				case strings.HasPrefix(ct, "application/json"):
					want = "J"
				case strings.HasPrefix(ct, "application/xml"), strings.HasPrefix(ct, "text/xml"):
					want = "X"
				default:
					wantErr = true
				}
				st.Outcome(fmt.Sprintf("source=%s err=%v", want, wantErr))
				if wantErr {
					if err == nil {
						add("table:no-error-for-unknown-type", fmt.Sprintf("Auto(%s, Content-Type %q): expected an error for an unsupported type, bound Name=%q", c.Method, ct, obj.Name))
					}
					continue
				}
				if err != nil || obj.Name != want {
					add("table:source", fmt.Sprintf("%s(%s, Content-Type %q, query present=%v): bound Name=%q err=%v; the documented source carries %q", entry, c.Method, ct, withQuery, obj.Name, err, want))
				}
			}
		}
	case "roundtrip":
		// the explicit binders of the context read their own source whatever the Content-Type says
		for _, eb := range []string{"BindJSON", "BindXML", "BindForm", "ShouldBind(JSON)", "MustBind(XML)"} {
			st.Evals++
			var obj c18Src
			var err error
			body, want := `{"name":"J"}`, "J"
			if strings.Contains(eb, "XML") {
				body, want = `<o><name>X</name></o>`, "X"
			} else if eb == "BindForm" {
				body, want = "name=F", "F"
			}
			req := httptest.NewRequest("POST", "/x?name=Q", strings.NewReader(body))
			req.Header.Set("Content-Type", "application/x-www-form-urlencoded")
			r := rux.New()
			r.POST("/x", func(ctx *rux.Context) {
				switch eb {
				case "BindJSON":
					err = ctx.BindJSON(&obj)
				case "BindXML":
					err = ctx.BindXML(&obj)
				case "BindForm":
					err = ctx.BindForm(&obj)
				case "ShouldBind(JSON)":
					err = ctx.ShouldBind(&obj, binding.JSON)
				case "MustBind(XML)":
					ctx.MustBind(&obj, binding.XML)
				}
			})
			if pv := try(func() { r.ServeHTTP(httptest.NewRecorder(), req) }); pv != nil {
				add("explicit:panic", fmt.Sprintf("Context.%s panicked: %v", eb, pv))
			} else if err != nil || obj.Name != want {
				add("explicit:source", fmt.Sprintf("Context.%s bound Name=%q err=%v, expected %q", eb, obj.Name, err, want))
			}
		}
		// integers at and beyond the edge of what a float64 holds exactly: every source carries them digit by digit
		for _, n := range []int64{0, -1, 1 << 53, 1<<53 + 1, -(1<<53 + 1), 1234567890123456789, math.MaxInt64, math.MinInt64} {
			for _, u := range []uint64{1<<53 + 1, math.MaxUint64} {
				st.Evals++
				st.Nontrivial++
				want := c18Big{ID: n, U: u, L: []int64{n, 1<<53 + 1}}
				method := "POST"
				if c.Format == "query" {
					method = "GET"
				}
				req := c18Request(method, c.Format, [][2]string{{"id", strconv.FormatInt(n, 10)}, {"u", strconv.FormatUint(u, 10)}, {"l", strconv.FormatInt(n, 10)}, {"l", strconv.FormatInt(1<<53+1, 10)}}, want)
				var got c18Big
				var err error
				if pv := try(func() { err = binding.Auto(req, &got) }); pv != nil {
					add("roundtrip:panic", fmt.Sprintf("%s source with the integers %d / %d: Auto panicked: %v", c.Format, n, u, pv))
					continue
				}
				if err != nil || got.ID != want.ID || got.U != want.U || fmt.Sprint(got.L) != fmt.Sprint(want.L) {
					add("roundtrip:"+c.Format+":large-integer", fmt.Sprintf("%s source with id=%d u=%d l=%v binds to id=%d u=%d l=%v (err=%v)", c.Format, want.ID, want.U, want.L, got.ID, got.U, got.L, err))
				}
			}
		}
		if c.Format == "xml" || c.Format == "json" {
			// other spellings of one document: every one of them encodes the same value and must bind to it
			want := c18Val{ID: 7, Name: "a b<c", On: true, Tags: []int{1, 2}}
			docs := []string{
				`<v><id>7</id><name>a b&lt;c</name><on>true</on><tags>1</tags><tags>2</tags></v>`,
				`<?xml version="1.0" encoding="UTF-8"?>` + "\n" + `<v><id>7</id><name>a b&lt;c</name><on>true</on><tags>1</tags><tags>2</tags></v>`,
				`<!-- lead --><v><id>7</id><name>a b&lt;c</name><on>true</on><tags>1</tags><tags>2</tags></v>`,
				`<v><id>7</id><name>a b&lt;c</name><on>true</on><tags>1</tags><tags>2</tags></v><!-- trailing comment -->`,
				`<v><id>7</id><name>a b&lt;c</name><on>true</on><tags>1</tags><tags>2</tags></v><?end of="document"?>`,
				`<v><id>7</id><name>a b&lt;c</name><on>true</on><tags>1</tags><tags>2</tags></v>` + "\n\n \t",
				"<v>\n  <id>7</id>\n  <name>a b&lt;c</name>\n  <on>true</on>\n  <tags>1</tags>\n  <tags>2</tags>\n</v>\n<!-- c -->\n",
				`<v><id>7</id><name><![CDATA[a b<c]]></name><on>true</on><tags>1</tags><tags>2</tags></v>`,
				`<v><id>7</id><name>a b&#60;c</name><on>true</on><!-- inner --><tags>1</tags><tags>2</tags></v>`,
				`<v><name>a b&lt;c</name><tags>1</tags><id>7</id><tags>2</tags><on>true</on></v>`,
			}
			ct := "application/xml"
			if c.Format == "json" {
				ct = "application/json"
				docs = []string{
					`{"id":7,"name":"a b<c","on":true,"tags":[1,2]}`,
					`{"id":7,"name":"a b<c","on":true,"tags":[1,2]}` + "\n",
					" \t\n" + `{ "id" : 7 , "name" : "a b<c" , "on" : true , "tags" : [ 1 , 2 ] }` + " \n ",
					`{"tags":[1,2],"on":true,"name":"a b<c","id":7}`,
					`{"id":7,"name":"a\u0020b\u003cc","on":true,"tags":[1,2]}`,
					`{"id":7,"name":"a b<c","on":true,"tags":[1,2],"unknown":{"x":[null]}}`,
				}
			}
			for _, doc := range docs {
				st.Evals++
				st.Nontrivial++
				req := httptest.NewRequest("POST", "/x", strings.NewReader(doc))
				req.Header.Set("Content-Type", ct)
				var got c18Val
				var err error
				if pv := try(func() { err = binding.Auto(req, &got) }); pv != nil {
					add("roundtrip:panic", fmt.Sprintf("%s document %q: Auto panicked: %v", c.Format, doc, pv))
					continue
				}
				got.XMLName = xml.Name{}
				if err != nil || got.ID != want.ID || got.Name != want.Name || got.On != want.On || fmt.Sprint(got.Tags) != fmt.Sprint(want.Tags) {
					add("roundtrip:"+c.Format+":equivalent-encoding", fmt.Sprintf("%s: the well-formed document %q encodes %+v but binds to %+v (err=%v)", c.Format, doc, want, got, err))
				}
			}
		}
		if c.Format == "xml" {
			// fields named like HTML void elements round-trip like any other
			for _, vals := range [][4]string{{"a", "b", "c", "d"}, {"", "x", "", "y"}, {"l<i>nk", "&amp;", "é", "z"}} {
				st.Evals++
				want := c18Voids{Link: vals[0], Meta: vals[1], Input: vals[2], After: vals[3]}
				var got c18Voids
				var err error
				if pv := try(func() { err = binding.Auto(c18Request("POST", "xml", nil, want), &got) }); pv != nil {
					add("roundtrip:panic", fmt.Sprintf("xml round trip of %+v panicked: %v", want, pv))
					continue
				}
				got.XMLName = xml.Name{}
				if err != nil || got != (c18Voids{Link: vals[0], Meta: vals[1], Input: vals[2], After: vals[3]}) {
					add("roundtrip:xml", fmt.Sprintf("xml: encoding %+v and binding it back gives %+v (err=%v)", want, got, err))
				}
			}
			// single-fault mutations of a well-formed document: whatever a strict XML parser refuses must give an error
			doc := `<v><id>1</id><name a="b">ab&amp;c</name><on>true</on></v>`
			muts := []string{}
			for i := 0; i < len(doc); i++ {
				muts = append(muts, doc[:i]+doc[i+1:]) // one character deleted
			}
			muts = append(muts, strings.Replace(doc, "</id>", "</name>", 1), strings.Replace(doc, "</name>", "", 1), strings.Replace(doc, `a="b"`, `a=b`, 1),
				strings.Replace(doc, `a="b"`, `a`, 1), strings.Replace(doc, "&amp;", "&nbsp;", 1), strings.Replace(doc, "&amp;", "&", 1), strings.Replace(doc, "</v>", "", 1),
				strings.Replace(doc, "<on>", "<on><br>", 1), doc+"<", "<v><id>1</v>", "<v><p>x<p>y</v>")
			for _, mdoc := range muts {
				st.Evals++
				var strict c18Val
				if xml.Unmarshal([]byte(mdoc), &strict) == nil {
					continue
				}
				st.Nontrivial++
				req := httptest.NewRequest("POST", "/x", strings.NewReader(mdoc))
				req.Header.Set("Content-Type", "application/xml")
				var got c18Val
				var err error
				if pv := try(func() { err = binding.Auto(req, &got) }); pv != nil {
					add("malformed:panic", fmt.Sprintf("xml body %q: Auto panicked: %v", mdoc, pv))
				} else if err == nil {
					add("malformed:xml-accepted", fmt.Sprintf("malformed XML %q was bound without error: %+v", mdoc, got))
				}
			}
		}
		// lists of strings, also one-element lists whose element holds the usual list separators
		for _, labels := range [][]string{nil, {"a"}, {"a,b"}, {"a", "b"}, {"a,b", "c"}, {","}, {"a;b"}, {"a b"}, {"a|b"}, {"[a]"}, {"a", "b,c", "d"}, {"1,2,3"}, {""}, {"", ""}, {"", "a"}} {
			for _, note := range []string{"", "x,y"} {
				st.Evals++
				st.Nontrivial++
				want := c18Lab{Labels: labels, Note: note}
				fields := [][2]string{{"note", note}}
				for _, l := range labels {
					fields = append(fields, [2]string{"labels", l})
				}
				m := "POST"
				if c.Format == "query" {
					m = "GET"
				}
				var got c18Lab
				var err error
				if pv := try(func() { err = binding.Auto(c18Request(m, c.Format, fields, want), &got) }); pv != nil {
					add("roundtrip:panic", fmt.Sprintf("%s round trip of %+v panicked: %v", c.Format, want, pv))
					continue
				}
				if err != nil || got.Note != note || strings.Join(got.Labels, "\x00") != strings.Join(labels, "\x00") || len(got.Labels) != len(labels) {
					add("roundtrip:"+c.Format+":string-list", fmt.Sprintf("%s: encoding Labels=%q Note=%q and binding it back gives Labels=%q Note=%q (err=%v)", c.Format, labels, note, got.Labels, got.Note, err))
				}
			}
		}
		ints := []int{0, 1, -7, 1 << 31}
		strs := []string{"", "ab", "a b", "é", "a&b=c", "<x>", `"q"`, "a+b%20", "x;y"}
		tagsets := [][]int{nil, {5}, {1, 2}, {0, -3}}
		method := "POST"
		if c.Format == "query" {
			method = "GET"
		}
		for _, id := range ints {
			for _, s := range strs {
				for _, on := range []bool{false, true} {
					for _, tags := range tagsets {
						st.Evals++
						st.Nontrivial++
						want := c18Val{ID: id, Name: s, On: on, Tags: tags}
						fields := [][2]string{{"id", strconv.Itoa(id)}, {"name", s}, {"on", strconv.FormatBool(on)}}
						for _, t := range tags {
							fields = append(fields, [2]string{"tags", strconv.Itoa(t)})
						}
						req := c18Request(method, c.Format, fields, want)
						var got c18Val
						var err error
						if pv := try(func() { err = binding.Auto(req, &got) }); pv != nil {
							add("roundtrip:panic", fmt.Sprintf("%s round trip of %+v panicked: %v", c.Format, want, pv))
							continue
						}
						got.XMLName = xml.Name{}
						eq := got.ID == want.ID && got.Name == want.Name && got.On == want.On && len(got.Tags) == len(want.Tags)
						if eq {
							for i := range got.Tags {
								if got.Tags[i] != want.Tags[i] {
									eq = false
								}
							}
						}
						if err != nil || !eq {
							add("roundtrip:"+c.Format, fmt.Sprintf("%s: encoding %+v and binding it back gives %+v (err=%v)", c.Format, want, got, err))
						}
					}
				}
			}
		}
	case "validator":
		method := "POST"
		if c.Format == "query" {
			method = "GET"
		}
		// every history of <= 3 operations on the package's validator switch; what counts is the state it leaves:
		// a validator is enabled <=> binding.Validator is non-nil
		var hists [][]string
		var recH func(cur []string)
		recH = func(cur []string) {
			if len(cur) > 0 {
				hists = append(hists, append([]string(nil), cur...))
			}
			if len(cur) == 3 {
				return
			}
			for _, op := range []string{"Reset", "Disable", "assign-custom", "assign-nil"} {
				recH(append(cur, op))
			}
		}
		recH(nil)
		defer binding.ResetValidator()
		for _, hist := range hists {
			custom := &c18Custom{}
			for _, op := range hist {
				switch op {
				case "Reset":
					binding.ResetValidator()
				case "Disable":
					binding.DisableValidator()
				case "assign-custom":
					binding.Validator = custom
				case "assign-nil":
					binding.Validator = nil
				}
			}
			last := hist[len(hist)-1]
			on := last == "Reset" || last == "assign-custom"
			ages := []int{-1, 0, 1, 50, 99, 100}
			if len(hist) > 1 {
				ages = []int{0, 50, 100} // the full value grid runs on the one-operation histories
			}
			// a completely EMPTY value set (no query string, an empty body, a multipart body without fields, "{}"): the
			// bound struct is the zero value, which the rules reject
			{
				st.Evals++
				st.Nontrivial++
				var req *http.Request
				switch c.Format {
				case "query":
					req = httptest.NewRequest("GET", "/x", nil)
				case "form":
					req = httptest.NewRequest("POST", "/x", strings.NewReader(""))
					req.Header.Set("Content-Type", "application/x-www-form-urlencoded")
				case "multipart":
					req = httptest.NewRequest("POST", "/x", strings.NewReader(c18MultipartBody(nil)))
					req.Header.Set("Content-Type", "multipart/form-data; boundary=BOUNDARY")
				case "json":
					req = httptest.NewRequest("POST", "/x", strings.NewReader("{}"))
					req.Header.Set("Content-Type", "application/json")
				default:
					req = httptest.NewRequest("POST", "/x", strings.NewReader("<r></r>"))
					req.Header.Set("Content-Type", "application/xml")
				}
				var got c18Rule
				var err error
				if pv := try(func() { err = binding.Auto(req, &got) }); pv != nil {
					add("validator:panic", fmt.Sprintf("%s bind of an empty value set panicked: %v", c.Format, pv))
				} else if on && err == nil {
					add("validator:bind-succeeded-on-invalid", fmt.Sprintf("%s, validator enabled (switch history %v): binding an EMPTY value set succeeded with %+v although the zero value violates the struct's rules", c.Format, hist, got))
				} else if !on && err != nil {
					add("validator:error-while-disabled", fmt.Sprintf("%s, validator disabled (switch history %v): binding an empty value set failed: %v", c.Format, hist, err))
				}
			}
			for _, age := range ages {
				for _, name := range []string{"", "a", "ab", "abc"} {
					st.Evals++
					st.Nontrivial++
					want := c18Rule{Age: age, Name: name}
					req := c18Request(method, c.Format, [][2]string{{"age", strconv.Itoa(age)}, {"name", name}}, want)
					var got c18Rule
					var err error
					if pv := try(func() { err = binding.Auto(req, &got) }); pv != nil {
						add("validator:panic", fmt.Sprintf("%s bind of %+v panicked: %v", c.Format, want, pv))
						continue
					}
					valid := validate.Struct(&c18Rule{Age: got.Age, Name: got.Name}).Validate()
					if on && err == nil && !valid {
						add("validator:bind-succeeded-on-invalid", fmt.Sprintf("%s, validator enabled (switch history %v): binding %+v succeeded although an independent validation of the bound struct fails", c.Format, hist, got))
					}
					if !on && err != nil {
						add("validator:error-while-disabled", fmt.Sprintf("%s, validator disabled (switch history %v): binding %+v failed: %v", c.Format, hist, want, err))
					}
					if on && err != nil && valid && got.Age == age && got.Name == name {
						add("validator:rejected-valid", fmt.Sprintf("%s, validator enabled: binding valid %+v failed: %v", c.Format, want, err))
					}
				}
			}
		}
		// rules that sit only in the element type of a slice
		if c.Format == "json" || c.Format == "xml" {
			binding.ResetValidator()
			skus := []string{"", "ab", "abc"}
			for n := 0; n <= 2; n++ {
				for i := 0; i < 9; i++ {
					var items []c18Item
					for k := 0; k < n; k++ {
						items = append(items, c18Item{SKU: skus[(i/(1+2*k))%3], Qty: (i + k) % 2})
					}
					st.Evals++
					st.Nontrivial++
					want := c18Order{Note: "n", Items: items}
					req := c18Request("POST", c.Format, nil, want)
					var got c18Order
					var err error
					if pv := try(func() { err = binding.Auto(req, &got) }); pv != nil {
						add("validator:panic", fmt.Sprintf("%s bind of %+v panicked: %v", c.Format, want, pv))
						continue
					}
					got.XMLName = xml.Name{}
					if err == nil && !validate.Struct(&got).Validate() {
						add("validator:bind-succeeded-on-invalid", fmt.Sprintf("%s, validator enabled: binding %+v succeeded although an independent validation of the bound struct (rules inside slice elements) fails", c.Format, got))
					}
				}
			}
		}
		binding.ResetValidator()
	case "malformed":
		maxLen := c.MaxLen
		if maxLen == 0 {
			maxLen = 4
		}
		var rec func(cur []byte)
		rec = func(cur []byte) {
			st.Evals++
			body := string(cur)
			var req *http.Request
			switch c.Format {
			case "json":
				req = httptest.NewRequest("POST", "/x", strings.NewReader(body))
				req.Header.Set("Content-Type", "application/json")
			case "xml":
				req = httptest.NewRequest("PUT", "/x", strings.NewReader(body))
				req.Header.Set("Content-Type", "text/xml")
			case "form":
				req = httptest.NewRequest("PATCH", "/x", strings.NewReader(body))
				req.Header.Set("Content-Type", "application/x-www-form-urlencoded")
			case "multipart":
				req = httptest.NewRequest("POST", "/x", strings.NewReader("--BOUNDARY\r\n"+body+"\r\n--BOUNDARY--"))
				req.Header.Set("Content-Type", "multipart/form-data; boundary=BOUNDARY")
			case "query":
				req = httptest.NewRequest("GET", "/x", nil)
				req.URL.RawQuery = body
			}
			var obj c18Val
			var err error
			if pv := try(func() { err = binding.Auto(req, &obj) }); pv != nil {
				add("malformed:panic", fmt.Sprintf("%s body %q: Auto panicked: %v", c.Format, body, pv))
			} else {
				switch c.Format {
				case "json":
					if !json.Valid(cur) {
						st.Nontrivial++
						if err == nil {
							add("malformed:json-accepted", fmt.Sprintf("invalid JSON %q was bound without error: %+v", body, obj))
						}
					}
				case "xml":
					var probe c18Val
					if xml.Unmarshal(cur, &probe) != nil {
						st.Nontrivial++
						if err == nil {
							add("malformed:xml-accepted", fmt.Sprintf("malformed XML %q was bound without error: %+v", body, obj))
						}
					}
				case "form":
					// a body net/url cannot parse is malformed input, even if some pairs of it are fine
					if _, perr := url.ParseQuery(body); perr != nil {
						st.Nontrivial++
						if err == nil {
							add("malformed:form-accepted", fmt.Sprintf("malformed urlencoded body %q was bound without error: %+v", body, obj))
						}
					}
				default:
					st.Nontrivial++
				}
			}
			if len(cur) == maxLen {
				return
			}
			for _, b := range c18Bytes {
				rec(append(append([]byte(nil), cur...), b))
			}
		}
		rec([]byte{c18Bytes[c.First]})
		if c.First == 0 {
			rec(nil) // the empty body (and, again, its extensions are covered by the other shards)
		}
	}
	if st.WantSample() {
		st.Sample(map[string]any{"case": c, "content_types": len(c18CTypes)})
	}
	_ = reflect.DeepEqual
	return vs
}

var c18Spec = fw.Spec[c18Case]{
	ID:      "C18",
	Level:   "model_checking",
	Workers: 1,
	Rule: "complete enumeration: decision table 19 method tokens (the nine standard ones, extension methods, other spellings, empty) x 25 Content-Type strings (the unsupported ones include sub-types spelled like registered binder names) x query present/absent, every source carrying a different value; requests with a history (form parsed before the method became body-less / the parsed form edited; a body reader that failed half way before the next binds; a middleware calling one of 14 helpers - FormParams with and without except lists, Post, PostParams, Query, QueryValues, ParseMultipartForm, FormFile, Copy (kept / bound first), a header bind - before the handler binds, x urlencoded / multipart / query x 5 methods); all sequences of <=3 (thorough 4) binds over 6 sources of a struct whose field has a different name in every source's tag; round trip of all values of a struct over int{0,1,-7,2^31} x 9 strings (unicode, separators, markup, quotes) x bool x 4 int slices, 10 equivalent spellings of one XML document and 6 of one JSON document (declaration, comments and processing instructions before and after the root, white space, CDATA, character references, element / key order, escapes, unknown members), and of 15 string lists (one-element lists holding , ; | space brackets included) x 2 notes, through query / urlencoded / multipart / JSON / XML; all byte strings of length <=4 (thorough 5) over 14 bytes as body per format (must not panic; malformed JSON/XML must yield an error); validator on/off reached through every history of <=3 switch operations {ResetValidator, DisableValidator, assign a custom validator, assign nil} x values on both sides of each rule and a completely empty value set; " +
		"non-trivial = a table row / a round-tripped value / a malformed body",
	Assume: []string{"media types that merely contain a canonical subtype as a substring (application/jsonp) are outside the alphabet", "runs single-threaded: the validator switch is package-global", "encoding/json and encoding/xml decide what 'malformed' means"},
	Bounds: func(tier string) map[string]any {
		return map[string]any{"methods": 9, "content_types": len(c18CTypes), "malformed_len": map[string]int{"quick": 4, "thorough": 5}[tier], "malformed_alphabet": len(c18Bytes)}
	},
	Gen:   c18Gen,
	Run:   c18Run,
	Batch: 1,
}

func init() {
	Registry["C18"] = func(args []string) int { return fw.Main(c18Spec, args) }
}
