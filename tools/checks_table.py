check('C14',
  'explicit-state model checking to fix-point of the real LRU cache against a reference LRU; BFS over request histories for the router clause',
  'Every reachable state of the real cachedRoutes for 1..4 keys x 2 values x capacities -1..4 is visited and every operation is applied in it and compared with a 30-line reference LRU (result, successor state, size invariants); the router clause is explored over all request histories up to the cache fix-point. Exhaustive within those bounds, which cover every branch of the 110-line cache.',
  'Bounded: at most 5 keys and capacity 5 (thorough). States are read through the verif hook VerifSnapshot; successors are built by replaying the shortest history on a fresh cache. Concurrency of the cache is decided under C03, not here.',
  'DESIGN.md 5 C14')
check('C01',
  'bounded exhaustive enumeration (complete product of route tables x methods x paths) of the real router against a reference resolver',
  'Every ordered table of up to 3 patterns (4 over a core pool) drawn from a 27-pattern pool that contains colliding inputs for every indexing shortcut of the router, with every method-set assignment, is registered on a real router and every one of 259 paths x 3-4 methods is resolved through Router.Match and ServeHTTP and compared with an independent reference resolver (back-tracking matcher + the documented tier rule). Nothing is sampled; the enumeration is complete within the stated alphabets.',
  'Small-scope: <=4 routes, <=3 path segments over 6 segment strings. The reference matcher and resolver (mc/refmodel/route.go) are trusted; they share no code with rux and are sanity-tested against hand-computed cases.',
  'DESIGN.md 5 C01')
check('C02',
  'bounded exhaustive enumeration of (pattern, request history) against a back-tracking reference matcher',
  'For each of 15 multi-variable patterns every ordered pair of candidate paths (all tuples over 12 values at every optional depth plus perturbations) is requested as the history p,q,p,q on routers with the cache off, capacity 1 and capacity 2, through Match and through ServeHTTP; the reported parameters must be a decomposition of the normalised path by the pattern (all decompositions are computed by an independent back-tracking matcher), non-matching paths must not reach the route, and the handler must see the same parameters.',
  'Values and patterns come from fixed alphabets; the reference matcher is trusted. Selection between several routes is C01.',
  'DESIGN.md 5 C02')
check('C06',
  'bounded exhaustive enumeration of (route table, option set, request) against a reference resolver',
  'Every ordered table of up to 2 (thorough 3) routes from an 13-route pool x all 16 option subsets x 6 InterceptAll values x default/custom NotFound and NotAllowed handlers is built; all 10 methods x 8 paths are resolved twice through Match and ServeHTTP and compared with the documented resolution order (direct, HEAD->GET, fallback route, 405 with exact allowed set / Allow header / OPTIONS 200, 404).',
  'Bounded tables and path alphabet; reference resolver trusted.',
  'DESIGN.md 5 C06')
check('C07',
  'explicit-state model checking to fix-point over request histories (cache-state graph) with a non-caching twin as oracle',
  'For 9 route tables x 8 option subsets x capacities 0..3 (thorough 0..4) the complete graph of reachable cache states of the real router is explored breadth-first (state = cache keys in recency order with the route and params each entry holds); in every state every request of an 13/16-request alphabet (hits, misses, evictions, HEAD->GET, 405 probes, fallback route, 404) is executed through Match and ServeHTTP and must observe exactly what the same router without caching observes. Fix-point reached: every state x every request.',
  'The canonical state is the cache content only (tables/options are frozen after registration, contexts are reset - C10). Bounded request alphabet and tables.',
  'DESIGN.md 5 C07')
check('C11',
  'bounded exhaustive enumeration: the full square of all strings up to length L as registered and as requested path',
  'ALL strings of length <=5 (thorough 6) over {/, space, ., a, b, TAB} are registered, each on its own router, and ALL of them are looked up against it in both StrictLastSlash modes (209 M / 6.3 G lookups): a request reaches the route iff both normalise to the same string under an independent 10-line normaliser, Route.Path() is that normal form and nothing panics. The same is done for group prefix x path x request (length <=3) and for raw/escaped paths of <=4 tokens under both UseEncodedPath settings.',
  'Alphabet of 6 characters, bounded length; net/url EscapedPath is taken as the definition of the escaped path.',
  'DESIGN.md 5 C11')
check('C13',
  'bounded exhaustive enumeration: invalid definitions built by construction must be rejected; every accepted definition of the complete token product is probed for lookup totality',
  'Rejection: all 22.8 k method-name strings (<=4 letters over a 12-symbol alphabet plus variants of the 9 names), handler counts 0..70 through every registration path, nil handlers, late options, and ~600 structured patterns (capturing group at every position of a variable regex, optional part not at the end, uncompilable regex) - each invalid by construction - must panic in the registration call. Totality: ALL pattern strings of <=5 (thorough 6) tokens over 15 tokens (0.8 M / 12 M) are offered to registration and every accepted one is matched against short and special path strings and method strings through Match and ServeHTTP, with all options off and all on; none may panic.',
  'Garbage patterns are never classified (only lookup totality is required of them). Over-rejection (a valid control refused) is not a violation of the statement and is only counted.',
  'DESIGN.md 5 C13')
check('C04',
  'bounded exhaustive enumeration of registration programs and handler-behaviour vectors against a cursor-free chain interpreter',
  'All registration programs of <=4 (thorough 5) statements over Use/Group/Route(+later Route.Use)/NotFound/NotAllowed with nesting <=3 (66 k / 1.5 M programs) are registered on a real router; one request per route plus a 404 and a 405 request is served and the enter/leave trace of the instrumented handlers must equal the trace computed by a registration-program model and a chain interpreter that has no cursor arithmetic. All behaviour vectors over {no Next, Next once, Next twice} for n<=6 (7) handlers x all global/group/route splits, and chains of 22..63 handlers with <=2 deviating positions, are run the same way.',
  'Bounded program size and chain alphabets; near-limit chains by deviation bounding (uniform behaviour + <=2 deviations), not by a full product.',
  'DESIGN.md 5 C04')
check('C05',
  'bounded exhaustive enumeration of abort behaviours per chain position against a chain interpreter with an abort flag',
  'All vectors over 10 handler behaviours (Abort / AbortThen / AbortWithStatus before, after or without Next, write-then-Next, probes of IsAborted) for chains of n<=4 (thorough 5) x every global/group/route split, n=5 and chains of 33..63 handlers by deviation bounding with the aborting handler at every position: event-by-event equality of the observed trace (handler starts, leaves, every IsAborted sample) and of the response status with the interpreter.',
  'Chains stay within the documented limit (62 middleware + main). Global middleware is not counted by any registration check (L1 in DESIGN) and such over-long chains are not generated.',
  'DESIGN.md 5 C05')
check('C08',
  'depth-bounded exhaustive search over writer operation sequences with enumerated environment answers (short write / error) against a writer specification',
  'ALL operation sequences of length <=4 (thorough 6) over 16 operations (incl. statuses 204 and 304 and a Stream) x splits over middleware-before/main/middleware-after, the OnError hook, a HandleContext re-dispatch, an io.ReaderFrom underlying writer x every assignment of <=2 faulty answers to the underlying writes, and length 5 (6) with <=1 fault: the complete event log of a recording ResponseWriter+Flusher (WriteHeader calls with code and header snapshot, accepted bytes, flushes), the body and Length() must equal a 20-line specification.',
  'Operation and status alphabets are fixed; the recording writer stands in for a real connection. Hijack is not exercised.',
  'DESIGN.md 5 C08')
check('C09',
  'bounded exhaustive enumeration of panic positions, values, hook behaviours and follow-up requests with a fresh-router twin as oracle',
  'Every chain shape n<=3 (thorough 5) x split x panic position x {before/after/without Next} x panic value x hook variant x PanicsHandler x committed-before-panic, and panics inside NotFound/NotAllowed/OnError handlers: containment (no escape with a hook, identical value re-panics without), hook runs once and sees the value, nothing starts after the panic, exactly one WriteHeader with the hook status/body; then each of 15 follow-up request kinds must observe what it observes on a router that never saw the panic.',
  'For the in-chain PanicsHandler middleware only non-escape and healthy follow-ups are asserted.',
  'DESIGN.md 5 C09')
check('C10',
  'bounded exhaustive enumeration of request histories with a fresh-router twin as differential oracle',
  'All histories of length <=3 (thorough 4-5) over 15 request kinds (every context mutation a handler can perform, 404, 405, panic, HandleContext re-dispatch, nested ServeHTTP, Copy) x 8 router configurations: the probe snapshot (Data, Params, Errors, abort state, status, length, chain length, writer and request identity) and the response of the last request equal those of the same request issued first on a fresh identical router. Reuse of a pooled context is counted by pointer identity (all but the first request of a history run on a reused context).',
  'Uses the real sync.Pool (reuse is observed, not forced); the controlled pool of C03 forces it.',
  'DESIGN.md 5 C10')
check('C12',
  'bounded exhaustive enumeration of registration programs with nested groups against a registration-program model',
  'All programs of <=4 (thorough 5) statements, nesting <=3, over Use / Group (prefixes with and without leading slash, 0..2 middleware, also passed with spare slice capacity) / Route / Controller / Resource (289 k programs quick): every route is reachable exactly under the concatenated prefixes (and not without them), carries exactly the modelled middleware (count and request trace), Routes() holds nothing else, and a sentinel route registered after every top-level statement has no prefix and no group middleware.',
  'Clean non-root prefixes as the statement says; program size bounded.',
  'DESIGN.md 5 C12')
check('C03',
  'stateless model checking of the real ServeHTTP under a hand-written controlled scheduler (preemption-bounded DFS over all interleavings) + vector-clock race monitor; free-running -race pass as safety net',
  'rux is rebuilt with sync and container/list replaced by shims and a scheduling point before every visible statement (go build -overlay, generated from the current tree). For every scenario (router shape x 2-3 in-flight requests x sequential history incl. panicking and re-dispatching requests) every interleaving is executed up to a preemption bound iterated 0,1(,2,3): each request must observe exactly what it observes alone, no panic/deadlock/livelock, cache and pool invariants afterwards, no unordered conflicting accesses to the cache list (vector clocks). A cache-seam harness explores 2-3 threads of direct cache operations and checks linearizability against the reference LRU by brute force. Every schedule is replayable and replayed twice before it is reported. The same bodies then run free on 8 goroutines under the Go race detector.',
  'Preemption-bounded (bounds and points per tier are in the evidence); sequentially consistent scheduler; the race clause for memory the shims cannot see rests on the dynamic -race pass, which is not an enumeration.',
  'DESIGN.md 3.2, 5 C03')
check('C15',
  'bounded exhaustive enumeration of (named template, value tuple, argument style) with the router itself closing the round trip',
  'For 14 named templates every value tuple over 19 values that satisfies the variables\' regexes x 3 argument styles x 4 sets of extra query arguments is built with BuildURL; the resulting URL is matched (Match on u.Path) and really requested (a request parsed from u.String() through ServeHTTP) and must reach the same route with exactly those values, extras must appear as query parameters; all sequences of <=3 (4) naming operations over 2 names x 3 naming APIs must leave GetRoute(name) on the most recent route.',
  'Values containing braces are excluded (Build substitutes in Go map order, which cannot be owned); tuples spelling a path that is not in normal form are skipped because C11 defines those characters away.',
  'DESIGN.md 5 C15')
check('C16',
  'bounded exhaustive enumeration of all 128 controller method sets x registration orders (driven through the exported action map, observed through the debug print) against the documented REST table and the reference resolver',
  'All 128 subsets of the seven actions (generated controller types) x with/without Uses() x 3 base paths x inside/outside a group; for each, registration is repeated until every permutation of the implemented actions (k<=4; all rotations of two orders beyond) was actually observed as registration order; for every observed order Routes()/NamedRoutes() must equal the documented table and all 9 methods x 8 probe paths must dispatch as the reference resolver says over that table; per-action middleware only for its action; bad controllers rejected.',
  'Go map iteration order inside Resource is driven via insertion order and confirmed from rux\'s own debug output; an order not observed within 400 draws is reported as a cap (never happened).',
  'DESIGN.md 5 C16')
check('C17',
  'bounded exhaustive enumeration of request paths (raw and percent-encoded token strings) against a real sandbox directory tree with marked outside files',
  'All paths of <=3 (thorough 4) tokens over 19 traversal tokens after each mount prefix, sent raw+decoded, for StaticDir/StaticFS/StaticFiles/StaticFile x 2 prefixes x both UseEncodedPath settings: no response may carry a marker of a file outside the root or list an outside directory, every 200 body is a file under the root, StaticFiles serves only allowed extensions, StaticFile only its file.',
  'Relative to the sandbox tree, OS and file system of the run; net/http FileServer is part of the implementation under test.',
  'DESIGN.md 5 C17')
check('C18',
  'exhaustive decision table + bounded exhaustive enumeration of values and of all short byte strings as bodies',
  'Decision table 9 methods x 14 Content-Types x query present/absent with a different value in every source; round trip of 576 struct values through query/urlencoded/multipart/JSON/XML; ALL byte strings of length <=4 over 14 bytes as body per format (no panic; malformed JSON/XML must give an error); validator on/off against an independent validation of the bound struct.',
  'Media types containing a canonical subtype only as a substring are outside the alphabet; encoding/json and encoding/xml define malformed; weakest fit for the technique among the properties (value spaces are representative, not complete).',
  'DESIGN.md 5 C18')
check('C19',
  'bounded exhaustive enumeration of helpers x statuses x value alphabets x preset content types and of all Accept lists up to length 3',
  '11 context helpers x 8 statuses x strings/maps/structs/slices/scalars/unencodable values x preset Content-Type; 11 pkg/render functions x preset types; render.Auto over ALL 1110 Accept lists of <=3 entries from 10 entries: status, documented Content-Type (preset preserved by the renderers), body decodes back, first supported type wins, encoding failures reported as errors not panics.',
  'Value alphabets are representative; text/html negotiation is modelled as the code\'s no-op.',
  'DESIGN.md 5 C19')
check('C20',
  'exhaustive decision tables for the three gates against independent reference tables',
  'HTTPBasicAuth: 6 account maps x 20 Authorization values x 3 middleware placements (gate open iff well-formed credentials and no list or matching password; else 401+challenge / 403 and nothing downstream); HTTPMethodOverrideHandler: 10 methods x 13 values x 6 carriers; WrapHTTPHandlers: wrapper lists of length 1..4; WrapHTTPHandler(Func) at every subset of positions of chains n<=4.',
  'Tables are finite and complete over their alphabets; disagreeing override carriers are executed but not asserted.',
  'DESIGN.md 5 C20')
