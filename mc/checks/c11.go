package checks

import (
	"fmt"
	"net/http"
	"net/http/httptest"
	"net/url"
	"strings"

	"github.com/gookit/rux"

	"verif/mc/fw"
	"verif/mc/refmodel"
)

// C11: registration and lookup normalise paths identically. The full P x Q
// square over ALL strings of length <= L over {'/',' ','.','a','b','\t'} in both
// StrictLastSlash modes; G x P x Q for group prefixes (length <= 3); and the
// UseEncodedPath clause over all token strings of <= 4 tokens.

var c11Alphabet = []byte{'/', ' ', '.', 'a', 'b', '\t'}

func c11Strings(maxLen int) []string {
	out := []string{""}
	prev := []string{""}
	for l := 1; l <= maxLen; l++ {
		var cur []string
		for _, p := range prev {
			for _, c := range c11Alphabet {
				cur = append(cur, p+string(c))
			}
		}
		out = append(out, cur...)
		prev = cur
	}
	return out
}

type c11Case struct {
	Kind   string `json:"kind"` // "square" | "group" | "encoded"
	Strict bool   `json:"strict"`
	P      string `json:"p,omitempty"` // registered path (square) / group prefix (group)
	L      int    `json:"max_len"`
	Enc    bool   `json:"use_encoded_path,omitempty"`
	Uni    bool   `json:"unicode_white_space_alphabet,omitempty"` // square over {'/','a',' ',U+00A0,U+3000,U+0085,U+2003}, <= 3 characters
	Redisp bool   `json:"redispatched_with_handlecontext,omitempty"`
	Late   bool   `json:"option_applied_with_WithOptions_after_New,omitempty"`
	// Reattach: ONE Route value is attached to a router of the other StrictLastSlash setting first, then to the router under test
	Reattach bool `json:"route_value_attached_to_another_router_first,omitempty"`
	// AfterMiss: caching router; every request spelling was asked (and missed) BEFORE the route - the registered string
	// with each 'a' turned into a variable {v} - was registered
	AfterMiss bool `json:"dynamic_route_registered_after_every_spelling_missed,omitempty"`
	// Named: the route is registered through the named-route API (AddNamed)
	Named bool `json:"registered_with_AddNamed,omitempty"`
}

var c11UniAlphabet = []rune{'/', 'a', ' ', '\u00a0', '\u3000', '\u0085', '\u2003'}

func c11GetUni() *c11Set {
	if s, ok := c11Sets[-3]; ok {
		return s
	}
	out := []string{""}
	prev := []string{""}
	for l := 1; l <= 3; l++ {
		var cur []string
		for _, p := range prev {
			for _, c := range c11UniAlphabet {
				cur = append(cur, p+string(c))
			}
		}
		out = append(out, cur...)
		prev = cur
	}
	s := &c11Set{strs: out}
	for m := 0; m < 2; m++ {
		s.norm[m] = make([]string, len(out))
		for i, x := range out {
			s.norm[m][i] = refmodel.Norm(x, m == 1)
		}
	}
	c11Sets[-3] = s
	return s
}

type c11Set struct {
	strs []string
	norm [2][]string // [strict]
}

var c11Sets = map[int]*c11Set{}

func c11Get(l int) *c11Set {
	if s, ok := c11Sets[l]; ok {
		return s
	}
	s := &c11Set{strs: c11Strings(l)}
	for m := 0; m < 2; m++ {
		s.norm[m] = make([]string, len(s.strs))
		for i, x := range s.strs {
			s.norm[m][i] = refmodel.Norm(x, m == 1)
		}
	}
	c11Sets[l] = s
	return s
}

func init() {
	for _, l := range []int{2, 3, 5, 6} {
		c11Get(l)
	}
	c11GetUni()
	Registry["C11"] = func(args []string) int { return fw.Main(c11Spec, args) }
}

func c11Gen(tier string, emit func(c11Case)) {
	L := 5
	if tier == "thorough" {
		L = 6
	}
	for _, strict := range []bool{false, true} {
		for _, g := range c11Get(3).strs {
			emit(c11Case{Kind: "group", Strict: strict, P: g, L: 3})
		}
	}
	for _, strict := range []bool{false, true} {
		for _, g := range c11Get(2).strs {
			emit(c11Case{Kind: "group2", Strict: strict, P: g, L: 2})
		}
	}
	for _, enc := range []bool{false, true} {
		for _, strict := range []bool{false, true} {
			emit(c11Case{Kind: "encoded", Strict: strict, Enc: enc, L: 4})
		}
	}
	// dynamic routes whose literal text contains dots at every position: a dot is a dot for every request string
	for _, pat := range []string{"/.a/{x}", "/.a[.b]", "/.{x}", "/a.b/{x}", "/a/{x}.b", "/.a.b/{x}.a", "/a[/.b]", "/..a/{x}"} {
		emit(c11Case{Kind: "dotted", P: pat, L: 5})
	}
	// ... and in a literal head of two and three path nodes (request strings of up to 8 / 9 characters)
	for _, pat := range []string{"/a/.b/{x}", "/a/b.a/{x}", "/a.b/a/{x}", "/a.b/a.b/{x}"} {
		emit(c11Case{Kind: "dotted", P: pat, L: 6})
	}
	emit(c11Case{Kind: "dotted", P: "/a/b/.a/{x}", L: 7})
	// StrictLastSlash together with the route cache: '/x' and '/x/' stay different paths whatever was requested before
	for _, capN := range []int{1, 2, 8} {
		emit(c11Case{Kind: "strict-cache", Strict: true, L: capN})
		emit(c11Case{Kind: "strict-cache", Strict: false, L: capN})
	}
	for _, strict := range []bool{false, true} {
		for _, p := range c11GetUni().strs {
			emit(c11Case{Kind: "square", Strict: strict, P: p, L: 3, Uni: true})
		}
	}
	// one Route value attached to a router of the other strictness first
	// (only in this direction: a non-strict router trims the trailing slashes off the Route value itself, so a strict
	// router that gets the value afterwards is handed another definition)
	for _, p := range c11Get(4).strs {
		emit(c11Case{Kind: "square", Strict: false, P: p, L: 4, Reattach: true})
	}
	// registered through the named-route API, in both modes
	for _, strict := range []bool{false, true} {
		for _, p := range c11Get(4).strs {
			emit(c11Case{Kind: "square", Strict: strict, P: p, L: 4, Named: true})
		}
	}
	// a dynamic route registered on a caching router after every spelling of the request path was asked and missed
	for _, strict := range []bool{false, true} {
		for _, p := range c11Get(3).strs {
			if strings.Contains(p, "a") {
				emit(c11Case{Kind: "square", Strict: strict, P: p, L: 3, AfterMiss: true})
			}
		}
	}
	// the option given to WithOptions after New() instead of to New()
	for _, p := range c11Get(4).strs {
		emit(c11Case{Kind: "square", Strict: true, P: p, L: 4, Late: true})
	}
	for _, strict := range []bool{false, true} {
		// long paths: every length up to 300 (lookup keys, buffers and limits must not depend on the length)
		for lo := 1; lo <= 300; lo += 20 {
			emit(c11Case{Kind: "long", Strict: strict, L: lo})
		}
		// InterceptAll(p) with the route registered under the same string p, in every option order
		for _, g := range c11Get(3).strs {
			emit(c11Case{Kind: "intercept", Strict: strict, P: g, L: 2})
		}
	}
	for _, strict := range []bool{false, true} {
		for _, p := range c11Get(L).strs {
			emit(c11Case{Kind: "square", Strict: strict, P: p, L: L})
		}
	}
}

func b2i(b bool) int {
	if b {
		return 1
	}
	return 0
}

func c11Opts(strict bool) []func(*rux.Router) {
	if strict {
		return []func(*rux.Router){rux.StrictLastSlash}
	}
	return nil
}

func c11Run(c c11Case, st *fw.Stats) []fw.Viol {
	var viols []fw.Viol
	add := func(sig, msg string) {
		if len(viols) < 6 {
			viols = append(viols, fw.Viol{Sig: sig, Msg: msg})
		}
	}
	h := func(*rux.Context) {}
	switch c.Kind {
	case "square":
		set := c11Get(c.L)
		if c.Uni {
			set = c11GetUni()
		}
		sm := fmt.Sprintf("strict=%v", c.Strict)
		if c.Late {
			sm += " (applied with WithOptions after New())"
		}
		if c.Named {
			sm += " (registered with AddNamed)"
		}
		if c.Reattach {
			sm += fmt.Sprintf(" (the Route value was attached to a router with strict=%v first)", !c.Strict)
		}
		if c.AfterMiss {
			dyn := strings.ReplaceAll(c.P, "a", "{v}")
			sm += " caching router; every request path below was asked once before the route existed"
			var r *rux.Router
			if pv := try(func() {
				r = rux.New(append(c11Opts(c.Strict), rux.EnableCaching)...)
				r.GET("/zz9/{w}", h) // (an unrelated dynamic route exists from the start; no request of the alphabet reaches it)
				for _, q := range set.strs {
					_, _, _ = r.Match("GET", q)
				}
				r.GET(dyn, h)
			}); pv != nil {
				// (a definition the router rejects - the same variable twice - is C13's subject, not a lookup question)
				st.Inc("after_miss_definitions_rejected", 1)
				return viols
			}
			np := refmodel.Norm(dyn, c.Strict)
			pat, err := refmodel.CachedPattern(np)
			if err != nil {
				return viols
			}
			norms := set.norm[b2i(c.Strict)]
			for round := 0; round < 2; round++ {
				for qi, q := range set.strs {
					st.Evals++
					want := pat.Matches(norms[qi])
					if want {
						st.Nontrivial++
					}
					var got bool
					if pv := try(func() { m, _, _ := r.Match("GET", q); got = m != nil }); pv != nil {
						add("lookup:panic", fmt.Sprintf("%s: route %q: Match(GET,%q) panicked: %v", sm, dyn, q, pv))
						continue
					}
					if got != want {
						add(fmt.Sprintf("lookup:reach:want=%v", want), fmt.Sprintf("%s: route registered as %q (normal form %q): request path %q (normal form %q) reaches it = %v, expected %v", sm, dyn, np, q, norms[qi], got, want))
					}
				}
			}
			return viols
		}
		var r *rux.Router
		var rt *rux.Route
		if pv := try(func() {
			if c.Late {
				r = rux.New()
				r.WithOptions(c11Opts(c.Strict)...)
			} else {
				r = rux.New(c11Opts(c.Strict)...)
			}
			if c.Reattach {
				rt = rux.NewRoute(c.P, h, "GET")
				other := rux.New(c11Opts(!c.Strict)...)
				rt.AttachTo(other)
				other.Match("GET", c.P)
				rt.AttachTo(r)
				return
			}
			if c.Named {
				rt = r.AddNamed("named", c.P, h, "GET")
				return
			}
			rt = r.GET(c.P, h)
		}); pv != nil {
			add("register:panic", fmt.Sprintf("%s: GET(%q) panicked: %v", sm, c.P, pv))
			return viols
		}
		np := refmodel.Norm(c.P, c.Strict)
		if rt.Path() != np {
			add("register:path", fmt.Sprintf("%s: route registered as %q has path %q, normal form is %q", sm, c.P, rt.Path(), np))
		}
		norms := set.norm[b2i(c.Strict)]
		for qi, q := range set.strs {
			st.Evals++
			want := norms[qi] == np
			if want {
				st.Nontrivial++
			}
			var got bool
			if pv := try(func() { m, _, _ := r.Match("GET", q); got = m != nil }); pv != nil {
				add("lookup:panic", fmt.Sprintf("%s: route %q: Match(GET,%q) panicked: %v", sm, c.P, q, pv))
				continue
			}
			if got != want {
				add(fmt.Sprintf("lookup:reach:want=%v", want), fmt.Sprintf("%s: route registered as %q (normal form %q): request path %q (normal form %q) reaches it = %v, expected %v", sm, c.P, np, q, norms[qi], got, want))
			}
			// a HEAD request is served by the GET route: the fallback lookup must normalise the path in the same way
			var gotH bool
			if pv := try(func() { m, _, _ := r.Match("HEAD", q); gotH = m != nil }); pv != nil {
				add("lookup:panic", fmt.Sprintf("%s: route %q: Match(HEAD,%q) panicked: %v", sm, c.P, q, pv))
			} else if gotH != want {
				add(fmt.Sprintf("lookup:head-fallback:want=%v", want), fmt.Sprintf("%s: GET route registered as %q (normal form %q): HEAD request path %q (normal form %q) reaches it = %v, expected %v", sm, c.P, np, q, norms[qi], gotH, want))
			}
		}
		if st.WantSample() && len(c.P) >= 4 {
			st.Sample(map[string]any{"kind": "square", "strict": c.Strict, "registered": c.P, "normal_form": np, "request_paths": len(set.strs), "e.g.": set.strs[len(set.strs)-3:]})
		}
	case "group":
		set := c11Get(3)
		norms := set.norm[b2i(c.Strict)]
		var ng string
		if pv := try(func() {
			r := rux.New(c11Opts(c.Strict)...)
			r.Group(c.P, func() {})
		}); pv != nil {
			add("group:panic", fmt.Sprintf("strict=%v: Group(%q) panicked: %v", c.Strict, c.P, pv))
			return viols
		}
		ng = refmodel.Norm(c.P, c.Strict)
		for pi, p := range set.strs {
			var r *rux.Router
			var rt *rux.Route
			if pv := try(func() {
				r = rux.New(c11Opts(c.Strict)...)
				r.Group(c.P, func() { rt = r.GET(p, h) })
			}); pv != nil {
				add("group:panic", fmt.Sprintf("strict=%v: Group(%q){GET(%q)} panicked: %v", c.Strict, c.P, p, pv))
				continue
			}
			want := refmodel.Norm(ng+norms[pi], c.Strict)
			if rt.Path() != want {
				add("group:path", fmt.Sprintf("strict=%v: Group(%q){GET(%q)}: route path %q, expected prefix and path normal forms joined and re-normalised = %q", c.Strict, c.P, p, rt.Path(), want))
				continue
			}
			if pi%16 == 0 {
				// however the prefix was spelled, nothing of it is left once the group has returned
				var after *rux.Route
				if pv := try(func() { after = r.GET("/zz-after", h) }); pv != nil {
					add("group:panic", fmt.Sprintf("strict=%v: a route registered after Group(%q) returned panicked: %v", c.Strict, c.P, pv))
				} else if after.Path() != "/zz-after" {
					add("group:prefix-residue", fmt.Sprintf("strict=%v: a route registered as \"/zz-after\" AFTER Group(%q) returned has path %q", c.Strict, c.P, after.Path()))
				} else if m, _, _ := r.Match("GET", "/zz-after"); m == nil {
					add("group:prefix-residue", fmt.Sprintf("strict=%v: a route registered as \"/zz-after\" after Group(%q) returned is not reachable there", c.Strict, c.P))
				}
			}
			for qi, q := range set.strs {
				st.Evals++
				wantReach := norms[qi] == want
				if wantReach {
					st.Nontrivial++
				}
				var got bool
				if pv := try(func() { m, _, _ := r.Match("GET", q); got = m != nil }); pv != nil {
					add("lookup:panic", fmt.Sprintf("strict=%v: Group(%q){GET(%q)}: Match(GET,%q) panicked: %v", c.Strict, c.P, p, q, pv))
					continue
				}
				if got != wantReach {
					add(fmt.Sprintf("group:reach:want=%v", wantReach), fmt.Sprintf("strict=%v: Group(%q){GET(%q)} (path %q): request %q (normal form %q) reaches it = %v", c.Strict, c.P, p, want, q, norms[qi], got))
				}
			}
		}
	case "group2":
		// nested groups: each prefix is normalised on its own, then concatenated
		set := c11Get(2)
		norms := set.norm[b2i(c.Strict)]
		more := c11Get(3)
		mnorms := more.norm[b2i(c.Strict)]
		ng1 := refmodel.Norm(c.P, c.Strict)
		for g2i, g2 := range set.strs {
			for pi, p := range set.strs {
				var r *rux.Router
				var rt *rux.Route
				if pv := try(func() {
					r = rux.New(c11Opts(c.Strict)...)
					r.Group(c.P, func() { r.Group(g2, func() { rt = r.GET(p, h) }) })
				}); pv != nil {
					add("group:panic", fmt.Sprintf("strict=%v: Group(%q){Group(%q){GET(%q)}} panicked: %v", c.Strict, c.P, g2, p, pv))
					continue
				}
				want := refmodel.Norm(ng1+norms[g2i]+norms[pi], c.Strict)
				st.Evals++
				if rt.Path() != want {
					add("group:nested-path", fmt.Sprintf("strict=%v: Group(%q){Group(%q){GET(%q)}}: route path %q, expected the prefixes' and the path's normal forms joined and re-normalised = %q", c.Strict, c.P, g2, p, rt.Path(), want))
					continue
				}
				if (g2i*len(set.strs)+pi)%7 != 0 {
					continue
				}
				for qi, q := range more.strs {
					st.Evals++
					wantReach := mnorms[qi] == want
					if wantReach {
						st.Nontrivial++
					}
					var got bool
					if pv := try(func() { m, _, _ := r.Match("GET", q); got = m != nil }); pv != nil {
						add("lookup:panic", fmt.Sprintf("strict=%v: nested groups %q,%q path %q: Match(GET,%q) panicked: %v", c.Strict, c.P, g2, p, q, pv))
					} else if got != wantReach {
						add(fmt.Sprintf("group:reach:want=%v", wantReach), fmt.Sprintf("strict=%v: Group(%q){Group(%q){GET(%q)}} (path %q): request %q reaches it = %v", c.Strict, c.P, g2, p, want, q, got))
					}
				}
			}
		}
	case "long":
		for k := c.L; k < c.L+20; k++ {
			for _, shape := range []string{"static", "segments", "dynamic"} {
				var p, hit string
				switch shape {
				case "static":
					p = "/" + strings.Repeat("a", k)
					hit = p
				case "segments":
					p = strings.Repeat("/ab", (k+2)/3)
					hit = p
				default:
					p = "/" + strings.Repeat("a", k) + "/{x}"
					hit = "/" + strings.Repeat("a", k) + "/7"
				}
				np := refmodel.Norm(p, c.Strict)
				for _, m := range []string{"GET", "DELETE", "OPTIONS"} {
					var r *rux.Router
					if pv := try(func() {
						r = rux.New(c11Opts(c.Strict)...)
						r.Add(p, h, m)
					}); pv != nil {
						add("register:panic", fmt.Sprintf("strict=%v: registering %s %q (%d bytes) panicked: %v", c.Strict, m, p, len(p), pv))
						continue
					}
					for _, q := range []string{hit, hit + "/", hit + "x", hit[:len(hit)-1], hit + "/a/b", " " + hit + " ", "/" + hit, hit + "//", hit[:len(hit)/2]} {
						st.Evals++
						var want bool
						if shape == "dynamic" {
							pt, err := refmodel.CachedPattern(np)
							if err != nil {
								panic(err)
							}
							want = pt.Matches(refmodel.Norm(q, c.Strict))
						} else {
							want = refmodel.Norm(q, c.Strict) == np
						}
						if want {
							st.Nontrivial++
						}
						var got bool
						if pv := try(func() { rt, _, _ := r.Match(m, q); got = rt != nil }); pv != nil {
							add("lookup:panic", fmt.Sprintf("strict=%v: %s route %q: Match(%q) panicked: %v", c.Strict, m, p, q, pv))
						} else if got != want {
							add(fmt.Sprintf("long:reach:want=%v", want), fmt.Sprintf("strict=%v: %s route of %d bytes %q: request path of %d bytes %q (normal form %q) reaches it = %v, expected %v", c.Strict, m, len(p), p, len(q), q, refmodel.Norm(q, c.Strict), got, want))
						}
					}
				}
			}
		}
		st.Max("max_path_bytes", int64(c.L+19+3))
	case "intercept":
		// every request is resolved as a request for p: with the route registered under the very same string it is always reached
		np := refmodel.Norm(c.P, c.Strict)
		reqs := c11Get(c.L).strs
		for order := 0; order < 4; order++ {
			if order > 0 && !c.Strict {
				continue // without StrictLastSlash there is only one option
			}
			var r *rux.Router
			if pv := try(func() {
				switch order {
				case 0:
					r = rux.New(append(c11Opts(c.Strict), rux.InterceptAll(c.P))...)
				case 1:
					r = rux.New(rux.InterceptAll(c.P), rux.StrictLastSlash)
				case 2:
					r = rux.New(rux.InterceptAll(c.P))
					r.WithOptions(rux.StrictLastSlash)
				default:
					r = rux.New(rux.StrictLastSlash)
					r.WithOptions(rux.InterceptAll(c.P))
				}
				r.GET(c.P, h)
			}); pv != nil {
				add("intercept:panic", fmt.Sprintf("strict=%v: InterceptAll(%q) + GET(%q) (option order %d) panicked: %v", c.Strict, c.P, c.P, order, pv))
				continue
			}
			orderName := []string{"StrictLastSlash?, InterceptAll", "InterceptAll, StrictLastSlash", "New(InterceptAll) then WithOptions(StrictLastSlash)", "New(StrictLastSlash) then WithOptions(InterceptAll)"}[order]
			for _, q := range reqs {
				st.Evals++
				want := strings.TrimSpace(c.P) != "" // InterceptAll("") switches interception off
				if !want {
					want = refmodel.Norm(q, c.Strict) == np
				}
				if want {
					st.Nontrivial++
				}
				var got bool
				if pv := try(func() { rt, _, _ := r.Match("GET", q); got = rt != nil }); pv != nil {
					add("intercept:panic", fmt.Sprintf("strict=%v options [%s]: InterceptAll(%q): Match(GET,%q) panicked: %v", c.Strict, orderName, c.P, q, pv))
				} else if got != want {
					add(fmt.Sprintf("intercept:reach:want=%v", want), fmt.Sprintf("strict=%v options [%s]: InterceptAll(%q) with the route registered as GET %q (normal form %q): request %q reaches it = %v, expected %v", c.Strict, orderName, c.P, c.P, np, q, got, want))
				}
			}
		}
	case "dotted":
		pt, err := refmodel.CachedPattern(refmodel.Norm(c.P, false))
		if err != nil {
			panic(err)
		}
		var r *rux.Router
		if pv := try(func() { r = rux.New(); r.GET(c.P, h) }); pv != nil {
			add("register:panic", fmt.Sprintf("GET(%q) panicked: %v", c.P, pv))
			return viols
		}
		al := []byte{'/', '.', 'a', 'b', 'x'}
		var rec func(cur []byte)
		rec = func(cur []byte) {
			q := "/" + string(cur)
			st.Evals++
			want := pt.Matches(refmodel.Norm(q, false))
			if want {
				st.Nontrivial++
			}
			var got bool
			if pv := try(func() { m, _, _ := r.Match("GET", q); got = m != nil }); pv != nil {
				add("lookup:panic", fmt.Sprintf("route %q: Match(GET,%q) panicked: %v", c.P, q, pv))
			} else if got != want {
				add(fmt.Sprintf("dotted:reach:want=%v", want), fmt.Sprintf("route %q: request %q reaches it = %v, the pattern (every '.' literal) matches = %v", c.P, q, got, want))
			}
			if len(cur) == c.L+1 {
				return
			}
			for _, ch := range al {
				rec(append(cur, ch))
			}
		}
		rec(nil)
	case "strict-cache":
		defs := []refmodel.RouteDef{{Path: "/u/{id}/", Methods: []string{"GET"}}, {Path: "/u/{id}", Methods: []string{"GET"}}, {Path: "/v/{id}", Methods: []string{"GET"}}, {Path: "/w/{id}/", Methods: []string{"GET"}}}
		tb, err := refmodel.NewTable(defs, refmodel.Opts{Strict: c.Strict})
		if err != nil {
			panic(err)
		}
		alphabet := []string{"/u/1/", "/u/1", "/u/2", "/v/1/", "/v/1", "/w/1", "/w/1/", "/w/1//"}
		var rec func(seq []string)
		rec = func(seq []string) {
			if len(seq) > 0 {
				hr := &hitRec{}
				opts := append(c11Opts(c.Strict), rux.CachingWithNum(uint16(c.L)))
				r, pv := buildRouter(defs, hr, opts...)
				if pv != nil {
					add("register:panic", fmt.Sprintf("strict=%v: registration panicked: %v", c.Strict, pv))
					return
				}
				for i, p := range seq {
					st.Evals++
					want := tb.Resolve("GET", p).Route
					var got int
					if pv := try(func() { rt, _, _ := r.Match("GET", p); got = routeIdx(rt) }); pv != nil {
						add("lookup:panic", fmt.Sprintf("strict=%v cache=%d: history %q: Match(GET,%q) panicked: %v", c.Strict, c.L, seq, p, pv))
						break
					}
					if i == len(seq)-1 {
						st.Nontrivial++
						if got != want {
							add(fmt.Sprintf("strict-cache:route:strict=%v", c.Strict), fmt.Sprintf("StrictLastSlash=%v, route cache of capacity %d, routes [%s]: after the requests %q, GET %q is dispatched to route %d; its normal form %q belongs to route %d", c.Strict, c.L, defsString(defs), seq[:i], p, got, refmodel.Norm(p, c.Strict), want))
						}
					}
				}
			}
			if len(seq) == 3 {
				return
			}
			for _, a := range alphabet {
				rec(append(append([]string(nil), seq...), a))
			}
		}
		rec(nil)
	case "encoded":
		toks := []string{"/", "a", "%2F", "%20", " ", "%2f", "b", "|", "%7C"}
		var opts []func(*rux.Router)
		opts = append(opts, c11Opts(c.Strict)...)
		if c.Enc {
			opts = append(opts, rux.UseEncodedPath)
		}
		r := rux.New(opts...)
		var seen string
		var ran int
		r.GET("/{all}", func(ctx *rux.Context) { seen = ctx.Param("all"); ran++ })
		front := rux.New()
		front.NotFound(func(ctx *rux.Context) { r.HandleContext(ctx) })
		var rec func(cur string, n int)
		rec = func(cur string, n int) {
			if n > 0 {
				raw := "/" + cur
				dec, err := url.PathUnescape(raw)
				if err == nil {
					st.Evals++
					u := &url.URL{Path: dec, RawPath: raw}
					used := dec
					if c.Enc {
						used = u.EscapedPath()
					}
					if used != dec {
						st.Nontrivial++
					}
					want := refmodel.Norm(used, c.Strict)[1:]
					seen, ran = "<none>", 0
					// the URL is the source of truth; RequestURI is what a server saw on the wire and may be stale
					// (http.StripPrefix and friends rewrite the URL only)
					for _, ruri := range []string{"", raw, "/mounted/prefix" + raw, "*"} {
						seen, ran = "<none>", 0
						w := httptest.NewRecorder()
						req := &http.Request{Method: "GET", URL: u, Header: http.Header{}, RequestURI: ruri}
						if pv := try(func() { r.ServeHTTP(w, req) }); pv != nil {
							add("encoded:panic", fmt.Sprintf("strict=%v encoded=%v: raw path %q (RequestURI %q) panicked: %v", c.Strict, c.Enc, raw, ruri, pv))
						} else if ran != 1 || seen != want {
							add(fmt.Sprintf("encoded:path:enc=%v", c.Enc), fmt.Sprintf("strict=%v UseEncodedPath=%v: request URL raw path %q (decoded %q), RequestURI %q: route /{all} matched %q (handler runs %d), expected %q", c.Strict, c.Enc, raw, dec, ruri, seen, ran, want))
						}
						if ruri == "" {
							// the same request arriving through a front router that passes its context on with HandleContext
							seen, ran = "<none>", 0
							req2 := &http.Request{Method: "GET", URL: u, Header: http.Header{}}
							if pv := try(func() { front.ServeHTTP(httptest.NewRecorder(), req2) }); pv != nil {
								add("encoded:panic", fmt.Sprintf("strict=%v encoded=%v: raw path %q re-dispatched with HandleContext panicked: %v", c.Strict, c.Enc, raw, pv))
							} else if ran != 1 || seen != want {
								add(fmt.Sprintf("encoded:redispatch:enc=%v", c.Enc), fmt.Sprintf("strict=%v UseEncodedPath=%v: request URL raw path %q (decoded %q) handed on with HandleContext: route /{all} matched %q (handler runs %d), expected %q as for a direct request", c.Strict, c.Enc, raw, dec, seen, ran, want))
							}
						}
					}
				}
			}
			if n == c.L {
				return
			}
			for _, t := range toks {
				rec(cur+t, n+1)
			}
		}
		rec("", 0)
	}
	return viols
}

var c11Spec = fw.Spec[c11Case]{
	ID:    "C11",
	Level: "model_checking",
	Rule: "complete enumeration: ALL strings of length <=L over {'/',' ','.','a','b',TAB} as registered path P and as request path Q - the full P x Q square in both StrictLastSlash modes (and again for all strings of <=3 characters over {'/','a',space,U+00A0,U+3000,U+0085,U+2003}, and for all strings of <=4 characters with StrictLastSlash applied through WithOptions after New(), with the route registered through AddNamed in both modes, and, without StrictLastSlash, with the Route value attached to a StrictLastSlash router first; and, for strings of <=3 characters, with every 'a' of P turned into a variable and the route registered on a caching router only after every Q was asked and missed) (one evaluation = one GET and one HEAD lookup of Q on a router holding GET P; reach <=> Norm(Q)==Norm(P)); " +
		"all G x P x Q over strings of length <=3 for group prefixes and all nested G1 x G2 x P over strings of length <=2; all raw paths of <=4 tokens over {/,a,b,%2F,%2f,%20,space,|,%7C}, each with four RequestURI values (absent, equal, stale prefix, *) under both UseEncodedPath settings (directly and handed on by a front router with HandleContext); 8 dynamic routes with dots in their literal text against all request strings of <=6 characters over {/,.,a,b,x} (and 5 routes with dots in a literal head of two or three path nodes against all strings of <=8 / 9 characters); all request histories of <=3 over 8 paths with and without trailing slashes on caching routers (capacity 1, 2, 8) in both StrictLastSlash modes; static, multi-segment and dynamic routes of every length 1..300 bytes under three methods with nine request variations each; InterceptAll(p) with the route registered as p for all strings p of length <=3, in every option order, against all requests of length <=2; non-trivial = a (P,Q) pair that must reach the route / an escaped path that differs from the decoded one",
	Assume: []string{"alphabet of 6 characters; L=5 quick, 6 thorough", "net/url's EscapedPath is taken as the definition of 'the escaped path'"},
	Bounds: func(tier string) map[string]any {
		L := 5
		if tier == "thorough" {
			L = 6
		}
		return map[string]any{"L": L, "strings": len(c11Get(L).strs), "group_strings": len(c11Get(3).strs), "modes": 2}
	},
	Gen:   c11Gen,
	Run:   c11Run,
	Batch: 8,
}
