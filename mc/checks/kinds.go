package checks

import (
	"bufio"
	"errors"
	"fmt"
	"io"
	"net"
	"net/http"
	"net/http/httptest"
	"sort"
	"strings"

	"github.com/gookit/rux"
)

// Request kinds shared by C10 (pristine context) and C09 (follow-up requests):
// one router with a route per kind of context mutation a handler can perform.
// A probe installed as the first global middleware snapshots the context at
// entry of every request.

var kindNames = []string{"store", "errors", "abort", "status-write", "replace-resp", "replace-req", "set-handlers", "dynamic", "dynamic2", "notfound", "notallowed", "panic", "redispatch", "nested", "copy", "mutate-params", "dynamic3", "delegate", "hijack", "mutate-novar", "novar", "keep-copy", "panic-status", "mutate-query", "query", "render-fail", "render-ok", "hijack2", "notallowed3", "flush", "mutate-static", "static", "json", "mounted-201", "mounted-404", "build-url", "jsonp-fail"}

type kindReq struct {
	method, path string
}

var kindReqs = map[string]kindReq{
	"store":        {"GET", "/store"},
	"errors":       {"GET", "/errors"},
	"abort":        {"GET", "/abort"},
	"status-write": {"GET", "/status"},
	"replace-resp": {"GET", "/wrap"},
	"replace-req":  {"GET", "/req"},
	"set-handlers": {"GET", "/seth"},
	"dynamic":      {"GET", "/d/7"},
	"dynamic2":     {"GET", "/d/8/x"},
	"notfound":     {"GET", "/nope"},
	"notallowed":   {"DELETE", "/store"},
	"panic":        {"GET", "/boom"},
	"redispatch":   {"GET", "/redir"},
	"nested":       {"GET", "/nested"},
	"copy":         {"GET", "/copy"},
	// a handler that edits its parameter map in place, and a plain request for the same URL
	"mutate-params": {"POST", "/m/9"},
	"dynamic3":      {"GET", "/m/9"},
	// a handler that hands its context to ANOTHER router's HandleContext
	"delegate": {"GET", "/deleg"},
	// a handler that hijacks the connection; a handler editing the (empty) params of an optional route without
	// variables, and a plain request for it; a handler that keeps a Copy() of its context beyond the request
	"hijack":       {"GET", "/hj"},
	"mutate-novar": {"POST", "/mo.html"},
	"novar":        {"GET", "/mo.html"},
	"keep-copy":    {"GET", "/keep/5"},
	// a handler that records a status without committing it and panics; a handler that edits the url.Values it got from
	// QueryValues (strip a parameter, add one), and a plain request with the byte-identical query string
	"panic-status": {"GET", "/boomst"},
	"mutate-query": {"GET", "/mq?token=abc&x=1"},
	"query":        {"GET", "/q?token=abc&x=1"},
	// a view that fails after it produced part of its output, and a view that renders fine; a second hijacking route
	"render-fail": {"GET", "/view/bad"},
	"render-ok":   {"GET", "/view/good"},
	"hijack2":     {"GET", "/hj2"},
	// a path with exactly three allowed methods, asked with a fourth
	"notallowed3": {"DELETE", "/tri"},
	// a streaming handler: writes, flushes, writes again
	"flush": {"GET", "/fl"},
	// a handler of a route WITHOUT variables that adds an entry to its parameter map (creating the map when it has
	// none), and a plain request for the same route
	"mutate-static": {"POST", "/ms"},
	"static":        {"GET", "/ms"},
	// a handler that answers through the JSON helper (pkg/render)
	"json": {"GET", "/json"},
	// a second rux router mounted in a handler through the net/http adapter (it is handed this request's writer):
	// one of its routes answers 201, an unknown path gets its 404
	"mounted-201": {"GET", "/mnt/a"},
	"mounted-404": {"GET", "/mnt/zz"},
	// a handler that builds the URL of a named route without arguments, shows it, and then decorates the URL value it got
	"build-url": {"GET", "/bu"},
	// a JSONP response whose value cannot be encoded (the "json" kind answers with JSONP as well)
	"jsonp-fail": {"GET", "/jsonp-bad"},
}

// kindParams: the parameters a request for the path must find in its context at entry (the variables of its route)
var kindParams = map[string]string{"/mnt/a": "x=a", "/mnt/zz": "x=zz", "/d/7": "id=7", "/d/8/x": "id=8,sub=x", "/d/55": "id=55", "/m/9": "id=9", "/keep/5": "id=5", "/view/bad": "name=bad", "/view/good": "name=good"}

// kindRenderer is the router's view renderer: it writes a heading, then fails for the view named "bad"
type kindRenderer struct{}

func (kindRenderer) Render(w io.Writer, name string, data any, c *rux.Context) error {
	_, _ = io.WriteString(w, "<h1>"+name+"</h1>")
	if name == "bad" {
		return errors.New("view failed half way")
	}
	_, _ = io.WriteString(w, fmt.Sprintf("<p>%v</p>", data))
	return nil
}

type wrapW struct{ http.ResponseWriter }

// hjRec is a response recorder that can also be hijacked (like a real connection)
type hjRec struct {
	*httptest.ResponseRecorder
	hijacked int
}

func (h *hjRec) Hijack() (net.Conn, *bufio.ReadWriter, error) {
	h.hijacked++
	a, b := net.Pipe()
	_ = b.Close()
	return a, nil, nil
}

type kindRouter struct {
	other    *rux.Router
	r        *rux.Router
	snap     string // probe snapshot of the request being served (outermost)
	snaps    []string
	ctxPtrs  []*rux.Context
	curRec   *hjRec
	kept     *rux.Context // a copy of a context a handler kept beyond its request
	keptWant string
	curReq   *http.Request
	depth    int
	hookRuns int
	innerObs string
}

type kindCfg struct {
	Hook    bool // install OnPanic
	OnError bool // install OnError
	Cache   bool
	// CacheCap: capacity of the route cache when Cache is set (0 = 2)
	CacheCap int
	// NoGlobal: the router has no global middleware; the probe is the first middleware of every route and the first
	// of custom NotFound / NotAllowed chains (so the context's chain buffer is the router's own slice on 404 / 405)
	NoGlobal bool
	// MutNA: a custom NotAllowed handler that edits the allowed-methods slice it was given (adds OPTIONS, sorts it)
	MutNA bool
}

func newKindRouter(cfg kindCfg) *kindRouter {
	k := &kindRouter{}
	opts := []func(*rux.Router){rux.HandleMethodNotAllowed}
	if cfg.Cache {
		n := cfg.CacheCap
		if n == 0 {
			n = 2
		}
		opts = append(opts, rux.CachingWithNum(uint16(n)))
	}
	r := rux.New(opts...)
	k.r = r
	if cfg.Hook {
		r.OnPanic = func(c *rux.Context) {
			k.hookRuns++
			c.SetStatus(500)
			c.WriteString(fmt.Sprintf("recovered:%v", c.SafeGet(rux.CTXRecoverResult)))
		}
	}
	if cfg.OnError {
		r.OnError = func(c *rux.Context) { c.SetHeader("X-Errors", fmt.Sprint(len(c.Errors))) }
	}
	// the probe: first global middleware (or, with NoGlobal, first middleware of every chain)
	probe := func(c *rux.Context) {
		s := k.probe(c)
		k.snaps = append(k.snaps, s)
		k.ctxPtrs = append(k.ctxPtrs, c)
	}
	if cfg.NoGlobal {
		r.NotFound(probe, func(c *rux.Context) { c.Text(404, "custom-404") })
		r.NotAllowed(probe, func(c *rux.Context) { c.Text(405, "custom-405") })
	} else {
		r.Use(probe)
	}
	// route registration: with NoGlobal the probe is the first middleware of the route itself
	get := func(path string, main rux.HandlerFunc, mws ...rux.HandlerFunc) {
		if cfg.NoGlobal {
			mws = append([]rux.HandlerFunc{probe}, mws...)
		}
		r.GET(path, main, mws...)
	}
	if cfg.MutNA {
		r.NotAllowed(func(c *rux.Context) {
			al, _ := c.SafeGet(rux.CTXAllowedMethods).([]string)
			al = append(al, "OPTIONS")
			sort.Strings(al)
			c.SetHeader("Allow", strings.Join(al, ", "))
			c.Text(405, "not allowed; try "+strings.Join(al, ","))
		})
	}
	r.Add("/tri", func(c *rux.Context) { c.WriteString("tri") }, "GET", "POST", "PUT")
	// a second router a handler may delegate to
	k.other = rux.New()
	k.other.GET("/deleg", func(c *rux.Context) { c.WriteString("other-router:" + fmt.Sprint(c.Router() == k.other)) })
	get("/deleg", func(c *rux.Context) {
		c.Set("delegated", 1)
		k.other.HandleContext(c)
	})
	get("/store", func(c *rux.Context) {
		c.Set("k", "v")
		c.Set("k2", 7)
		c.WriteString("stored")
	})
	get("/errors", func(c *rux.Context) {
		c.AddError(errors.New("e1"))
		c.AddError(errors.New("e2"))
		c.WriteString("errors")
	})
	get("/abort", func(c *rux.Context) { c.WriteString("never") }, func(c *rux.Context) { c.AbortWithStatus(403) })
	get("/status", func(c *rux.Context) {
		// (an entry written through the map Data() hands out, without a Set call of its own)
		if d := c.Data(); d != nil {
			d["written-through-Data()"] = "1"
		}
		c.SetStatus(201)
		c.WriteString("created")
	})
	get("/wrap", func(c *rux.Context) {
		c.Resp = &wrapW{c.Resp}
		c.WriteString("wrapped")
	})
	get("/req", func(c *rux.Context) {
		c.WithReqCtxValue("rk", "rv")
		c.WriteString(fmt.Sprint(c.ReqCtxValue("rk")))
	})
	get("/seth", func(c *rux.Context) {
		c.SetHandlers(rux.HandlersChain{func(*rux.Context) {}})
		c.WriteString("seth")
	})
	get("/d/{id}", func(c *rux.Context) { c.WriteString("d:" + c.Param("id")) })
	get("/d/{id}/{sub}", func(c *rux.Context) { c.WriteString("d2:" + c.Param("id") + ":" + c.Param("sub")) })
	get("/boom", func(c *rux.Context) {
		c.Set("before", "panic")
		c.AddError(errors.New("pre-panic"))
		panic("boom")
	})
	get("/redir", func(c *rux.Context) {
		c.Set("from", "redir")
		c.Req.URL.Path = "/store"
		c.Router().HandleContext(c)
	})
	get("/nested", func(c *rux.Context) {
		// a sub-request on the same router while this request is in flight
		c.Set("outer", "1")
		rec := httptest.NewRecorder()
		k.depth++
		c.Router().ServeHTTP(rec, httptest.NewRequest("GET", "/d/55", nil))
		k.depth--
		k.innerObs = fmt.Sprintf("%d:%s", rec.Code, rec.Body.String())
		c.WriteString("outer-after-inner:" + k.innerObs + ":" + fmt.Sprint(c.SafeGet("outer")))
	})
	mm := func(c *rux.Context) {
		seen := c.Param("id") + "/" + c.Param("extra")
		if c.Req.Method == "POST" {
			c.Params["id"] = "evil"
			c.Params["extra"] = "added"
		}
		c.WriteString("m:" + seen)
	}
	if cfg.NoGlobal {
		r.Add("/m/{id}", mm, "GET", "POST").Use(probe)
	} else {
		r.Add("/m/{id}", mm, "GET", "POST")
	}
	get("/hj", func(c *rux.Context) {
		conn, _, err := c.Resp.(http.Hijacker).Hijack()
		if err == nil && conn != nil {
			_ = conn.Close()
		}
	})
	mo := func(c *rux.Context) {
		seen := fmt.Sprint(len(c.Params)) + c.Param("x")
		if c.Req.Method == "POST" && c.Params != nil {
			c.Params["x"] = "evil"
		}
		c.WriteString("mo:" + seen)
	}
	if cfg.NoGlobal {
		r.Add("/mo[.html]", mo, "GET", "POST").Use(probe)
	} else {
		r.Add("/mo[.html]", mo, "GET", "POST")
	}
	get("/keep/{id}", func(c *rux.Context) {
		c.Set("user", "u"+c.Param("id"))
		k.kept = c.Copy()
		k.keptWant = k.describeKept()
		c.WriteString("kept")
	})
	get("/boomst", func(c *rux.Context) {
		c.SetStatus(403)
		c.SetHeader("X-Boom", "1")
		panic("boom after SetStatus")
	})
	get("/mq", func(c *rux.Context) {
		q := c.QueryValues()
		q.Del("token")
		q.Set("seen", "1")
		c.WriteString("mq:" + q.Encode())
	})
	get("/q", func(c *rux.Context) {
		c.WriteString(fmt.Sprintf("q:%s token=%s seen=%s", c.QueryValues().Encode(), c.Query("token"), c.Query("seen", "-")))
	})
	get("/fl", func(c *rux.Context) {
		c.WriteString("part1;")
		c.Resp.(http.Flusher).Flush()
		c.WriteString("part2")
	})
	r.Renderer = kindRenderer{}
	get("/view/{name}", func(c *rux.Context) {
		if err := c.Render(200, c.Param("name"), c.Param("name")+"-data"); err != nil {
			c.Text(500, "render error: "+err.Error())
		}
	})
	get("/hj2", func(c *rux.Context) {
		c.SetStatus(202)
		conn, _, err := c.Resp.(http.Hijacker).Hijack()
		if err == nil && conn != nil {
			_ = conn.Close()
		}
	})
	ms := func(c *rux.Context) {
		seen := fmt.Sprint(len(c.Params)) + c.Param("tenant")
		if c.Req.Method == "POST" {
			if c.Params == nil {
				c.Params = rux.Params{}
			}
			c.Params["tenant"] = "acme"
		}
		c.WriteString("ms:" + seen)
	}
	if cfg.NoGlobal {
		r.Add("/ms", ms, "GET", "POST").Use(probe)
	} else {
		r.Add("/ms", ms, "GET", "POST")
	}
	inner := rux.New()
	inner.GET("/mnt/a", func(c *rux.Context) { c.Text(201, "inner-created") })
	get("/mnt/{x}", func(c *rux.Context) { rux.WrapH(inner)(c) })
	r.AddNamed("home", "/home/page", func(c *rux.Context) { c.WriteString("home") }, "GET")
	get("/bu", func(c *rux.Context) {
		u := c.Router().BuildURL("home")
		c.WriteString("bu:" + u.String())
		u.RawQuery, u.Fragment, u.Host = "page=2", "top", "decorated.example"
	})
	get("/json", func(c *rux.Context) { c.JSONP(200, "cbOk", rux.M{"a": 1, "list": []int{1, 2}}) })
	get("/jsonp-bad", func(c *rux.Context) { c.JSONP(200, "cbBad", make(chan int)) })
	get("/copy", func(c *rux.Context) {
		cp := c.Copy()
		cp.Set("in-copy", 1)
		c.WriteString(fmt.Sprintf("copy-aborted=%v orig-has=%v", cp.IsAborted(), c.SafeGet("in-copy") != nil))
	})
	return k
}

// describeKept renders what the holder of a kept context copy can read from it
func (k *kindRouter) describeKept() string {
	c := k.kept
	return fmt.Sprintf("user=%v route-path=%v params{%s}", c.SafeGet("user"), c.SafeGet(rux.CTXCurrentRoutePath), canonParams(c.Params))
}

// probe renders everything a handler can observe of the context at entry
func (k *kindRouter) probe(c *rux.Context) string {
	var sb strings.Builder
	if k.kept != nil && k.depth == 0 {
		// a copy taken by an earlier request must still read what it read when it was taken
		if now := k.describeKept(); now != k.keptWant {
			fmt.Fprintf(&sb, "KEPT-COPY-CHANGED{was %s; now %s} ", k.keptWant, now)
		}
	}
	if got, want := canonParams(c.Params), kindParams[c.Req.URL.Path]; got != want {
		// (holds on every router of the process, so the twin cannot vouch for it: an absolute expectation)
		fmt.Fprintf(&sb, "PARAMS-NOT-FROM-ROUTE{path %s: has %q at entry, its route yields %q} ", c.Req.URL.Path, got, want)
	}
	data := c.Data()
	keys := make([]string, 0, len(data))
	for key := range data {
		keys = append(keys, key)
	}
	sort.Strings(keys)
	sb.WriteString("data{")
	for _, key := range keys {
		v := data[key]
		if ss, ok := v.([]string); ok {
			// (the allowed-methods list comes out of a map: its order is not an observation)
			cp := append([]string(nil), ss...)
			sort.Strings(cp)
			v = cp
		}
		fmt.Fprintf(&sb, "%s=%v;", key, v)
	}
	fmt.Fprintf(&sb, "} query{%s} params{%s} errors=%d first=%v aborted=%v status=%d length=%d chain=%d", c.QueryValues().Encode(), canonParams(c.Params), len(c.Errors), c.FirstError(), c.IsAborted(), c.StatusCode(), c.Length(), c.VerifChainLen())
	if k.depth == 0 {
		_, ownWriter := c.Resp.(*wrapW)
		fmt.Fprintf(&sb, " resp-replaced=%v raw-writer-is-this-recorder=%v req-is-this-request=%v reqctx=%v router-is-this-router=%v", ownWriter, c.RawWriter() == http.ResponseWriter(k.curRec), c.Req == k.curReq, c.ReqCtxValue("rk"), c.Router() == k.r)
	}
	return sb.String()
}

type kindObs struct {
	snap   string // probe snapshots of this request (outer and nested)
	resp   string
	pv     any
	reused bool
}

func (o kindObs) String() string {
	return fmt.Sprintf("probe[%s] response[%s] panic[%v]", o.snap, o.resp, o.pv)
}

// do serves one request of the given kind and returns what was observed
func (k *kindRouter) do(kind string, seenCtx map[*rux.Context]bool) kindObs {
	q := kindReqs[kind]
	return k.doReq(q.method, q.path, seenCtx)
}

func (k *kindRouter) doReq(method, path string, seenCtx map[*rux.Context]bool) kindObs {
	rec := &hjRec{ResponseRecorder: httptest.NewRecorder()}
	req := httptest.NewRequest(method, path, nil)
	k.curRec, k.curReq = rec, req
	k.snaps, k.ctxPtrs = nil, nil
	k.depth = 0
	var o kindObs
	o.pv = try(func() { k.r.ServeHTTP(rec, req) })
	o.snap = strings.Join(k.snaps, " || ")
	hdr := []string{}
	for _, h := range []string{"Allow", "X-Errors", "Location"} {
		if v := rec.Header().Get(h); v != "" {
			hdr = append(hdr, h+"="+v)
		}
	}
	o.resp = fmt.Sprintf("%d %q %v flushed=%v", rec.Code, rec.Body.String(), hdr, rec.Flushed)
	for _, p := range k.ctxPtrs {
		if seenCtx != nil {
			if seenCtx[p] {
				o.reused = true
			}
			seenCtx[p] = true
		}
	}
	return o
}
