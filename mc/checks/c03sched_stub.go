//go:build !vrt

package checks

import "verif/mc/fw"

type schedCfg struct{}

func c03Bounds(tier string) map[string]any {
	return map[string]any{"note": "scheduler not compiled in (plain build)"}
}

func c03GenSched(tier string, emit func(c03Case)) {}

func c03RunSched(c c03Case, st *fw.Stats) []fw.Viol { return nil }
