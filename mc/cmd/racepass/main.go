// racepass: the free-running pass of C03. The same harness bodies as the
// controlled-scheduler exploration, run on real goroutines with the real sync
// package under Go's race detector (build with -race). It reports responses
// that differ from the solo observation; race reports go to stderr.
package main

import (
	"encoding/json"
	"flag"
	"fmt"
	"os"
	"runtime"
	"sync"
	"sync/atomic"
	"time"

	"verif/mc/c03scen"
)

type result struct {
	Shapes     int      `json:"shapes"`
	Goroutines int      `json:"goroutines"`
	Iterations int      `json:"iterations_per_goroutine"`
	Requests   int64    `json:"requests"`
	Mismatches int64    `json:"mismatches"`
	First      []string `json:"first_mismatches,omitempty"`
}

func main() {
	thorough := flag.Bool("thorough", false, "")
	iters := flag.Int("iters", 300, "")
	g := flag.Int("goroutines", 8, "")
	only := flag.Int("shape", -1, "")
	flag.Parse()
	shapes := c03scen.Shapes(*thorough)
	res := result{Goroutines: *g, Iterations: *iters}
	// progress watchdog: requests take microseconds; when not a single request completes for two minutes although
	// goroutines are still at work, the pass is stuck (a deadlock among the requests): report it instead of hanging
	var served atomic.Int64
	var curShape atomic.Value
	curShape.Store("")
	go func() {
		last, idle := int64(-1), 0
		for {
			time.Sleep(10 * time.Second)
			if n := served.Load(); n != last {
				last, idle = n, 0
				continue
			}
			idle++
			if idle >= 12 {
				buf := make([]byte, 1<<16)
				buf = buf[:runtime.Stack(buf, true)]
				fmt.Fprintf(os.Stderr, "NO-PROGRESS: no request completed for 120 s after %d requests on shape{%s}\n%s\n", last, curShape.Load(), buf)
				fmt.Printf("{\"stuck\":true,\"requests\":%d,\"shape\":%q}\n", last, curShape.Load())
				os.Exit(4)
			}
		}
	}()
	var mu sync.Mutex
	for si, sh := range shapes {
		if *only >= 0 && si != *only {
			continue
		}
		res.Shapes++
		curShape.Store(sh.String())
		// solo expectations: each kind alone on a fresh identical router
		exp := make([]string, len(c03scen.Kinds))
		for i, q := range c03scen.Kinds {
			exp[i] = c03scen.Serve(c03scen.Build(sh), q)
		}
		// rounds: a FRESH router per round (first-use effects - lazy initialisation, memoised results, an empty cache -
		// get one chance per round, not one per shape), all goroutines released together; in even rounds they all start
		// with the same request kind (the round number picks it), in odd rounds each starts at its own offset
		// (at least 10 passes over the kinds per goroutine and round: with 8 goroutines every route of a round's router
		// is requested 80 times, which is beyond small hit-count thresholds)
		rounds := 30
		if *iters < 300 {
			rounds = *iters / 10
			if rounds < 1 {
				rounds = 1
			}
		}
		per := *iters / rounds
		if per < 1 {
			per = 1
		}
		for round := 0; round < rounds; round++ {
			r := c03scen.Build(sh)
			var wg sync.WaitGroup
			start := make(chan struct{})
			for t := 0; t < *g; t++ {
				wg.Add(1)
				go func(t int) {
					defer wg.Done()
					var n, bad int64
					var first []string
					off := t
					if round%2 == 0 {
						off = round / 2
					}
					<-start
					for it := 0; it < per; it++ {
						for k := range c03scen.Kinds {
							i := (k + off) % len(c03scen.Kinds)
							got := c03scen.Serve(r, c03scen.Kinds[i])
							served.Add(1)
							n++
							if got != exp[i] {
								bad++
								if len(first) < 2 {
									first = append(first, fmt.Sprintf("shape{%s} %s: observed %s, alone it observes %s", sh, c03scen.Kinds[i], got, exp[i]))
								}
							}
						}
					}
					mu.Lock()
					res.Requests += n
					res.Mismatches += bad
					if len(res.First) < 4 {
						res.First = append(res.First, first...)
					}
					mu.Unlock()
				}(t)
			}
			close(start)
			wg.Wait()
		}
	}
	b, _ := json.Marshal(res)
	fmt.Println(string(b))
	if res.Mismatches > 0 {
		os.Exit(3)
	}
}
