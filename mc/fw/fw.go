// Package fw is the small bounded-exhaustive exploration driver shared by all
// checks: a deterministic enumerator produces cases, a pool of workers runs
// every case against the real code and its reference model, violations become
// replay files that are re-executed twice before they are believed, and the
// run writes its own evidence file.
package fw

import (
	"bufio"
	"crypto/sha1"
	"encoding/hex"
	"encoding/json"
	"flag"
	"fmt"
	"os"
	"path/filepath"
	"runtime"
	"runtime/debug"
	"sort"
	"strconv"
	"strings"
	"sync"
	"sync/atomic"
	"time"
)

// Viol is one violation of the property found while running a case.
type Viol struct {
	Sig string `json:"sig"` // precise signature (rule over the failing input) used for known-findings
	Msg string `json:"msg"` // human readable: input, expected, observed
}

// Stats are the counters a worker accumulates; merged at the end of the run.
type Stats struct {
	Cases       int64
	Evals       int64
	Nontrivial  int64
	States      int64
	Transitions int64
	C           map[string]int64 // named counters (vacuity guards, bounds reached)
	Outcomes    map[string]int64 // distinct observed outcomes (small cardinality)
	Caps        map[string]bool  // caps hit => not exhaustive
	M           map[string]int64 // named maxima (depth reached, bound completed)
	Samples     []any            // a few written-out traces / inputs of this run
	deadline    time.Time
}

// Expired tells a long-running case (a state-graph search) that the wall-clock budget of the run is used up; the
// case should stop, record a cap and return what it has.
func (s *Stats) Expired() bool { return !s.deadline.IsZero() && time.Now().After(s.deadline) }

// Sample keeps a written-out trace of this run for the evidence file (a few per worker).
func (s *Stats) Sample(v any) {
	if len(s.Samples) < 3 {
		s.Samples = append(s.Samples, v)
	}
}

// WantSample tells whether another sample would still be kept.
func (s *Stats) WantSample() bool { return len(s.Samples) < 3 }

func newStats() *Stats {
	return &Stats{M: map[string]int64{}, C: map[string]int64{}, Outcomes: map[string]int64{}, Caps: map[string]bool{}}
}

// Inc adds to a named counter.
func (s *Stats) Inc(name string, n int64) { s.C[name] += n }

// Max raises a named maximum.
func (s *Stats) Max(name string, v int64) {
	if v > s.M[name] {
		s.M[name] = v
	}
}

// Outcome records one observed outcome class.
func (s *Stats) Outcome(name string) { s.Outcomes[name]++ }

// Cap records that a cap was hit (the run is then not exhaustive).
func (s *Stats) Cap(name string) { s.Caps[name] = true }

func (s *Stats) merge(o *Stats) {
	s.Cases += o.Cases
	s.Evals += o.Evals
	s.Nontrivial += o.Nontrivial
	s.States += o.States
	s.Transitions += o.Transitions
	for k, v := range o.C {
		s.C[k] += v
	}
	for k, v := range o.Outcomes {
		s.Outcomes[k] += v
	}
	for k, v := range o.M {
		s.Max(k, v)
	}
	for k, v := range o.Caps {
		if v {
			s.Caps[k] = true
		}
	}
	if len(s.Samples) < 12 {
		s.Samples = append(s.Samples, o.Samples...)
	}
}

// Spec describes one check.
type Spec[C any] struct {
	ID        string
	Level     string // evidence level (model_checking)
	Rule      string // how cases are enumerated and what makes one non-trivial
	Assume    []string
	Bounds    func(tier string) map[string]any      // stated bounds, copied into the evidence
	Gen       func(tier string, emit func(C))       // deterministic, complete enumeration of the bounded space
	Run       func(c C, st *Stats) []Viol           // run one case on the real code against the oracle
	Guard     func(tier string, st *Stats) []string // vacuity guards: reasons why the run is not a pass of substance
	BudgetSec func(tier string) int
	Batch     int
	Workers   int // >0: fixed worker count (1 for checks that touch process-global state of rux)
	// ReplayAttempts > 1: a confirmation replay may be repeated that many times before the violation counts as
	// not reproducible. Only for checks whose nondeterminism lives in the code under test and is documented (C16:
	// Go map iteration order inside Resource).
	ReplayAttempts int
	// StateGraph is true when States/Transitions are real state-graph counts.
	StateGraph bool
}

type known struct {
	kind, prop, sig, text string
}

func verifDir() string {
	if d := os.Getenv("VERIF_DIR"); d != "" {
		return d
	}
	return "/verif"
}

func outDir() string {
	if d := os.Getenv("VERIF_OUT"); d != "" {
		return d
	}
	return verifDir()
}

func loadKnown(id string) []known {
	f, err := os.Open(filepath.Join(verifDir(), "KNOWN_FINDINGS.txt"))
	if err != nil {
		return nil
	}
	defer f.Close()
	var out []known
	sc := bufio.NewScanner(f)
	for sc.Scan() {
		line := strings.TrimSpace(sc.Text())
		if line == "" || strings.HasPrefix(line, "#") {
			continue
		}
		var k known
		switch {
		case strings.HasPrefix(line, "known:"):
			k.kind = "known"
			line = strings.TrimSpace(line[len("known:"):])
		case strings.HasPrefix(line, "fixed:"):
			k.kind = "fixed"
			line = strings.TrimSpace(line[len("fixed:"):])
		default:
			continue
		}
		fields := strings.Fields(line)
		rest := []string{}
		for _, fld := range fields {
			switch {
			case strings.HasPrefix(fld, "property=") && k.prop == "":
				k.prop = fld[len("property="):]
			case strings.HasPrefix(fld, "sig=") && k.sig == "":
				k.sig = fld[len("sig="):]
			default:
				rest = append(rest, fld)
			}
		}
		k.text = strings.Join(rest, " ")
		if k.prop == id {
			out = append(out, k)
		}
	}
	return out
}

func knownSig(ks []known, sig string) *known {
	for i := range ks {
		if ks[i].kind == "known" && ks[i].sig == sig {
			return &ks[i]
		}
	}
	return nil
}

type replayFile struct {
	Property string          `json:"property"`
	Tier     string          `json:"tier"`
	Sig      string          `json:"sig"`
	Msg      string          `json:"msg"`
	Case     json.RawMessage `json:"case"`
}

type found struct {
	v    Viol
	c    json.RawMessage
	n    int64
	path string
}

// Main runs the spec: `<tier>` or `--replay <file>`.
func Main[C any](s Spec[C], args []string) int {
	fs := flag.NewFlagSet(s.ID, flag.ContinueOnError)
	replay := fs.String("replay", "", "replay a violation file")
	workers := fs.Int("workers", 0, "worker count")
	budget := fs.Int("budget", 0, "wall clock budget in seconds (0 = default for the tier)")
	tier := "quick"
	rest := args
	if len(rest) > 0 && !strings.HasPrefix(rest[0], "-") {
		tier = rest[0]
		rest = rest[1:]
	}
	if err := fs.Parse(rest); err != nil {
		return 2
	}
	if tier != "quick" && tier != "thorough" {
		fmt.Fprintf(os.Stderr, "unknown tier %q\n", tier)
		return 2
	}
	if *replay != "" {
		return doReplay(s, *replay)
	}
	if os.Getenv("VERIF_COUNT_ONLY") != "" {
		// sizing aid: how many cases the generator emits for the tier (nothing is run, no evidence is written)
		n := 0
		s.Gen(tier, func(C) { n++ })
		fmt.Printf("%s %s: generator emits %d cases\n", s.ID, tier, n)
		return 0
	}
	seed, _ := strconv.ParseInt(os.Getenv("VERIF_SEED"), 10, 64)
	nw := *workers
	if v, err := strconv.Atoi(os.Getenv("VERIF_WORKERS")); err == nil && v > 0 {
		// (set by bin/check for its single-worker re-run after the process died inside rux, see run_check)
		nw = v
	} else if s.Workers > 0 {
		nw = s.Workers
	}
	if nw <= 0 {
		nw = runtime.NumCPU()
		if nw > 16 {
			nw = 16
		}
	}
	bsec := *budget
	if bsec == 0 && s.BudgetSec != nil {
		bsec = s.BudgetSec(tier)
	}
	if bsec == 0 {
		if tier == "quick" {
			bsec = 120
		} else {
			bsec = 1500
		}
	}
	start := time.Now()
	deadline := start.Add(time.Duration(bsec) * time.Second)
	ks := loadKnown(s.ID)

	batch := s.Batch
	if batch <= 0 {
		batch = 16
	}
	ch := make(chan []C, nw*4)
	var stop atomic.Bool
	var timedOut atomic.Bool
	var produced int64
	go func() {
		defer close(ch)
		defer func() {
			if r := recover(); r != nil {
				if _, ok := r.(stopGen); ok {
					return
				}
				panic(r)
			}
		}()
		cur := make([]C, 0, batch)
		s.Gen(tier, func(c C) {
			if stop.Load() {
				panic(stopGen{})
			}
			produced++
			cur = append(cur, c)
			if len(cur) == batch {
				if time.Now().After(deadline) {
					timedOut.Store(true)
					stop.Store(true)
				}
				ch <- cur
				cur = make([]C, 0, batch)
			}
		})
		if len(cur) > 0 {
			ch <- cur
		}
	}()

	var mu sync.Mutex
	total := newStats()
	bySig := map[string]*found{}
	var sigOrder []string
	var unknownViol int64
	maxViol := int64(50)
	if v, err := strconv.ParseInt(os.Getenv("VERIF_MAXVIOL"), 10, 64); err == nil && v > 0 {
		maxViol = v
	}
	var samples []json.RawMessage
	internalErr := ""
	var wg sync.WaitGroup
	for w := 0; w < nw; w++ {
		wg.Add(1)
		go func(w int) {
			defer wg.Done()
			st := newStats()
			st.deadline = deadline.Add(30 * time.Second)
			defer func() {
				mu.Lock()
				total.merge(st)
				mu.Unlock()
			}()
			for b := range ch {
				for _, c := range b {
					if stop.Load() && timedOut.Load() {
						continue
					}
					var vs []Viol
					func() {
						defer func() {
							if r := recover(); r != nil {
								mu.Lock()
								if internalErr == "" {
									cj, _ := json.Marshal(c)
									internalErr = fmt.Sprintf("harness panic: %v\ncase: %s\n%s", r, cj, debug.Stack())
								}
								mu.Unlock()
								stop.Store(true)
							}
						}()
						vs = s.Run(c, st)
					}()
					st.Cases++
					needSample := false
					if st.Cases <= 2 || (st.Cases&(st.Cases-1)) == 0 {
						needSample = true
					}
					if len(vs) == 0 && !needSample {
						continue
					}
					cj, _ := json.Marshal(c)
					mu.Lock()
					if needSample && len(samples) < 400 {
						samples = append(samples, cj)
					}
					for _, v := range vs {
						f := bySig[v.Sig]
						if f == nil {
							if len(bySig) < 200 {
								bySig[v.Sig] = &found{v: v, c: cj, n: 1}
								sigOrder = append(sigOrder, v.Sig)
							}
						} else {
							f.n++
						}
						if knownSig(ks, v.Sig) == nil {
							unknownViol++
						}
					}
					if unknownViol >= maxViol {
						stop.Store(true)
					}
					mu.Unlock()
				}
			}
		}(w)
	}
	wg.Wait()
	wall := time.Since(start).Seconds()
	if internalErr != "" {
		fmt.Fprintf(os.Stderr, "INTERNAL-ERROR check=%s: %s\n", s.ID, internalErr)
		return 2
	}

	exhaustive := !timedOut.Load() && !stop.Load()
	var notes []string
	if timedOut.Load() {
		notes = append(notes, fmt.Sprintf("wall-clock budget of %ds reached after %d cases; enumeration order is deterministic, everything before that point was fully checked", bsec, total.Cases))
	}
	for k := range total.Caps {
		exhaustive = false
		notes = append(notes, "cap hit: "+k)
	}
	if s.Guard != nil && len(bySig) == 0 && !timedOut.Load() {
		for _, g := range s.Guard(tier, total) {
			exhaustive = false
			notes = append(notes, "vacuity guard: "+g)
		}
	}

	// confirm every violation by replaying it twice from its file
	exit := 0
	sort.Strings(sigOrder)
	nViol := 0
	unconfirmed := 0
	var knownSeen []string
	for _, sig := range sigOrder {
		f := bySig[sig]
		var c C
		if err := json.Unmarshal(f.c, &c); err != nil {
			fmt.Fprintf(os.Stderr, "INTERNAL-ERROR check=%s: case does not round-trip through JSON: %v\n", s.ID, err)
			return 2
		}
		ok := true
		attempts := s.ReplayAttempts
		if attempts < 1 {
			attempts = 1
		}
		for i := 0; i < 2; i++ {
			has := false
			for a := 0; a < attempts && !has; a++ {
				st := newStats()
				for _, v := range s.Run(c, st) {
					if v.Sig == sig {
						has = true
					}
				}
			}
			if !has {
				ok = false
			}
		}
		if !ok {
			// not believed: reported on stderr, never as a VIOLATION. The run fails with exit 2 only if nothing else was confirmed.
			fmt.Fprintf(os.Stderr, "UNCONFIRMED check=%s: violation sig=%s did not reproduce on replay (nondeterminism); case=%s\n", s.ID, sig, f.c)
			notes = append(notes, "unconfirmed (did not reproduce on replay): "+sig)
			unconfirmed++
			continue
		}
		if k := knownSig(ks, sig); k != nil {
			knownSeen = append(knownSeen, fmt.Sprintf("KNOWN-FINDING: property=%s %s (sig=%s, %d occurrences this run; e.g. %s)", s.ID, k.text, sig, f.n, oneLine(f.v.Msg, 300)))
			continue
		}
		p := writeReplay(s.ID, tier, f)
		nViol++
		fmt.Printf("VIOLATION property=%s replay=%s\n", s.ID, p)
		fmt.Printf("  sig=%s occurrences=%d\n  %s\n", sig, f.n, oneLine(f.v.Msg, 1200))
		exit = 1
	}
	for _, l := range knownSeen {
		fmt.Println(l)
	}
	if exit == 0 && unconfirmed > 0 {
		fmt.Fprintf(os.Stderr, "INTERNAL-ERROR check=%s: %d violation(s) seen but none reproduced on replay\n", s.ID, unconfirmed)
		exit = 2
	}
	if len(bySig) > 0 {
		exhaustive = exhaustive && !stop.Load()
	}

	writeEvidence(s, tier, seed, total, samples, exhaustive, notes, wall, nViol, bsec, nw)
	fmt.Printf("%s %s: cases=%d evaluations=%d nontrivial=%d states=%d transitions=%d exhaustive=%v violations=%d wall=%.1fs\n",
		s.ID, tier, total.Cases, total.Evals, total.Nontrivial, total.States, total.Transitions, exhaustive, nViol, wall)
	for _, n := range notes {
		fmt.Println("  note:", n)
	}
	return exit
}

type stopGen struct{}

func oneLine(s string, max int) string {
	s = strings.ReplaceAll(s, "\n", " | ")
	if len(s) > max {
		s = s[:max] + "…"
	}
	return s
}

func writeReplay(id, tier string, f *found) string {
	dir := filepath.Join(outDir(), "replays")
	_ = os.MkdirAll(dir, 0o755)
	h := sha1.Sum(append([]byte(f.v.Sig+"\x00"), f.c...))
	p := filepath.Join(dir, fmt.Sprintf("%s-%s.json", id, hex.EncodeToString(h[:6])))
	rf := replayFile{Property: id, Tier: tier, Sig: f.v.Sig, Msg: f.v.Msg, Case: f.c}
	b, _ := json.MarshalIndent(rf, "", " ")
	_ = os.WriteFile(p, b, 0o644)
	return p
}

func doReplay[C any](s Spec[C], path string) int {
	b, err := os.ReadFile(path)
	if err != nil {
		fmt.Fprintln(os.Stderr, err)
		return 2
	}
	var rf replayFile
	if err := json.Unmarshal(b, &rf); err != nil {
		fmt.Fprintln(os.Stderr, err)
		return 2
	}
	var c C
	if err := json.Unmarshal(rf.Case, &c); err != nil {
		fmt.Fprintln(os.Stderr, err)
		return 2
	}
	st := newStats()
	vs := s.Run(c, st)
	ks := loadKnown(s.ID)
	exit := 0
	for _, v := range vs {
		if k := knownSig(ks, v.Sig); k != nil {
			fmt.Printf("KNOWN-FINDING: property=%s %s (sig=%s)\n", s.ID, k.text, v.Sig)
			continue
		}
		fmt.Printf("VIOLATION property=%s replay=%s\n  sig=%s\n  %s\n", s.ID, path, v.Sig, v.Msg)
		exit = 1
	}
	if exit == 0 {
		fmt.Printf("replay %s: no violation (%d evaluations)\n", path, st.Evals)
	}
	return exit
}

func writeEvidence[C any](s Spec[C], tier string, seed int64, st *Stats, samples []json.RawMessage, exhaustive bool, notes []string, wall float64, nViol, bsec, nw int) {
	// keep the evidence file readable: the 40 most frequent outcome classes, samples cut to 2 kB each
	outcomes := st.Outcomes
	if len(outcomes) > 40 {
		type kv struct {
			k string
			v int64
		}
		var all []kv
		for k, v := range outcomes {
			all = append(all, kv{k, v})
		}
		sort.Slice(all, func(i, j int) bool { return all[i].v > all[j].v || (all[i].v == all[j].v && all[i].k < all[j].k) })
		outcomes = map[string]int64{}
		for _, e := range all[:40] {
			outcomes[e.k] = e.v
		}
	}
	cov := map[string]any{
		"evaluations":         st.Evals,
		"cases":               st.Cases,
		"distinct_nontrivial": st.Nontrivial,
		"rule":                s.Rule,
		"exhaustive":          exhaustive,
		"counters":            st.C,
		"maxima":              st.M,
		"distinct_outcomes":   len(st.Outcomes),
		"outcomes":            outcomes,
		"budget_s":            bsec,
		"workers":             nw,
	}
	if s.Bounds != nil {
		cov["bounds"] = s.Bounds(tier)
	}
	if len(notes) > 0 {
		cov["notes"] = notes
	}
	if s.StateGraph || st.States > 0 {
		cov["states"] = st.States
		cov["transitions"] = st.Transitions
		// every explored transition is executed on the implementation itself
		cov["traces_validated_against_impl"] = st.Transitions
	}
	// a handful of samples, spread over the run
	var ss []json.RawMessage
	step := 1
	if len(samples) > 8 {
		step = len(samples) / 8
	}
	off := 0
	if step > 1 && seed > 0 {
		off = int(seed % int64(step))
	}
	for i := off; i < len(samples) && len(ss) < 8; i += step {
		ss = append(ss, samples[i])
	}
	if len(ss) == 0 && len(samples) > 0 {
		ss = samples[:1]
	}
	var all []any
	for i, t := range st.Samples {
		if i < 6 {
			all = append(all, t)
		}
	}
	for _, c := range ss {
		if len(c) > 2000 {
			all = append(all, map[string]any{"case_json_prefix": string(c[:2000]) + "…"})
		} else {
			all = append(all, map[string]any{"case": c})
		}
	}
	cov["samples"] = all
	ev := map[string]any{
		"property_id": s.ID,
		"tier":        tier,
		"seed":        seed,
		"level":       s.Level,
		"coverage":    cov,
		"assumptions": s.Assume,
		"wall_s":      wall,
		"violations":  nViol,
	}
	dir := filepath.Join(outDir(), "evidence")
	_ = os.MkdirAll(dir, 0o755)
	b, _ := json.MarshalIndent(ev, "", " ")
	_ = os.WriteFile(filepath.Join(dir, s.ID+".json"), append(b, '\n'), 0o644)
}
