package checks

import (
	"verif/mc/fw"
)

// C12: groups add prefix and middleware to their own routes and leave no residue.

var c12Spec = fw.Spec[progCase]{
	ID:    "C12",
	Level: "model_checking",
	Rule: "complete enumeration of registration programs of <=N statements (quick 4, thorough 5), nesting <=3, over {Use(1), Group(prefix in {/g,x,/{v} (a variable in the prefix) | /h,y/,/g (the same relative prefix at another depth) | /g/h}, 0..2 middleware, also passed with spare slice capacity){...}, Route(0 | 1 variadic + 1 later Route.Use | own path starting with the text of the enclosing prefix | path ending in '/' (on a StrictLastSlash router)), programs of <=3 statements with a group also on a StrictLastSlash router, Controller(/c, 0|1 mw), Resource(/ | /Api/ (an upper-case letter in the base path), 0|1 mw)}, plus a list of special programs (shared groups, duplicate routes, routes beginning with a variable, `/api-keys` next to `/api`, Any() inside groups, routes with an optional literal tail and no variable under prefixes of one to three literal segments); " +
		"per registered route: path = concatenated prefixes, middleware count and request trace = the registration-program model, not reachable without the prefix; after every top-level statement a sentinel route must have no prefix and no group middleware; Routes() holds exactly the modelled routes; non-trivial = program containing a group, Use, controller or resource",
	Assume: []string{"clean non-root prefixes", "handler identity = closure id allocated in program order"},
	Bounds: func(tier string) map[string]any {
		if tier == "quick" {
			return map[string]any{"statements": 4, "nesting": 3}
		}
		return map[string]any{"statements": 5, "nesting": 3}
	},
	Gen:   func(tier string, emit func(progCase)) { progGen(tier, "C12", emit) },
	Run:   func(c progCase, st *fw.Stats) []fw.Viol { return progRun(c, "C12", st) },
	Batch: 32,
}

func init() {
	Registry["C12"] = func(args []string) int { return fw.Main(c12Spec, args) }
}
