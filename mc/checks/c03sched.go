//go:build vrt

package checks

import (
	"bytes"
	"encoding/json"
	"fmt"
	"os"
	"os/exec"
	"sort"
	"strings"
	"time"

	"github.com/gookit/rux"
	"github.com/gookit/rux/vrt"

	"verif/mc/c03scen"
	"verif/mc/fw"
	"verif/mc/refmodel"
)

// Controlled-scheduler exploration of C03 (instrumented build only).

type schedCfg struct {
	Shape    c03scen.Shape `json:"shape"`
	Reqs     []c03scen.Req `json:"threads"`
	History  []c03scen.Req `json:"sequential_history_before,omitempty"`
	Bound    int           `json:"preemption_bound"`
	Stmt     bool          `json:"statement_points"`
	AllStmt  bool          `json:"every_statement_is_a_point,omitempty"` // run in the worker built with -stmt all
	BudgetS  int           `json:"budget_s"`
	Seam     *seamCfg      `json:"cache_seam,omitempty"`
	Schedule []int         `json:"schedule,omitempty"` // replay of one schedule only
}

type seamCfg struct {
	Cap     int       `json:"capacity"`
	Threads [][]lruOp `json:"threads"`
	Prefill []lruOp   `json:"prefill,omitempty"`
}

type workerOut struct {
	Viols     []fw.Viol        `json:"viols"`
	Execs     int64            `json:"execs"`
	Points    int64            `json:"points"`
	Preempted int64            `json:"execs_with_preemption"`
	PerBound  map[string]int64 `json:"execs_per_bound"`
	MaxPoints int              `json:"max_points"`
	BoundDone int              `json:"bound_completed"`
	Outcomes  map[string]int64 `json:"outcomes"`
	TimedOut  bool             `json:"timed_out"`
	Sample    any              `json:"sample,omitempty"`
	Err       string           `json:"err,omitempty"`
}

func init() {
	Registry["C03-worker"] = func(args []string) int {
		var cfg schedCfg
		if err := json.NewDecoder(os.Stdin).Decode(&cfg); err != nil {
			fmt.Fprintln(os.Stderr, err)
			return 2
		}
		out := c03Worker(cfg)
		b, _ := json.Marshal(out)
		os.Stdout.Write(b)
		return 0
	}
}

func c03Bounds(tier string) map[string]any {
	if tier == "quick" {
		return map[string]any{"threads": 2, "preemption_bound": "iterated 0,1 with every visible statement of rux as a scheduling point; 0,1,2 with lock/pool/list/handler points", "shapes": len(c03scen.Shapes(false)), "statement_points": os.Getenv("VERIF_STMT_MODE"), "cache_seam": "2-3 threads x 1-2 operations on 2 keys, capacity 1-2, bound 3"}
	}
	return map[string]any{"threads": "2 (bound 3) and 3 (bound 2)", "shapes": len(c03scen.Shapes(true)), "statement_points": os.Getenv("VERIF_STMT_MODE"), "cache_seam": "2-3 threads x 1-2 operations on 2 keys, capacity 1-2, unbounded preemptions"}
}

func c03GenSched(tier string, emit func(c03Case)) {
	shapes := c03scen.Shapes(tier == "thorough")
	kinds := c03scen.Kinds
	budget := 25
	if tier == "thorough" {
		budget = 240
	}
	hist := [][]c03scen.Req{nil, {{Method: "GET", Path: "/u/1"}}, {{Method: "GET", Path: "/boom/now"}}, {{Method: "GET", Path: "/redir"}}, {{Method: "GET", Path: "/redir"}, {Method: "GET", Path: "/boom/now"}}, {{Method: "GET", Path: "/zz/q"}}, {{Method: "POST", Path: "/a"}, {Method: "GET", Path: "/u/2"}}}
	// cache seam first: it is small and decides the cache's own atomicity
	c03GenSeam(tier, emit)
	// request pairs: every unordered pair of kinds (with repetition), rotated over the shapes so that every
	// pair meets every cache setting / capacity shortcut
	n := 0
	for i := 0; i < len(kinds); i++ {
		for j := i; j < len(kinds); j++ {
			for si, sh := range shapes {
				if tier == "quick" && (si+n)%8 != 0 {
					continue
				}
				if tier == "thorough" && (si+n)%3 != 0 {
					continue
				}
				reqs := []c03scen.Req{kinds[i], kinds[j]}
				hs := [][]c03scen.Req{hist[(n+si)%len(hist)]}
				if sh.Cache >= 1 && (n+si)%len(hist) != 1 {
					// on caching routers also start from a warm cache, so that a thread can hold a cache hit
					hs = append(hs, hist[1])
				}
				for _, h := range hs {
					if tier == "quick" {
						// every statement of rux is a preemption point at bound 1; lock/pool/list/handler points at bound 2
						emit(c03Case{Kind: "sched", Sched: &schedCfg{Shape: sh, Reqs: reqs, History: h, Bound: 1, Stmt: true, BudgetS: budget}})
						emit(c03Case{Kind: "sched", Sched: &schedCfg{Shape: sh, Reqs: reqs, History: h, Bound: 2, Stmt: false, BudgetS: budget}})
					} else {
						emit(c03Case{Kind: "sched", Sched: &schedCfg{Shape: sh, Reqs: reqs, History: h, Bound: 2, Stmt: true, BudgetS: budget}})
						emit(c03Case{Kind: "sched", Sched: &schedCfg{Shape: sh, Reqs: reqs, History: h, Bound: 3, Stmt: false, BudgetS: budget}})
						if si%4 == n%4 {
							emit(c03Case{Kind: "sched", Sched: &schedCfg{Shape: sh, Reqs: reqs, History: h, Bound: 1, Stmt: true, AllStmt: true, BudgetS: budget}})
						}
					}
				}
			}
			n++
		}
	}
	if tier == "thorough" {
		// three threads on the collision-heavy kinds
		hot := []c03scen.Req{kinds[0], kinds[2], kinds[3], kinds[5], kinds[6], kinds[7]}
		for i := 0; i < len(hot); i++ {
			for j := i; j < len(hot); j++ {
				for k := j; k < len(hot); k++ {
					for si, sh := range shapes {
						if (si+i+j+k)%6 != 0 {
							continue
						}
						emit(c03Case{Kind: "sched", Sched: &schedCfg{Shape: sh, Reqs: []c03scen.Req{hot[i], hot[j], hot[k]}, Bound: 2, Stmt: false, BudgetS: budget}})
						emit(c03Case{Kind: "sched", Sched: &schedCfg{Shape: sh, Reqs: []c03scen.Req{hot[i], hot[j], hot[k]}, Bound: 1, Stmt: true, BudgetS: budget}})
					}
				}
			}
		}
	}
}

func c03GenSeam(tier string, emit func(c03Case)) {
	ops := []lruOp{{"get", 0, 0}, {"get", 1, 0}, {"set", 0, 0}, {"set", 1, 1}, {"set", 2, 0}, {"del", 0, 0}, {"has", 1, 0}, {"len", 0, 0}}
	bound := 3
	if tier == "thorough" {
		bound = 99
	}
	prefills := [][]lruOp{nil, {{"set", 0, 1}, {"set", 1, 0}}}
	for _, capacity := range []int{1, 2} {
		for pi, pre := range prefills {
			// two threads, one operation each: all ordered pairs
			for _, a := range ops {
				for _, b := range ops {
					emit(c03Case{Kind: "sched", Sched: &schedCfg{Bound: bound, BudgetS: 30, Seam: &seamCfg{Cap: capacity, Threads: [][]lruOp{{a}, {b}}, Prefill: pre}}})
				}
			}
			// two threads, two operations vs one; three threads on the hot operations
			hot := []lruOp{{"get", 0, 0}, {"set", 1, 1}, {"set", 2, 0}, {"del", 0, 0}}
			for _, a := range hot {
				for _, b := range hot {
					for _, c := range hot {
						if tier == "quick" && pi == 0 {
							continue
						}
						emit(c03Case{Kind: "sched", Sched: &schedCfg{Bound: min(bound, 2), BudgetS: 30, Seam: &seamCfg{Cap: capacity, Threads: [][]lruOp{{a, b}, {c}}, Prefill: pre}}})
						if tier == "thorough" {
							emit(c03Case{Kind: "sched", Sched: &schedCfg{Bound: 2, BudgetS: 60, Seam: &seamCfg{Cap: capacity, Threads: [][]lruOp{{a}, {b}, {c}}, Prefill: pre}}})
						}
					}
				}
			}
		}
	}
}

// c03RunSched runs one scenario in a worker subprocess (the scheduler owns process-global state).
func c03RunSched(c c03Case, st *fw.Stats) []fw.Viol {
	in, _ := json.Marshal(c.Sched)
	// the worker runs under an address-space limit and a hard timeout: a runaway never takes the machine down
	limit := c.Sched.BudgetS*4 + 120
	bin := os.Args[0]
	if c.Sched.AllStmt {
		bin = os.Getenv("VERIF_WORKER_ALL")
		if bin == "" {
			st.Cap("the every-statement worker binary was not built")
			return nil
		}
	}
	cmd := exec.Command("/bin/sh", "-c", fmt.Sprintf("ulimit -v 12000000; exec timeout -k 5 %d \"$0\" C03-worker", limit), bin)
	cmd.Env = append(os.Environ(), "GOMAXPROCS=2")
	cmd.Stdin = bytes.NewReader(in)
	var out, errb bytes.Buffer
	cmd.Stdout, cmd.Stderr = &out, &errb
	err := cmd.Run()
	var w workerOut
	if e2 := json.Unmarshal(out.Bytes(), &w); e2 != nil {
		// a worker that dies (out of memory, timeout) is never an alarm by itself: the scenario is reported as not explored
		st.Cap(fmt.Sprintf("a worker died without a result (%v): %s", err, oneLineTail(errb.String(), 300)))
		st.Inc("workers_died", 1)
		return nil
	}
	if w.Err != "" {
		if strings.Contains(w.Err, "replay divergence") || strings.Contains(w.Err, "did not replay identically") {
			// the same schedule did not reproduce: something outside the scheduler's control ran (on the unchanged tree
			// nothing does - rux starts no goroutines of its own). The scenario counts as not explored, never as an
			// alarm by itself; the free-running pass judges such code.
			st.Cap("a scenario did not replay deterministically (code outside the scheduler's control, e.g. a goroutine started by the library): not explored: " + oneLineTail(w.Err, 160))
			st.Inc("scenarios_not_deterministic", 1)
			return nil
		}
		panic("C03 worker: " + w.Err)
	}
	st.States += w.Execs
	st.Transitions += w.Points
	st.Evals += w.Execs
	st.Nontrivial += w.Preempted
	for k, v := range w.PerBound {
		st.Inc("executions_at_bound_"+k, v)
	}
	for k, v := range w.Outcomes {
		st.Outcomes[k] += v
	}
	st.Max("max_points_per_execution", int64(w.MaxPoints))
	if w.TimedOut {
		st.Cap(fmt.Sprintf("scenario budget reached: some scenario completed only preemption bound %d", w.BoundDone))
		st.Inc("scenarios_cut_by_budget", 1)
	} else {
		st.Inc("scenarios_completed_at_full_bound", 1)
	}
	if w.Sample != nil && st.WantSample() {
		st.Sample(w.Sample)
	}
	return w.Viols
}

// ---------------------------------------------------------------------------
// the worker: preemption-bounded DFS over schedules
// ---------------------------------------------------------------------------

type execResult struct {
	x     *vrt.Exec
	obs   []string
	viol  *fw.Viol
	descr string
}

func c03Worker(cfg schedCfg) (out workerOut) {
	defer func() {
		if r := recover(); r != nil {
			out.Err = fmt.Sprint(r)
		}
	}()
	c03scen.Yield = vrt.Yield
	vrt.StmtPoints = cfg.Stmt
	out.PerBound = map[string]int64{}
	out.Outcomes = map[string]int64{}
	var runOne func(prefix []int) execResult
	if cfg.Seam != nil {
		runOne = seamRunner(cfg)
	} else {
		runOne = reqRunner(cfg)
	}
	deadline := time.Now().Add(time.Duration(cfg.BudgetS) * time.Second)
	confirm := func(r execResult) *fw.Viol {
		// replay the recorded schedule twice: identical observations or it is nondeterminism we do not own
		var choices []int
		for _, p := range r.x.Points {
			choices = append(choices, p.Chosen)
		}
		for i := 0; i < 2; i++ {
			r2 := runOne(choices)
			if r2.viol == nil || r2.viol.Sig != r.viol.Sig || strings.Join(r2.obs, "|") != strings.Join(r.obs, "|") {
				panic(fmt.Sprintf("schedule %v did not replay identically: %v vs %v", choices, r.obs, r2.obs))
			}
		}
		v := *r.viol
		v.Msg = fmt.Sprintf("%s; schedule (choice per scheduling point, 0 = keep running) %v", v.Msg, compactChoices(choices))
		return &v
	}
	if cfg.Schedule != nil {
		r := runOne(cfg.Schedule)
		out.Execs = 1
		if r.viol != nil {
			out.Viols = append(out.Viols, *confirm(r))
		}
		return
	}
	for bound := 0; bound <= cfg.Bound; bound++ {
		var execs int64
		stop := false
		var explore func(prefix []int)
		explore = func(prefix []int) {
			if stop {
				return
			}
			if execs&63 == 0 && time.Now().After(deadline) {
				out.TimedOut = true
				stop = true
				return
			}
			r := runOne(prefix)
			execs++
			out.Execs++
			out.Points += int64(len(r.x.Points))
			if len(r.x.Points) > out.MaxPoints {
				out.MaxPoints = len(r.x.Points)
			}
			pre := 0
			for _, p := range r.x.Points {
				if p.RunningEnabled && p.Chosen != 0 {
					pre++
				}
			}
			if pre > 0 {
				out.Preempted++
			}
			out.Outcomes[strings.Join(r.obs, " || ")]++
			if r.x.Diverged != "" {
				panic("replay divergence: " + r.x.Diverged)
			}
			if r.viol != nil {
				out.Viols = append(out.Viols, *confirm(r))
				stop = true
				return
			}
			if out.Sample == nil && pre > 0 {
				out.Sample = map[string]any{"scenario": r.descr, "schedule": compactChoices(choicesOf(r.x)), "points": len(r.x.Points), "preemptions": pre, "observations": r.obs}
			}
			used := 0
			for i := 0; i < len(r.x.Points); i++ {
				p := r.x.Points[i]
				if i >= len(prefix) {
					cost := used
					if p.RunningEnabled {
						cost++
					}
					if cost <= bound {
						for alt := 1; alt < p.NEnabled; alt++ {
							np := make([]int, i+1)
							for k := 0; k < i; k++ {
								np[k] = r.x.Points[k].Chosen
							}
							np[i] = alt
							explore(np)
							if stop {
								return
							}
						}
					}
				}
				if p.RunningEnabled && p.Chosen != 0 {
					used++
				}
			}
		}
		explore(nil)
		out.PerBound[fmt.Sprint(bound)] = execs
		if stop {
			if len(out.Viols) == 0 {
				out.BoundDone = bound - 1
			}
			break
		}
		out.BoundDone = bound
	}
	// keep only a handful of distinct outcomes in the report
	if len(out.Outcomes) > 12 {
		out.Outcomes = map[string]int64{"distinct_joint_observations": int64(len(out.Outcomes))}
	}
	return
}

func choicesOf(x *vrt.Exec) []int {
	var c []int
	for _, p := range x.Points {
		c = append(c, p.Chosen)
	}
	return c
}

// run-length form "0x17 1 0x5 2 ..."
func compactChoices(c []int) string {
	var sb strings.Builder
	for i := 0; i < len(c); {
		j := i
		for j < len(c) && c[j] == c[i] {
			j++
		}
		if sb.Len() > 0 {
			sb.WriteByte(' ')
		}
		if j-i > 1 {
			fmt.Fprintf(&sb, "%dx%d", c[i], j-i)
		} else {
			fmt.Fprintf(&sb, "%d", c[i])
		}
		i = j
	}
	return sb.String()
}

// ---- request scenarios ---------------------------------------------------------------

func reqRunner(cfg schedCfg) func(prefix []int) execResult {
	// solo observations: each request alone on a fresh identical router (free running)
	solo := make([]string, len(cfg.Reqs))
	for i, q := range cfg.Reqs {
		solo[i] = c03scen.Serve(c03scen.Build(cfg.Shape), q)
	}
	probeSolo := make([]string, len(c03scen.Kinds))
	for i, q := range c03scen.Kinds {
		probeSolo[i] = c03scen.Serve(c03scen.Build(cfg.Shape), q)
	}
	var names []string
	for _, q := range cfg.Reqs {
		names = append(names, q.String())
	}
	descr := fmt.Sprintf("shape{%s} history %v threads [%s]", cfg.Shape, cfg.History, strings.Join(names, " | "))
	seqPoints := 0
	return func(prefix []int) execResult {
		r := c03scen.Build(cfg.Shape)
		for _, h := range cfg.History {
			c03scen.Serve(r, h)
		}
		obs := make([]string, len(cfg.Reqs))
		bodies := make([]func(), len(cfg.Reqs))
		for i := range cfg.Reqs {
			i := i
			bodies[i] = func() { obs[i] = c03scen.Serve(r, cfg.Reqs[i]) }
		}
		horizon := 20000
		if seqPoints > 0 {
			horizon = 10*seqPoints + 100
		}
		x := vrt.Run(prefix, horizon, bodies)
		if len(prefix) == 0 {
			seqPoints = len(x.Points)
		}
		res := execResult{x: x, obs: obs, descr: descr}
		bad := func(sig, msg string) {
			if res.viol == nil {
				res.viol = &fw.Viol{Sig: sig, Msg: descr + ": " + msg}
			}
		}
		switch {
		case x.ThreadPanic != "":
			bad("sched:panic", "a request panicked outside the handlers' recover: "+x.ThreadPanic)
		case x.Deadlock:
			bad("sched:deadlock", "no thread is enabled but not all requests finished")
		case x.Livelock:
			bad("sched:livelock", fmt.Sprintf("execution exceeded %d scheduling points (10x the sequential run)", horizon))
		}
		if res.viol != nil || x.Diverged != "" {
			return res
		}
		for i := range obs {
			if obs[i] != solo[i] {
				sig := "independence:response"
				if strings.HasPrefix(obs[i], "PANIC") {
					sig = "independence:panic"
				}
				bad(sig, fmt.Sprintf("request %q observed %s; alone it observes %s", names[i], obs[i], solo[i]))
			}
		}
		for _, rc := range x.Races {
			bad("race:"+rc.Obj, fmt.Sprintf("accesses to the %s by requests %d (write=%v) and %d (write=%v) are not ordered by any lock", rc.Obj, rc.T1, rc.W1, rc.T2, rc.W2))
		}
		// post-state: the pool never holds one context twice; cache invariants; one sequential probe per request kind
		if n, dup := r.VerifPool().FreeLen(); dup {
			bad("post:pool-duplicate", fmt.Sprintf("after the requests finished the context pool holds the same context twice (%d entries): it will be handed to two requests at once", n))
		}
		if c := r.VerifCache(); c != nil {
			var keys []string
			var vals []*rux.Route
			var ll, ml, size int
			if pv := try(func() { keys, vals, ll, ml, size = c.VerifSnapshot() }); pv != nil {
				bad("post:cache-list-corrupted", fmt.Sprintf("walking the cache list after the requests finished panicked: %v", pv))
			}
			seen := map[string]bool{}
			for i, k := range keys {
				if seen[k] {
					bad("post:cache-duplicate-key", fmt.Sprintf("cache holds key %q twice: %v", k, keys))
				}
				seen[k] = true
				if vals[i] == nil {
					bad("post:cache-nil-value", fmt.Sprintf("cache entry %q has no route", k))
				}
			}
			if ll != ml || ll > size {
				bad("post:cache-invariant", fmt.Sprintf("cache list length %d, map size %d, capacity %d after the requests finished", ll, ml, size))
			}
		}
		if res.viol == nil {
			for i, q := range c03scen.Kinds {
				if got := c03scen.Serve(r, q); got != probeSolo[i] {
					bad("post:probe", fmt.Sprintf("after the concurrent requests, %q observes %s; on a fresh router %s", q, got, probeSolo[i]))
					break
				}
			}
		}
		return res
	}
}

// ---- cache seam ---------------------------------------------------------------------

type seamEv struct {
	thread, idx int
	op          lruOp
	res         string
	call, ret   int
}

func seamRunner(cfg schedCfg) func(prefix []int) execResult {
	s := cfg.Seam
	var td []string
	for _, ops := range s.Threads {
		td = append(td, histString(ops))
	}
	descr := fmt.Sprintf("cache seam capacity=%d prefill [%s] threads [%s]", s.Cap, histString(s.Prefill), strings.Join(td, " | "))
	return func(prefix []int) execResult {
		c := rux.NewCachedRoutes(s.Cap)
		for _, o := range s.Prefill {
			c14Apply(c, o)
		}
		pre, _, _ := c14Snap(c)
		clock := 0
		var evs []seamEv
		bodies := make([]func(), len(s.Threads))
		for ti, ops := range s.Threads {
			ti, ops := ti, ops
			bodies[ti] = func() {
				for oi, o := range ops {
					clock++
					ev := seamEv{thread: ti, idx: oi, op: o, call: clock}
					func() {
						defer func() {
							if p := recover(); p != nil {
								ev.res = fmt.Sprintf("PANIC: %v", p)
							}
						}()
						ev.res = c14Apply(c, o)
					}()
					clock++
					ev.ret = clock
					evs = append(evs, ev)
				}
			}
		}
		x := vrt.Run(prefix, 5000, bodies)
		var obs []string
		sort.Slice(evs, func(i, j int) bool {
			return evs[i].thread < evs[j].thread || (evs[i].thread == evs[j].thread && evs[i].idx < evs[j].idx)
		})
		for _, e := range evs {
			obs = append(obs, fmt.Sprintf("T%d.%s=%s@[%d,%d]", e.thread, e.op, e.res, e.call, e.ret))
		}
		var post string
		var ll, ml int
		snapPanic := try(func() { post, ll, ml = c14Snap(c) })
		obs = append(obs, "final{"+post+"}")
		res := execResult{x: x, obs: obs, descr: descr}
		bad := func(sig, msg string) {
			if res.viol == nil {
				res.viol = &fw.Viol{Sig: sig, Msg: descr + ": " + msg}
			}
		}
		switch {
		case snapPanic != nil:
			res.viol = &fw.Viol{Sig: "seam:list-corrupted", Msg: fmt.Sprintf("%s: walking the cache list after the operations panicked: %v (history %v)", descr, snapPanic, obs)}
		case x.ThreadPanic != "":
			bad("seam:panic", x.ThreadPanic)
		case x.Deadlock:
			bad("seam:deadlock", "no thread enabled, operations unfinished")
		case x.Livelock:
			bad("seam:livelock", "horizon exceeded")
		}
		if res.viol != nil || x.Diverged != "" {
			return res
		}
		for _, e := range evs {
			if strings.HasPrefix(e.res, "PANIC") {
				bad("seam:op-panic", fmt.Sprintf("%s panicked: %s", e.op, e.res))
			}
		}
		for _, rc := range x.Races {
			bad("race:"+rc.Obj, fmt.Sprintf("accesses to the %s by threads %d (write=%v) and %d (write=%v) are not ordered by the cache lock", rc.Obj, rc.T1, rc.W1, rc.T2, rc.W2))
		}
		maxc := s.Cap
		if ll != ml || ll > maxc {
			bad("seam:invariant", fmt.Sprintf("list length %d, map size %d, capacity %d", ll, ml, s.Cap))
		}
		if res.viol == nil && !linearizable(s.Cap, pre, evs, post) {
			bad("seam:not-linearizable", fmt.Sprintf("history %v from state {%s} has no sequential LRU explanation", obs, pre))
		}
		return res
	}
}

// brute force: some total order of the operations that respects real-time order gives the same
// results and the same final state on the reference LRU (Has may or may not refresh recency).
func linearizable(capacity int, pre string, evs []seamEv, post string) bool {
	n := len(evs)
	used := make([]bool, n)
	var rec func(m *refmodel.LRU, done int) bool
	rec = func(m *refmodel.LRU, done int) bool {
		if done == n {
			return modelSnap(m) == post
		}
		for i := 0; i < n; i++ {
			if used[i] {
				continue
			}
			// i may come next only if no unused operation returned before i was called
			ok := true
			for j := 0; j < n; j++ {
				if !used[j] && j != i && evs[j].ret < evs[i].call {
					ok = false
				}
			}
			if !ok {
				continue
			}
			want, alts := modelApply(m.Clone(), evs[i].op)
			if want != evs[i].res {
				continue
			}
			used[i] = true
			for _, a := range alts {
				if rec(a, done+1) {
					used[i] = false
					return true
				}
			}
			used[i] = false
		}
		return false
	}
	return rec(parseModelSnap(capacity, pre), 0)
}

func oneLineTail(s string, n int) string {
	s = strings.ReplaceAll(tail(s, n), "\n", " | ")
	return s
}
