#!/usr/bin/env python3
"""Regenerates /verif/MANIFEST.json from the table below and validates it (and any evidence files) against the schemas."""
import json, os, sys, subprocess
HERE = os.path.dirname(os.path.dirname(os.path.abspath(__file__)))
BASE = json.load(open('/root/.vp/BASELINE.json'))
HOOK_COMMITS = subprocess.run(['git','-C','/repo','log','--format=%H %s'],capture_output=True,text=True).stdout.splitlines()
HOOK_COMMITS = [l.split()[0] for l in HOOK_COMMITS if l.split(' ',1)[1].startswith('verif:')]

ALL = ['C%02d' % i for i in range(1, 21)]

# id -> (technique, level text, level note, design ref)
CHECKS = {}
def check(id, technique, text, note, ref):
    CHECKS[id] = dict(technique=technique, text=text, note=note, ref=ref)

exec(open(os.path.join(HERE, 'tools', 'checks_table.py')).read())

NOT_YET = "check not built yet in this session (planned: bounded exhaustive exploration, see DESIGN.md section 5)"
NA = {}
exec(open(os.path.join(HERE, 'tools', 'na_table.py')).read()) if os.path.exists(os.path.join(HERE,'tools','na_table.py')) else None

m = {
 "version": 1,
 "setup_cmd": "bin/setup",
 "hooks": {
  "guard": "verif",
  "enable": "go build -tags verif (C03 additionally uses a generated -overlay that injects the controlled-scheduler runtime; /repo is never written)",
  "baseline_off_cmd": "cd /repo && go test -mod=mod -json -vet=off -count=1 -timeout 25m ./...",
  "source_commits": HOOK_COMMITS,
  "add_only": True,
 },
 "engines": [
  {"name": "fw", "path": "mc/fw", "serves_properties": sorted(CHECKS), "kind_free_text": "bounded-exhaustive / explicit-state explorer driving the real rux code against Go reference models (mc/refmodel); sharded over 16 workers; replay files re-executed twice before a violation is reported"},
 ],
 "checks": [],
 "notes": "All checks: bin/check <ID> <quick|thorough>; rebuilds from /repo's working tree (VERIF_REPO overrides the tree for mutant runs). Known findings: KNOWN_FINDINGS.txt. Seeded mutants: seeded/.",
 "not_applicable": [],
}
for id in ALL:
    if id in CHECKS:
        c = CHECKS[id]
        m["checks"].append({
            "property_id": id,
            "quick_cmd": f"bin/check {id} quick",
            "thorough_cmd": f"bin/check {id} thorough",
            "evidence_file": f"evidence/{id}.json",
            "replay_cmd_template": f"bin/check {id} --replay {{path}}",
            "engine": "fw",
            "level_claimed": {"category": "model_checking", "text": c["text"], "design_ref": c["ref"]},
            "level_note": c["note"],
            "technique": c["technique"],
        })
    else:
        m["not_applicable"].append({"property_id": id, "reason": NA.get(id, NOT_YET)})
json.dump(m, open(os.path.join(HERE, 'MANIFEST.json'), 'w'), indent=1)
print("MANIFEST.json written:", len(m["checks"]), "checks,", len(m["not_applicable"]), "not claimed")
