package checks

import (
	"fmt"
	"strings"

	"github.com/gookit/rux"

	"verif/mc/fw"
	"verif/mc/refmodel"
)

// C14: the route cache is a bounded LRU map (fix-point exploration of the real
// cachedRoutes against refmodel.LRU) and repeats are served from it (router
// clause, explored over request histories in c14router.go).

type c14Case struct {
	Kind string `json:"kind"` // "lru" or "router"
	Cap  int    `json:"cap"`
	Keys int    `json:"keys"`
	// router clause
	Router *c14RouterCfg `json:"router,omitempty"`
}

type lruOp struct {
	Op string `json:"op"` // set get has del len
	K  int    `json:"k"`
	V  int    `json:"v"`
}

func (o lruOp) String() string {
	switch o.Op {
	case "set":
		return fmt.Sprintf("Set(k%d,v%d)", o.K, o.V)
	case "len":
		return "Len()"
	}
	return fmt.Sprintf("%s(k%d)", strings.ToUpper(o.Op[:1])+o.Op[1:], o.K)
}

var c14Routes [16]*rux.Route
var c14RouteID = map[*rux.Route]int{}

func init() {
	for i := range c14Routes {
		c14Routes[i] = rux.NewRoute(fmt.Sprintf("/v%d", i), func(*rux.Context) {})
		c14RouteID[c14Routes[i]] = i
	}
	Registry["C14"] = func(args []string) int { return fw.Main(c14Spec, args) }
}

func lruAlphabet(keys int) []lruOp {
	var ops []lruOp
	for k := 0; k < keys; k++ {
		ops = append(ops, lruOp{"get", k, 0}, lruOp{"has", k, 0}, lruOp{"del", k, 0}, lruOp{"set", k, 0}, lruOp{"set", k, 1})
	}
	ops = append(ops, lruOp{"len", 0, 0})
	return ops
}

func keyName(k int) string { return fmt.Sprintf("k%d", k) }

// snapshot of the real cache in canonical form "k0=v1,k2=v0"
func c14Snap(c interface {
	VerifSnapshot() ([]string, []*rux.Route, int, int, int)
}) (string, int, int) {
	keys, vals, ll, ml, _ := c.VerifSnapshot()
	var sb strings.Builder
	for i, k := range keys {
		if i > 0 {
			sb.WriteByte(',')
		}
		id, ok := c14RouteID[vals[i]]
		if !ok {
			id = -1
		}
		fmt.Fprintf(&sb, "%s=v%d", k, id)
	}
	return sb.String(), ll, ml
}

func modelSnap(m *refmodel.LRU) string {
	var sb strings.Builder
	for i, e := range m.E {
		if i > 0 {
			sb.WriteByte(',')
		}
		fmt.Fprintf(&sb, "%s=v%d", e.K, e.V)
	}
	return sb.String()
}

// applies op to the real cache; returns observable result as string
func c14Apply(c interface {
	Set(string, *rux.Route) bool
	Get(string) (*rux.Route, bool)
	Has(string) bool
	Delete(string) bool
	Len() int
}, o lruOp) string {
	k := keyName(o.K)
	switch o.Op {
	case "set":
		c.Set(k, c14Routes[o.K*2+o.V])
		return "ok"
	case "get":
		r, ok := c.Get(k)
		if !ok {
			if r != nil {
				return "miss-with-value"
			}
			return "miss"
		}
		id, known := c14RouteID[r]
		if !known {
			return "hit:unknown-value"
		}
		return fmt.Sprintf("hit:v%d", id)
	case "has":
		return fmt.Sprint(c.Has(k))
	case "del":
		return fmt.Sprint(c.Delete(k))
	case "len":
		return fmt.Sprint(c.Len())
	}
	panic("bad op")
}

// applies op to the model; for "has" the statement does not say whether the
// key becomes most recent, so both successors are returned.
func modelApply(m *refmodel.LRU, o lruOp) (res string, alts []*refmodel.LRU) {
	k := keyName(o.K)
	switch o.Op {
	case "set":
		m.Set(k, o.K*2+o.V)
		return "ok", []*refmodel.LRU{m}
	case "get":
		v, ok := m.Get(k)
		if !ok {
			return "miss", []*refmodel.LRU{m}
		}
		return fmt.Sprintf("hit:v%d", v), []*refmodel.LRU{m}
	case "has":
		_, ok := m.Peek(k)
		m2 := m.Clone()
		m2.Get(k)
		return fmt.Sprint(ok), []*refmodel.LRU{m, m2}
	case "del":
		return fmt.Sprint(m.Delete(k)), []*refmodel.LRU{m}
	case "len":
		return fmt.Sprint(m.Len()), []*refmodel.LRU{m}
	}
	panic("bad op")
}

func histString(h []lruOp) string {
	var parts []string
	for _, o := range h {
		parts = append(parts, o.String())
	}
	return strings.Join(parts, "; ")
}

func parseModelSnap(capacity int, s string) *refmodel.LRU {
	m := &refmodel.LRU{Cap: capacity}
	if s == "" {
		return m
	}
	for _, kv := range strings.Split(s, ",") {
		var k string
		var v int
		i := strings.IndexByte(kv, '=')
		k = kv[:i]
		fmt.Sscanf(kv[i+1:], "v%d", &v)
		m.E = append(m.E, refmodel.LRUEntry{K: k, V: v})
	}
	return m
}

// c14RunLarge: capacities far beyond what the state graph can cover. Four fixed histories per capacity N (fill past N;
// fill, refresh the oldest, insert; fill, delete one in the middle, insert twice; the same fill as requests on a router
// configured with CachingWithNum(N)) are compared with refmodel.LRU after every operation (result and length; the
// full content every 64 operations and around the point where the cache becomes full).
func c14RunLarge(c c14Case, st *fw.Stats) []fw.Viol {
	var viols []fw.Viol
	addViol := func(sig, msg string) {
		if len(viols) < 6 {
			viols = append(viols, fw.Viol{Sig: sig, Msg: msg})
		}
	}
	N := c.Cap
	key := func(i int) string { return fmt.Sprintf("k%d", i) }
	type step struct {
		op string
		k  int
	}
	var hist []step
	for i := 0; i < N; i++ {
		hist = append(hist, step{"set", i})
	}
	switch c.Keys {
	case 0:
		hist = append(hist, step{"set", N}, step{"set", N + 1}, step{"set", N + 2}, step{"get", 0}, step{"get", 3}, step{"get", N + 2})
	case 1:
		hist = append(hist, step{"get", 0}, step{"set", N}, step{"set", N + 1}, step{"get", 0}, step{"get", 1}, step{"get", 2}, step{"get", 3})
	case 2:
		hist = append(hist, step{"del", N / 2}, step{"set", N}, step{"get", 0}, step{"set", N + 1}, step{"get", 0}, step{"get", 1}, step{"get", N / 2})
	}
	if c.Keys == 5 {
		// a caching router whose routes were ALL registered through Route.AttachTo: a resolved dynamic request is in the cache
		st.Evals++
		st.Nontrivial++
		// (capacity 0 through every option spelling: such a cache never holds anything)
		for name, opts := range map[string][]func(*rux.Router){"MaxNumCaches(0), EnableCaching": {rux.MaxNumCaches(0), rux.EnableCaching}, "EnableCaching, MaxNumCaches(0)": {rux.EnableCaching, rux.MaxNumCaches(0)}, "CachingWithNum(0)": {rux.CachingWithNum(0)}} {
			r0 := rux.New(opts...)
			r0.GET("/p/{id}", func(*rux.Context) {})
			for i := 0; i < 3; i++ {
				r0.Match("GET", fmt.Sprintf("/p/%d", i))
			}
			if cache := r0.VerifCache(); cache != nil && cache.Len() != 0 {
				addViol("router:large:len", fmt.Sprintf("router built with %s: after three dynamic requests its cache of capacity 0 holds %d entries", name, cache.Len()))
			}
		}
		// two capacity options in a row: the one applied last rules (capacity = number of entries after many distinct requests)
		for name, tc := range map[string]struct {
			opts []func(*rux.Router)
			want int
		}{"CachingWithNum(5), MaxNumCaches(2)": {[]func(*rux.Router){rux.CachingWithNum(5), rux.MaxNumCaches(2)}, 2}, "CachingWithNum(2), MaxNumCaches(5)": {[]func(*rux.Router){rux.CachingWithNum(2), rux.MaxNumCaches(5)}, 5},
			"MaxNumCaches(2), CachingWithNum(5)": {[]func(*rux.Router){rux.MaxNumCaches(2), rux.CachingWithNum(5)}, 5}, "CachingWithNum(5), CachingWithNum(3)": {[]func(*rux.Router){rux.CachingWithNum(5), rux.CachingWithNum(3)}, 3}} {
			r1 := rux.New(tc.opts...)
			r1.GET("/p/{id}", func(*rux.Context) {})
			for i := 0; i < 9; i++ {
				r1.Match("GET", fmt.Sprintf("/p/%d", i))
			}
			if cache := r1.VerifCache(); cache == nil || cache.Len() != tc.want {
				n := -1
				if cache != nil {
					n = cache.Len()
				}
				addViol("router:large:len", fmt.Sprintf("router built with %s: after nine distinct dynamic requests its cache holds %d entries, a bounded LRU of the capacity set last holds %d", name, n, tc.want))
			}
		}
		r := rux.New(rux.CachingWithNum(uint16(N)))
		rux.NewRoute("/p/{id}", func(*rux.Context) {}, "GET").AttachTo(r)
		rux.NewNamedRoute("q", "/q/{id}/{x}", func(*rux.Context) {}, "GET").AttachTo(r)
		for _, p := range []string{"/p/1", "/q/1/2"} {
			if m, _, _ := r.Match("GET", p); m == nil {
				addViol("router:large:match", fmt.Sprintf("routes registered with AttachTo on a router with CachingWithNum(%d): GET %s matched no route", N, p))
				return viols
			}
			cache := r.VerifCache()
			if cache == nil || !cache.Has("GET"+p) {
				addViol("cache-entry:absent-or-not-most-recent", fmt.Sprintf("routes registered with Route.AttachTo only, on a router with CachingWithNum(%d): after GET %s was resolved the cache holds no entry for it (cache container present: %v)", N, p, cache != nil))
				return viols
			}
		}
		return viols
	}
	if c.Keys == 6 {
		// many evictions in a row: N+700 distinct keys; after every insertion the list and the index agree, the bound
		// holds and the key that was just evicted is gone
		impl := rux.NewCachedRoutes(N)
		for i := 0; i < N+700; i++ {
			st.Evals++
			st.Transitions++
			impl.Set(key(i), c14Routes[(i%8)*2])
			want := i + 1
			if want > N {
				want = N
			}
			_, _, ll, ml, _ := impl.VerifSnapshot()
			if ll != want || ml != want || impl.Len() != want {
				addViol("lru:invariant:list-map", fmt.Sprintf("capacity=%d: after storing %d distinct keys (%d evictions): list %d, index %d, Len() %d; a bounded LRU holds %d", N, i+1, max(0, i+1-N), ll, ml, impl.Len(), want))
				return viols
			}
			if i >= N && impl.Has(key(i-N)) {
				addViol("lru:large:eviction", fmt.Sprintf("capacity=%d: storing the %d-th distinct key (eviction #%d) did not evict the least recently used key k%d: it is still answered", N, i+1, i+1-N, i-N))
				return viols
			}
		}
		st.Inc("evictions", 700)
		st.Nontrivial++
		return viols
	}
	if c.Keys == 4 {
		// the largest capacities (65535 is the most the router option can ask for): N+2 distinct keys are stored one by
		// one, once directly and once as requests on a router; the expectations are arithmetic (length = min(i, N); the
		// oldest key is gone exactly when the (N+1)-th arrives, the second oldest when the (N+2)-th does)
		impl := rux.NewCachedRoutes(N)
		var r *rux.Router
		if N <= 65535 {
			r = rux.New(rux.CachingWithNum(uint16(N)))
			r.GET("/p/{id}", func(*rux.Context) {})
		}
		for i := 0; i < N+2; i++ {
			st.Evals++
			st.Transitions++
			impl.Set(key(i), c14Routes[(i%8)*2])
			want := i + 1
			if want > N {
				want = N
			}
			if impl.Len() != want {
				addViol("lru:large:len", fmt.Sprintf("capacity=%d: after storing %d distinct keys Len() = %d, a bounded LRU holds %d", N, i+1, impl.Len(), want))
				return viols
			}
			if r != nil {
				if m, _, _ := r.Match("GET", fmt.Sprintf("/p/%d", i)); m == nil {
					addViol("router:large:match", fmt.Sprintf("CachingWithNum(%d): GET /p/%d matched no route", N, i))
					return viols
				}
				if got := r.VerifCache().Len(); got != want {
					addViol("router:large:len", fmt.Sprintf("CachingWithNum(%d): after resolving %d distinct dynamic paths the cache holds %d entries, a bounded LRU of that capacity holds %d", N, i+1, got, want))
					return viols
				}
			}
		}
		// after N+2 insertions: the two oldest keys are gone, the third oldest and the newest are there
		_, has0 := impl.Get(key(0))
		_, has1 := impl.Get(key(1))
		_, has2 := impl.Get(key(2))
		_, hasL := impl.Get(key(N + 1))
		if has0 || has1 || !has2 || !hasL {
			addViol("lru:large:eviction", fmt.Sprintf("capacity=%d: after storing %d distinct keys: k0 present=%v (want false), k1 present=%v (want false), k2 present=%v (want true), the newest present=%v (want true)", N, N+2, has0, has1, has2, hasL))
		}
		keys, _, ll, ml, _ := impl.VerifSnapshot()
		if ll != N || ml != N || len(keys) != N {
			addViol("lru:invariant:capacity", fmt.Sprintf("capacity=%d: after storing %d distinct keys the list holds %d entries and the index %d", N, N+2, ll, ml))
		}
		st.Inc("evictions", 2)
		st.Nontrivial++
		return viols
	}
	if c.Keys == 3 {
		// router clause: N+2 distinct paths requested on a router whose cache was configured with capacity N; every path
		// is resolved once, its entry must be there until N further distinct paths were resolved
		r := rux.New(rux.CachingWithNum(uint16(N)))
		rt := r.GET("/p/{id}", func(*rux.Context) {})
		model := &refmodel.LRU{Cap: N}
		for i := 0; i < N+2; i++ {
			st.Evals++
			st.Transitions++
			if m, _, _ := r.Match("GET", fmt.Sprintf("/p/%d", i)); m == nil {
				addViol("router:large:match", fmt.Sprintf("CachingWithNum(%d): GET /p/%d matched no route", N, i))
				return viols
			}
			model.Set(fmt.Sprintf("GET/p/%d", i), 0)
			if i%64 == 63 || i >= N-2 {
				keys, vals, ll, ml, _ := r.VerifCache().VerifSnapshot()
				if ll != model.Len() || ml != model.Len() {
					addViol("router:large:len", fmt.Sprintf("CachingWithNum(%d): after resolving %d distinct dynamic paths the cache holds %d entries (index %d), a bounded LRU of that capacity holds %d", N, i+1, ll, ml, model.Len()))
					return viols
				}
				for j, e := range model.E {
					if keys[j] != e.K || vals[j] == nil || vals[j].Path() != rt.Path() {
						addViol("router:large:content", fmt.Sprintf("CachingWithNum(%d): after resolving %d distinct dynamic paths entry #%d (most recent first) is %q, a bounded LRU holds %q there", N, i+1, j, keys[j], e.K))
						return viols
					}
				}
			}
		}
		st.Inc("evictions", 2)
		return viols
	}
	impl := rux.NewCachedRoutes(N)
	model := &refmodel.LRU{Cap: N}
	for i, h := range hist {
		st.Evals++
		st.Transitions++
		o := lruOp{Op: h.op, K: h.k}
		var got, want string
		k := key(h.k)
		where := func() string {
			return fmt.Sprintf("capacity=%d history=[Set(k0..k%d) one by one, then %v] operation #%d %s(%s)", N, N-1, hist[N:], i, h.op, k)
		}
		switch h.op {
		case "set":
			pv := try(func() { impl.Set(k, c14Routes[(h.k%8)*2]) })
			if pv != nil {
				addViol("lru:panic", fmt.Sprintf("%s panicked: %v", where(), pv))
				return viols
			}
			model.Set(k, (h.k%8)*2)
			got, want = "ok", "ok"
		case "get":
			r, ok := impl.Get(k)
			got = "miss"
			if ok {
				got = fmt.Sprintf("hit:v%d", c14RouteID[r])
			}
			v, ok2 := model.Get(k)
			want = "miss"
			if ok2 {
				want = fmt.Sprintf("hit:v%d", v)
			}
		case "del":
			got = fmt.Sprint(impl.Delete(k))
			want = fmt.Sprint(model.Delete(k))
		}
		_ = o
		if got != want {
			addViol("lru:large:result:"+h.op, fmt.Sprintf("%s returned %s, LRU model returns %s", where(), got, want))
		}
		if impl.Len() != model.Len() {
			addViol("lru:large:len", fmt.Sprintf("%s: Len() = %d, LRU model holds %d", where(), impl.Len(), model.Len()))
			return viols
		}
		if i%64 == 63 || i >= N-2 {
			post, ll, ml := c14Snap(impl)
			if post != modelSnap(model) {
				addViol("lru:large:state", fmt.Sprintf("%s: content differs from the LRU model (first entries: %.80s ... / model %.80s ...)", where(), post, modelSnap(model)))
				return viols
			}
			if ll != ml || ll > N {
				addViol("lru:invariant:capacity", fmt.Sprintf("%s: list length %d, map size %d, capacity %d", where(), ll, ml, N))
			}
		}
	}
	st.Nontrivial++
	return viols
}

func c14RunLRU(c c14Case, st *fw.Stats) []fw.Viol {
	ops := lruAlphabet(c.Keys)
	type node struct {
		hist []lruOp
	}
	seen := map[string]bool{"": true}
	frontier := []node{{}}
	var viols []fw.Viol
	addViol := func(sig, msg string) {
		if len(viols) < 20 {
			viols = append(viols, fw.Viol{Sig: sig, Msg: msg})
		}
	}
	st.States++
	maxCap := c.Cap
	if maxCap < 0 {
		maxCap = 0
	}
	for len(frontier) > 0 {
		if len(viols) >= 4 {
			return viols
		}
		if len(seen) > 500000 || st.Expired() {
			st.Cap("LRU state graph cut: more than 500000 states or budget used up")
			return viols
		}
		n := frontier[0]
		frontier = frontier[1:]
		for _, op := range ops {
			impl := rux.NewCachedRoutes(c.Cap)
			if pv := try(func() {
				for _, h := range n.hist {
					c14Apply(impl, h)
				}
			}); pv != nil {
				addViol("lru:panic", fmt.Sprintf("capacity=%d history=[%s]: panicked: %v", c.Cap, histString(n.hist), pv))
				continue
			}
			pre, _, _ := c14Snap(impl)
			model := parseModelSnap(c.Cap, pre)
			var got string
			if pv := try(func() { got = c14Apply(impl, op) }); pv != nil {
				got = fmt.Sprintf("PANIC: %v", pv)
			}
			want, alts := modelApply(model, op)
			post, ll, ml := c14Snap(impl)
			st.Transitions++
			st.Evals++
			where := fmt.Sprintf("capacity=%d history=[%s] state={%s} op=%s", c.Cap, histString(n.hist), pre, op)
			if got != want {
				addViol("lru:result:"+op.Op, fmt.Sprintf("%s: returned %s, LRU model returns %s", where, got, want))
			}
			okPost := false
			for _, a := range alts {
				if modelSnap(a) == post {
					okPost = true
				}
			}
			if !okPost {
				var exp []string
				for _, a := range alts {
					exp = append(exp, "{"+modelSnap(a)+"}")
				}
				addViol("lru:state:"+op.Op, fmt.Sprintf("%s: cache is now {%s}, LRU model expects %s (most recent first)", where, post, strings.Join(exp, " or ")))
			}
			if ll != ml {
				addViol("lru:invariant:list-map", fmt.Sprintf("%s: list length %d != map size %d", where, ll, ml))
			}
			if ll > maxCap {
				addViol("lru:invariant:capacity", fmt.Sprintf("%s: %d entries exceed capacity %d", where, ll, c.Cap))
			}
			switch {
			case op.Op == "set" && strings.Count(pre, "=") == maxCap && maxCap > 0 && !strings.Contains(pre, keyName(op.K)+"="):
				st.Inc("evictions", 1)
			case op.Op == "get" && strings.HasPrefix(got, "hit"):
				st.Inc("hits", 1)
			}
			if !seen[post] {
				seen[post] = true
				st.States++
				st.Nontrivial++
				h2 := append(append([]lruOp(nil), n.hist...), op)
				frontier = append(frontier, node{h2})
				st.Max("max_depth", int64(len(h2)))
			}
		}
	}
	return viols
}

var c14Spec = fw.Spec[c14Case]{
	ID:         "C14",
	Level:      "model_checking",
	StateGraph: true,
	Rule: "explicit-state search to fix-point: every reachable state of the real cachedRoutes (canonical form = keys and value ids in recency order, read through the verif hook) x every operation of {Set(k,v0|v1),Get(k),Has(k),Delete(k),Len()} compared with refmodel.LRU; capacities {8,64,255,256,257,300,1000,1024,4097}: four fixed fill-past-capacity histories each (plain, refresh the oldest first, delete one first, as requests on a router configured with that capacity) compared with the model after every operation; capacities {65534,65535,65536,70000}: N+2 distinct keys stored one by one (directly, and as requests on a router where the option allows the capacity) against arithmetic expectations; capacities {1,2,3,4,64,255}: 700 evictions in a row with list / index / bound / evicted key checked after each; caching routers whose routes are all registered through Route.AttachTo; " +
		"router clause: every request history (BFS to fix-point over cache states) on caching routers; a state is non-trivial/distinct when its canonical form was not seen before",
	Assume: []string{
		"cache states are observed through the build-tag-guarded read-only accessor VerifSnapshot",
		"successor states are obtained by replaying the shortest history on a fresh instance (live objects are not cloned)",
		"Has(k) may or may not refresh recency: both successors are accepted",
	},
	Bounds: func(tier string) map[string]any {
		if tier == "quick" {
			return map[string]any{"keys": "1..4", "values_per_key": 2, "capacities": "-1..4"}
		}
		return map[string]any{"keys": "1..5", "values_per_key": 2, "capacities": "-1..5"}
	},
	Gen: func(tier string, emit func(c14Case)) {
		maxK, maxC := 4, 4
		if tier == "thorough" {
			maxK, maxC = 5, 5
		}
		for k := 1; k <= maxK; k++ {
			for c := -1; c <= maxC; c++ {
				if c > k {
					continue
				}
				emit(c14Case{Kind: "lru", Cap: c, Keys: k})
			}
		}
		for _, n := range []int{8, 64, 255, 256, 257, 300, 1000, 1024, 4097} {
			for h := 0; h < 4; h++ {
				emit(c14Case{Kind: "lru-large", Cap: n, Keys: h})
			}
		}
		for _, n := range []int{1, 2, 3, 4, 64, 255} {
			emit(c14Case{Kind: "lru-large", Cap: n, Keys: 6})
		}
		for _, n := range []int{1, 4, 1000} {
			emit(c14Case{Kind: "lru-large", Cap: n, Keys: 5})
		}
		for _, n := range []int{65534, 65535, 65536, 70000} {
			emit(c14Case{Kind: "lru-large", Cap: n, Keys: 4})
		}
		c14GenRouter(tier, emit)
	},
	Run: func(c c14Case, st *fw.Stats) []fw.Viol {
		if c.Kind == "router" {
			return c14RunRouter(c, st)
		}
		if c.Kind == "lru-large" {
			return c14RunLarge(c, st)
		}
		return c14RunLRU(c, st)
	},
	Guard: func(tier string, st *fw.Stats) []string {
		var g []string
		if st.C["evictions"] == 0 {
			g = append(g, "no eviction occurred")
		}
		if st.C["hits"] == 0 {
			g = append(g, "no cache hit occurred")
		}
		return g
	},
	Batch: 1,
}
