package main

import (
	"fmt"
	"os"

	"verif/mc/checks"
)

func main() {
	if len(os.Args) < 2 {
		fmt.Fprintln(os.Stderr, "usage: verifcheck <ID> [quick|thorough] [--replay file]; ids:", checks.IDs())
		os.Exit(2)
	}
	f, ok := checks.Registry[os.Args[1]]
	if !ok {
		fmt.Fprintln(os.Stderr, "unknown check", os.Args[1], "; ids:", checks.IDs())
		os.Exit(2)
	}
	os.Exit(f(os.Args[2:]))
}
