package checks

import (
	"fmt"
	"net/http"
	"net/http/httptest"
	"net/url"
	"regexp"
	"sort"
	"strings"
	"sync"

	"github.com/gookit/rux"

	"verif/mc/fw"
	"verif/mc/refmodel"
)

// C02: path parameters are exactly what the pattern captured. For every
// pattern of a pool of multi-variable patterns, all paths obtained by
// substituting every value tuple (plus perturbations) are requested in every
// ordered pair (p, q, p, q) on routers with the cache off / capacity 1 / 2,
// through Match and through ServeHTTP; the reported params must be a
// decomposition of the normalised path by the pattern (the unique one where
// unique) and a non-matching path must not reach the route.

var c02Pool = []string{
	`/n/{c}/{i:\d+}/d`,
	`/u-{id}/x`,
	`/f/{name:[a-z]+}.css`,
	`/f/{file:.+\.(?:css|js)}`,
	`/o[/{a}[/{b}]]`,
	`/{all}`,
	`/p/{num}`,
	`/{x}`,
	`/a/{x}/b/{y}`,
	`/s/{any}`,
	`/d/{y:\d{4}}/{m:\d{2}}`,
	`/v{ver:[0-9.]+}/r`,
	`/a.b/{x}[.html]`,
	`/t/{x}[/{y:\d+}[/{z}]]`,
	`/static`,
	// a custom regex on a variable that carries the name of a global variable: the custom regex rules
	`/o/{num:\d{3}}`,
	`/tg/{all:[a-z]+}/feed`,
	// variable regexes made of several top-level groups / a top-level alternation
	`/rp/{p:(?:\d{4})-(?:0[1-9]|1[0-2])}`,
	`/tk/{t:(?:[a-z]+)(?:\d+)}/k`,
	`/pic/{kind:(?:jpe?g)|(?:png)}/x`,
	// literal dots in front of the first variable of routes that have no complete literal first segment
	`/sm.{ext}`,
	`/v1.0[/{x}]`,
	// catch-all variables at the end and in the middle
	`/files/{f:.+}`,
	`/rest/{r:.*}/end`,
}

// values tried in addition to c02Values for one pattern
var c02Extra = map[string][]string{
	`/rp/{p:(?:\d{4})-(?:0[1-9]|1[0-2])}`: {"2024-07", "2024-13", "2024-1", "024-07", "2024-07x"},
	`/tk/{t:(?:[a-z]+)(?:\d+)}/k`:         {"abc123", "a1", "abc", "1a", "ab12c"},
	`/pic/{kind:(?:jpe?g)|(?:png)}/x`:     {"jpg", "jpeg", "png", "jpgXYZ", "pn", "xpng"},
	// a line feed inside the value of a trailing catch-all variable ('.' does not match it)
	`/{all}`:           {"a\nb", "\nb", "a\n\nb"},
	`/files/{f:.+}`:    {"a\nb", "\nb", "a\n/b", "a/b\nc"},
	`/rest/{r:.*}/end`: {"a\nb", "\n"},
}

var c02Values = []string{"1", "20", "ab", "a.b", "é", "a b", "0", "a/b", "", "2024", "x.css", "1.0", "007", "123"}

type c02Case struct {
	Pattern  string `json:"pattern"`
	Cache    int    `json:"cache"` // 0 = caching disabled
	First    string `json:"first_path"`
	Strict   bool   `json:"strict_last_slash,omitempty"`
	Twin     string `json:"twin,omitempty"`                                    // "", "before", "after": a same-shape route with other variable names under POST
	Head     bool   `json:"head_requests,omitempty"`                           // the history is requested with HEAD (served by the GET route)
	Redisp   bool   `json:"redispatch,omitempty"`                              // the route's handler re-dispatches (HandleContext) to a static and to another dynamic route
	Enc      bool   `json:"use_encoded_path,omitempty"`                        // the router matches the ESCAPED request path (UseEncodedPath): the handlers see the escaped substrings
	NA       bool   `json:"method_not_allowed_probe_first,omitempty"`          // HandleMethodNotAllowed is on and every request is preceded by a DELETE (405) request for the same path
	GVar     bool   `json:"global_var_defined_late,omitempty"`                 // instead of a pattern of the pool: a global variable is defined AFTER its name was used as a plain variable
	Mut      bool   `json:"handler_edits_params,omitempty"`                    // the route's handler edits the Params map it was given, after reading it
	GroupSib bool   `json:"sibling_routes_in_groups_with_variables,omitempty"` // instead of a pattern of the pool: groups whose prefix holds variables, each with several sibling routes that have variables of their own
	EncFwd   bool   `json:"forwarded_under_use_encoded_path,omitempty"`        // instead of a pattern of the pool: requests with non-default escapes on a UseEncodedPath router, forwarded by their handler to another path with HandleContext
	Dump     bool   `json:"dump_routes,omitempty"`                             // the router's read-only inspection API (String, Routes, IterateRoutes, NamedRoutes) is called between registration and the requests and again between them
}

var c02VarName = regexp.MustCompile(`\{([a-z]+)`)

// same pattern with every (non-global) variable renamed
func c02Twin(pattern string) string {
	return c02VarName.ReplaceAllStringFunc(pattern, func(m string) string {
		if _, ok := refmodel.GlobalVars[m[1:]]; ok {
			return m
		}
		return m + "z"
	})
}

// all candidate paths for a pattern: every optional depth x every value tuple, plus perturbations
func c02Paths(pattern string) []string {
	pt, err := refmodel.ParsePattern(refmodel.Norm(pattern, false))
	if err != nil {
		panic(err)
	}
	set := map[string]bool{"/": true}
	if pt.Static {
		set[pt.Path] = true
		set[pt.Path+"/x"] = true
		set[pt.Path+"x"] = true
	} else {
		// levels: sequences of tokens per nesting depth
		var levels [][]refmodel.Tok
		for p := pt.P; p != nil; p = p.Opt {
			levels = append(levels, p.Seq)
		}
		for depth := 1; depth <= len(levels); depth++ {
			var toks []refmodel.Tok
			for _, l := range levels[:depth] {
				toks = append(toks, l...)
			}
			var rec func(i int, cur string)
			rec = func(i int, cur string) {
				if i == len(toks) {
					set[cur] = true
					return
				}
				if toks[i].Kind == refmodel.TLit {
					rec(i+1, cur+toks[i].Lit)
					return
				}
				for _, v := range c02Values {
					rec(i+1, cur+v)
				}
				for _, v := range c02Extra[pattern] {
					rec(i+1, cur+v)
				}
			}
			rec(0, "")
		}
	}
	base := make([]string, 0, len(set))
	for p := range set {
		base = append(base, p)
	}
	sort.Strings(base)
	// a literal dot of the pattern replaced by another character / removed
	for i, p := range base {
		if k := strings.IndexByte(p, '.'); k >= 0 && i%7 == 0 {
			for _, rep := range []string{"-", "x", "/", ""} {
				set[p[:k]+rep+p[k+1:]] = true
			}
		}
	}
	// perturbations of a spread subset (deterministic)
	for i, p := range base {
		if i%7 == 0 {
			set[p+"/zz"] = true
			set[p+"/"] = true
			// white space the normaliser strips, in multi-byte form (no-break space, ideographic space)
			set[p+"\u00a0"] = true
			set[p+"/\u3000"] = true
			if len(p) > 2 {
				set[p[:len(p)-1]] = true
			}
		}
	}
	out := make([]string, 0, len(set))
	for p := range set {
		out = append(out, p)
	}
	sort.Strings(out)
	return out
}

var c02PathCache = map[string][]string{}

func init() {
	for _, p := range c02Pool {
		c02PathCache[p] = c02Paths(p)
	}
	Registry["C02"] = func(args []string) int { return fw.Main(c02Spec, args) }
}

func c02Gen(tier string, emit func(c02Case)) {
	emit(c02Case{GVar: true})
	for _, cc := range []int{0, 1, 2} {
		emit(c02Case{EncFwd: true, Cache: cc})
		emit(c02Case{GroupSib: true, Cache: cc})
	}
	for _, pat := range c02Pool {
		for _, cc := range []int{0, 2} {
			emit(c02Case{Pattern: pat, Cache: cc, Redisp: true})
		}
	}
	caches := []int{0, 1, 2}
	for _, pat := range c02Pool {
		paths := c02PathCache[pat]
		stride := 1
		if tier == "quick" && len(paths) > 28 {
			// quick: every path is still requested (as q) against a spread of first paths
			stride = len(paths) / 28
		}
		for _, cc := range caches {
			st0 := stride
			if tier == "thorough" && cc == 0 {
				// without a cache the first request leaves nothing behind that the lookup of the second could meet
				st0 = 4
			}
			for i := 0; i < len(paths); i += st0 {
				emit(c02Case{Pattern: pat, Cache: cc, First: paths[i]})
			}
		}
		if tier == "thorough" {
			// (the variants below take every 8th path as first request; all paths are still the second request)
			stride = 2
		}
		// HEAD requests are served by the GET route and must see the same parameters (also from the cache)
		for _, cc := range []int{0, 2} {
			for i := 0; i < len(paths); i += stride * 4 {
				emit(c02Case{Pattern: pat, Cache: cc, First: paths[i], Head: true})
			}
		}
		// with HandleMethodNotAllowed: a request with a method the route does not allow comes first for every path
		for _, cc := range []int{1, 2} {
			for i := 0; i < len(paths); i += stride * 4 {
				emit(c02Case{Pattern: pat, Cache: cc, First: paths[i], NA: true})
			}
		}
		// UseEncodedPath: what is matched (and captured) is the escaped form of the request path
		for _, cc := range []int{0, 2} {
			for i := 0; i < len(paths); i += stride * 4 {
				emit(c02Case{Pattern: pat, Cache: cc, First: paths[i], Enc: true})
			}
		}
		// a handler that edits the parameter map it was handed (every request must still get its own, correct values)
		for _, cc := range []int{0, 1} {
			for i := 0; i < len(paths); i += stride * 4 {
				emit(c02Case{Pattern: pat, Cache: cc, First: paths[i], Mut: true})
			}
		}
		// the read-only inspection API of the router is used before and between the requests
		for _, cc := range []int{0, 2} {
			for i := 0; i < len(paths); i += stride * 4 {
				emit(c02Case{Pattern: pat, Cache: cc, First: paths[i], Dump: true})
			}
		}
		// StrictLastSlash: '/x' and '/x/' are different request paths (and different cache keys)
		s2 := stride * 3
		if tier == "thorough" {
			s2 = 2
		}
		for _, cc := range []int{0, 2} {
			for i := 0; i < len(paths); i += s2 {
				emit(c02Case{Pattern: pat, Cache: cc, First: paths[i], Strict: true})
			}
		}
		// a twin route of the same shape but other variable names, registered before / after
		if c02Twin(pat) != pat {
			s3 := stride * 6
			if tier == "thorough" {
				s3 = 8
			}
			for _, tw := range []string{"before", "after"} {
				for _, cc := range []int{0, 2} {
					for i := 0; i < len(paths); i += s3 {
						emit(c02Case{Pattern: pat, Cache: cc, First: paths[i], Twin: tw})
					}
				}
			}
		}
	}
}

func c02Run(c c02Case, st *fw.Stats) []fw.Viol {
	var viols []fw.Viol
	add := func(sig, msg string) {
		if len(viols) < 6 {
			viols = append(viols, fw.Viol{Sig: sig, Msg: msg})
		}
	}
	if c.GVar {
		c02GlobalVarMu.Lock()
		defer c02GlobalVarMu.Unlock()
		return c02LateGlobalVar(st, add, &viols)
	}
	c02GlobalVarMu.RLock()
	defer c02GlobalVarMu.RUnlock()
	if c.Redisp {
		return c02Redispatch(c, st, add, &viols)
	}
	if c.EncFwd {
		return c02EncodedForward(c, st, add, &viols)
	}
	if c.GroupSib {
		return c02GroupSiblings(c, st, add, &viols)
	}
	pt, err := refmodel.CachedPattern(refmodel.Norm(c.Pattern, c.Strict))
	if err != nil {
		panic(err)
	}
	var opts []func(*rux.Router)
	if c.Cache > 0 {
		opts = append(opts, rux.CachingWithNum(uint16(c.Cache)))
	}
	if c.Strict {
		opts = append(opts, rux.StrictLastSlash)
	}
	if c.Enc {
		opts = append(opts, rux.UseEncodedPath)
	}
	if c.NA {
		opts = append(opts, rux.HandleMethodNotAllowed)
	}
	defs := []refmodel.RouteDef{{Path: c.Pattern, Methods: []string{"GET"}}}
	mainIdx := "0|"
	switch c.Twin {
	case "before":
		defs = []refmodel.RouteDef{{Path: c02Twin(c.Pattern), Methods: []string{"POST"}}, defs[0]}
		mainIdx = "1|"
	case "after":
		defs = append(defs, refmodel.RouteDef{Path: c02Twin(c.Pattern), Methods: []string{"POST"}})
	}
	paths := c02PathCache[c.Pattern]
	if paths == nil {
		paths = c02Paths(c.Pattern)
	}
	where := func(seq []string, i int) string {
		return fmt.Sprintf("routes [%s], cache=%d, strict=%v, head=%v, routes-dumped=%v, useEncodedPath=%v, handler-edits-its-params=%v, request #%d of history %q", defsString(defs), c.Cache, c.Strict, c.Head, c.Dump, c.Enc, c.Mut, i+1, seq)
	}
	for _, q := range paths {
		rec := &hitRec{}
		r, pv := buildRouter(defs, rec, opts...)
		if pv != nil {
			add("register:panic", fmt.Sprintf("registering GET %s panicked: %v", c.Pattern, pv))
			return viols
		}
		// a sibling router built from the very same option values, holding the same pattern with other variable names:
		// it is served every request first (two routers must not share anything through their options)
		var sib *rux.Router
		if tw := c02Twin(c.Pattern); tw != c.Pattern && c.Cache > 0 && c.Twin == "" && !c.Head && !c.Dump {
			sib, _ = buildRouter([]refmodel.RouteDef{{Path: tw, Methods: []string{"GET", "HEAD"}}}, nil, opts...)
		}
		if c.Mut {
			// the same route with a handler that, after reporting what it saw, overwrites and extends its Params
			r = rux.New(opts...)
			r.GET(c.Pattern, func(ctx *rux.Context) {
				rec.idx, rec.params = 0, canonParams(ctx.Params)
				rec.n++
				ctx.WriteString("0|" + canonParams(ctx.Params))
				for k := range ctx.Params {
					ctx.Params[k] = "EDITED"
				}
				if ctx.Params != nil {
					ctx.Params["added"] = "x"
				}
			}).Opts = map[string]any{"i": 0}
		}
		seq := []string{c.First, q, c.First, q}
		for i, p := range seq {
			if c.Dump && i%2 == 0 {
				c02Inspect(r)
			}
			if sib != nil {
				_, _ = serve(sib, "GET", p)
			}
			st.Evals++
			if c.Enc {
				// the path the router looks at is the escaped one
				p = mustURL(p).EscapedPath()
			}
			np := refmodel.Norm(p, c.Strict)
			want := pt.Matches(np)
			if want && !pt.Static {
				st.Nontrivial++
			}
			var rt *rux.Route
			var ps rux.Params
			useServe := i%2 == 1 || c.Cache == 0
			method := "GET"
			if c.Head && i >= 1 {
				method = "HEAD"
			}
			if c.NA {
				_, _ = serve(r, "DELETE", p)
			}
			if c.Mut {
				// the editing handler runs BEFORE the lookup below as well (whatever the first lookup of a path leaves
				// behind must not show in the next one)
				_, _ = serve(r, method, p)
			}
			if pv := try(func() { rt, ps, _ = r.Match(method, p) }); pv != nil {
				add("match:panic", fmt.Sprintf("%s: Match panicked: %v", where(seq, i), pv))
				break
			}
			if (rt != nil) != want {
				add(fmt.Sprintf("match:reach:want=%v", want), fmt.Sprintf("%s: path %q (normalised %q) reaches route = %v, pattern matches = %v", where(seq, i), p, np, rt != nil, want))
				continue
			}
			if rt != nil {
				if e := checkParams(pt, np, ps); e != "" {
					add("params:match", fmt.Sprintf("%s: %s", where(seq, i), e))
				}
			}
			if useServe {
				rec.n = 0
				sp := p
				if c.Enc {
					sp = seq[i] // served with the decoded path in URL.Path; the router escapes it itself
				}
				resp, pv := serve(r, method, sp)
				if pv != nil {
					add("serve:panic", fmt.Sprintf("%s: ServeHTTP panicked: %v", where(seq, i), pv))
					break
				}
				if want {
					exp := mainIdx + canonParams(ps)
					if rec.n != 1 || resp.Body.String() != exp {
						add("params:context", fmt.Sprintf("%s: handler ran %d time(s) and saw %q, Match reported %q", where(seq, i), rec.n, resp.Body.String(), exp))
					}
				} else if rec.n != 0 {
					add("serve:reach", fmt.Sprintf("%s: handler ran for non-matching path %q", where(seq, i), p))
				}
			}
		}
	}
	if st.WantSample() {
		st.Sample(map[string]any{"pattern": c.Pattern, "cache": c.Cache, "history_shape": "first,q,first,q for every q", "first": c.First, "some_q": paths[:min(6, len(paths))]})
	}
	return viols
}

// the table of global path variables is process-wide: the case that defines one runs alone
var c02GlobalVarMu sync.RWMutex

// c02LateGlobalVar: a name is first used as a plain variable (no global definition exists), THEN defined with
// SetGlobalVar; every route registered afterwards - on the old and on a new router - uses the definition.
func c02LateGlobalVar(st *fw.Stats, add func(sig, msg string), viols *[]fw.Viol) []fw.Viol {
	names := []string{"c02gva", "c02gvb"}
	defer func() {
		for _, n := range names {
			delete(rux.GetGlobalVars(), n)
		}
	}()
	var seen string
	h := func(ctx *rux.Context) { seen = canonParams(ctx.Params) }
	for i, name := range names {
		r1 := rux.New()
		r1.GET("/early/{"+name+"}", h)
		_, _ = serve(r1, "GET", "/early/may-2024")
		rux.SetGlobalVar(name, `\d{4}-\d{2}`)
		routers := map[string]*rux.Router{"the router that used the name before": r1, "a new router": rux.New()}
		if i == 1 {
			routers["a new caching router"] = rux.New(rux.CachingWithNum(4))
		}
		for which, r := range routers {
			r.GET("/late/{"+name+"}/x", h)
			for _, q := range []struct {
				v    string
				want bool
			}{{"2024-05", true}, {"may-2024", false}, {"2024-5", false}, {"20240-55", false}} {
				st.Evals++
				st.Nontrivial++
				seen = "<not run>"
				resp, pv := serve(r, "GET", "/late/"+q.v+"/x")
				if pv != nil {
					add("globalvar:panic", fmt.Sprintf("late global variable %q: request panicked: %v", name, pv))
				} else if got := resp.Code == 200; got != q.want {
					add("globalvar:late-definition-ignored", fmt.Sprintf("the name %q was used as a plain variable, then defined with SetGlobalVar(%q, `\\d{4}-\\d{2}`); route /late/{%s}/x registered afterwards on %s: GET /late/%s/x reaches it = %v (params {%s}), the variable's regex admits the value = %v", name, name, name, which, q.v, got, seen, q.want))
				}
			}
		}
	}
	return *viols
}

// c02Inspect uses every read-only inspection entry point of the router
func c02Inspect(r *rux.Router) {
	_ = r.String()
	_ = r.Routes()
	r.IterateRoutes(func(rt *rux.Route) {
		_ = rt.String()
		_ = rt.Info()
		_ = rt.MethodString(",")
		_ = rt.Path()
		_ = rt.Name()
	})
	_ = r.NamedRoutes()
}

// the handler of the pattern's route re-dispatches the request with HandleContext: the target's handlers must see
// exactly the target's parameters (none for a static target), whatever the first route captured
func c02Redispatch(c c02Case, st *fw.Stats, add func(sig, msg string), viols *[]fw.Viol) []fw.Viol {
	pt, err := refmodel.CachedPattern(refmodel.Norm(c.Pattern, false))
	if err != nil {
		panic(err)
	}
	for _, target := range []string{"/zstatic/target", "/zdyn/77", "/zopt"} {
		if pt.Matches(target) {
			continue // the pattern would take the re-dispatched request itself (endless re-dispatch)
		}
		var opts []func(*rux.Router)
		if c.Cache > 0 {
			opts = append(opts, rux.CachingWithNum(uint16(c.Cache)))
		}
		r := rux.New(opts...)
		var seen string
		var ran int
		r.GET(c.Pattern, func(ctx *rux.Context) {
			ctx.Req.URL.Path = target
			ctx.Router().HandleContext(ctx)
		})
		rec := func(ctx *rux.Context) { seen = canonParams(ctx.Params); ran++ }
		r.GET("/zstatic/target", rec)
		r.GET("/zdyn/{q}", rec)
		r.GET("/zopt[/{o}]", rec)
		want := map[string]string{"/zstatic/target": "", "/zdyn/77": "q=77", "/zopt": "o="}[target]
		for _, p := range c02PathCache[c.Pattern] {
			if !pt.Matches(refmodel.Norm(p, false)) || pt.Static {
				continue
			}
			for rep := 0; rep < 2; rep++ {
				st.Evals++
				st.Nontrivial++
				seen, ran = "<not run>", 0
				if _, pv := serve(r, "GET", p); pv != nil {
					add("redispatch:panic", fmt.Sprintf("route GET %s re-dispatching %q to %q panicked: %v", c.Pattern, p, target, pv))
					break
				}
				if ran != 1 || seen != want {
					add("params:redispatch", fmt.Sprintf("route GET %s (cache=%d): request %q re-dispatched with HandleContext to %q: the target's handler ran %d time(s) and saw params {%s}, expected {%s}", c.Pattern, c.Cache, p, target, ran, seen, want))
					break
				}
			}
			if len(*viols) > 0 {
				break
			}
		}
	}
	return *viols
}

// c02GroupSiblings: groups (plain, nested, and a controller) whose prefix holds 1-3 variables, each with several
// sibling routes that have variables of their own; every route is requested (twice, in two orders) and must report
// exactly its own variable names with the substrings of the path.
func c02GroupSiblings(c c02Case, st *fw.Stats, add func(sig, msg string), viols *[]fw.Viol) []fw.Viol {
	tails := []string{"/users/{id}", "/repos/{name}", "/x/{a}/{b}", "/plain", "/opt[/{o}]", `/n/{k:\d+}`, "/users/{uid}/posts/{pid}"}
	for _, prefixes := range [][]string{{"/{org}"}, {"/o/{org}"}, {"/{org}/{team}"}, {"/{org}", "/{team}"}, {"/g", "/{org}"}, {"/{a1}/{a2}/{a3}"}, {"/{org}", "/t/{team}", "/{unit}"}} {
		var opts []func(*rux.Router)
		if c.Cache > 0 {
			opts = append(opts, rux.CachingWithNum(uint16(c.Cache)))
		}
		r := rux.New(opts...)
		var seen string
		full := strings.Join(prefixes, "")
		var reg func(i int)
		reg = func(i int) {
			if i == len(prefixes) {
				for _, t := range tails {
					r.GET(t, func(ctx *rux.Context) { seen = canonParams(ctx.Params) })
				}
				return
			}
			r.Group(prefixes[i], func() { reg(i + 1) })
		}
		if pv := try(func() { reg(0) }); pv != nil {
			add("register:panic", fmt.Sprintf("groups %v with sibling routes %v: registration panicked: %v", prefixes, tails, pv))
			continue
		}
		type rq struct {
			pat  *refmodel.Pattern
			path string
		}
		var reqs []rq
		varRe := regexp.MustCompile(`\{[a-z0-9]+(?::[^}]*\})?\}?`)
		for _, t := range tails {
			pt, err := refmodel.CachedPattern(refmodel.Norm(full+t, false))
			if err != nil {
				panic(err)
			}
			for _, vals := range [][]string{{"acme", "core", "u9", "5", "7"}, {"1", "2", "3", "4", "6"}} {
				k := 0
				concrete := varRe.ReplaceAllStringFunc(strings.NewReplacer("[", "", "]", "").Replace(full+t), func(string) string { k++; return vals[(k-1)%len(vals)] })
				reqs = append(reqs, rq{pt, concrete})
			}
		}
		order := append(append([]rq{}, reqs...), reqs...)
		for i, j := len(reqs), len(order)-1; i < j; i, j = i+1, j-1 {
			order[i], order[j] = order[j], order[i]
		}
		for _, q := range order {
			st.Evals++
			st.Nontrivial++
			seen = "<handler not run>"
			np := refmodel.Norm(q.path, false)
			if !q.pat.Matches(np) {
				continue
			}
			var ps map[string]string
			if pv := try(func() { _, p, _ := r.Match("GET", q.path); ps = p }); pv != nil {
				add("match:panic", fmt.Sprintf("groups %v: Match(GET,%q) panicked: %v", prefixes, q.path, pv))
				continue
			}
			if e := checkParams(q.pat, np, ps); e != "" {
				add("params:group-siblings", fmt.Sprintf("groups %v (cache=%d) holding the sibling routes %v: GET %q (route %s): %s", prefixes, c.Cache, tails, q.path, q.pat.Path, e))
				continue
			}
			if _, pv := serve(r, "GET", q.path); pv != nil {
				add("serve:panic", fmt.Sprintf("groups %v: ServeHTTP(GET %q) panicked: %v", prefixes, q.path, pv))
			} else if seen != canonParams(ps) {
				add("params:group-siblings", fmt.Sprintf("groups %v (cache=%d) holding the sibling routes %v: GET %q (route %s): the handler saw {%s}, Match reported {%s}", prefixes, c.Cache, tails, q.path, q.pat.Path, seen, canonParams(ps)))
			}
		}
	}
	return *viols
}

// c02EncodedForward: on a UseEncodedPath router a handler rewrites URL.Path and forwards the request with HandleContext.
// The request was spelled with escapes (default and non-default ones, so URL.RawPath is set or empty); the forwarded
// dispatch must capture the parameters of the NEW path.
func c02EncodedForward(c c02Case, st *fw.Stats, add func(sig, msg string), viols *[]fw.Viol) []fw.Viol {
	opts := []func(*rux.Router){rux.UseEncodedPath}
	if c.Cache > 0 {
		opts = append(opts, rux.CachingWithNum(uint16(c.Cache)))
	}
	for _, target := range []struct{ path, want string }{{"/users/0", "U:id=0"}, {"/users/a b", "U:id=a%20b"}, {"/items/7/x", "I:k=x,n=7"}, {"/plain", "P:"}} {
		r := rux.New(opts...)
		var seen []string
		hops := 0
		r.GET("/fwd/{x}", func(ctx *rux.Context) {
			hops++
			if hops > 1 {
				seen = append(seen, "FORWARDER-AGAIN:"+canonParams(ctx.Params))
				return
			}
			ctx.Req.URL.Path = target.path
			ctx.Router().HandleContext(ctx)
		})
		r.GET("/users/{id}", func(ctx *rux.Context) { seen = append(seen, "U:"+canonParams(ctx.Params)) })
		r.GET("/items/{n}/{k}", func(ctx *rux.Context) { seen = append(seen, "I:"+canonParams(ctx.Params)) })
		r.GET("/plain", func(ctx *rux.Context) { seen = append(seen, "P:"+canonParams(ctx.Params)) })
		for _, raw := range []string{"/fwd/a%2Fb", "/fwd/%41", "/fwd/a%20b", "/fwd/ab", "/fwd/%C3%A9", "/fwd/a%2fb", "/fwd/a%252Fb", "/fwd/x%3By"} {
			for rep := 0; rep < 2; rep++ {
				st.Evals++
				st.Nontrivial++
				u, err := url.Parse("http://h" + raw)
				if err != nil {
					panic(err)
				}
				seen, hops = nil, 0
				req := &http.Request{Method: "GET", URL: u, Header: http.Header{}, Proto: "HTTP/1.1", ProtoMajor: 1, ProtoMinor: 1, Host: "h"}
				if pv := try(func() { r.ServeHTTP(httptest.NewRecorder(), req) }); pv != nil {
					add("redispatch:panic", fmt.Sprintf("UseEncodedPath, cache=%d: GET %s forwarded to %q panicked: %v", c.Cache, raw, target.path, pv))
					continue
				}
				if got := strings.Join(seen, " "); got != target.want {
					add("params:redispatch-encoded", fmt.Sprintf("UseEncodedPath router (cache=%d) with GET /fwd/{x} (handler sets URL.Path = %q and calls HandleContext), GET /users/{id}, GET /items/{n}/{k}, GET /plain: request %s (URL.RawPath %q), time #%d: handlers ran [%s], expected [%s]", c.Cache, target.path, raw, u.RawPath, rep+1, got, target.want))
				}
			}
		}
	}
	return *viols
}

var c02Spec = fw.Spec[c02Case]{
	ID:    "C02",
	Level: "model_checking",
	Rule: "complete product per pattern (24 patterns; a sibling router built from the same option values and holding the pattern with other variable names is served every request first): every ordered pair (p,q) of candidate paths (all value tuples over 12 values substituted at every optional depth, plus perturbations incl. trailing multi-byte white space) requested as the history p,q,p,q on routers with cache off / capacity 1 / capacity 2, via Match and ServeHTTP (also behind a 405 probe for the same path, with a global variable that is defined only after its name was used, with UseEncodedPath, where the escaped path is what is matched and captured, and with a handler that edits the Params it was given); " +
		"oracle = back-tracking reference matcher (all decompositions); plus every matching path re-dispatched by its handler (HandleContext) to a static, a dynamic and an optional route, whose handlers must see exactly their own parameters; 7 group nestings whose prefixes hold 1-3 variables, each with 7 sibling routes that have variables of their own; requests spelled with default and non-default escapes on a UseEncodedPath router whose handler rewrites URL.Path and forwards with HandleContext; non-trivial = a request whose path matches the dynamic pattern",
	Assume: []string{"values and patterns are drawn from the stated alphabets", "handlers treat Params as read-only, except in the cases marked handler_edits_params (where the edit must stay private to that request)"},
	Bounds: func(tier string) map[string]any {
		n := 0
		for _, p := range c02Pool {
			n += len(c02PathCache[p])
		}
		return map[string]any{"patterns": len(c02Pool), "values": len(c02Values), "candidate_paths_total": n, "cache": "off,1,2", "first_path_stride": map[string]string{"quick": "<=~28 first paths per pattern (every path is still used as q)", "thorough": "all on caching routers (every 4th without a cache); every 8th for the variant dimensions"}[tier]}
	},
	Gen:   c02Gen,
	Run:   c02Run,
	Batch: 4,
	BudgetSec: func(tier string) int {
		if tier == "thorough" {
			return 3000
		}
		return 120
	},
}
