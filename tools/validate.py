#!/usr/bin/env python3
import json, sys, glob, os
import jsonschema
HERE = os.path.dirname(os.path.dirname(os.path.abspath(__file__)))
ok = True
ms = json.load(open('/root/.vp/MANIFEST.schema.json')); es = json.load(open('/root/.vp/EVIDENCE.schema.json'))
try:
    jsonschema.validate(json.load(open(HERE + '/MANIFEST.json')), ms); print('MANIFEST ok')
except Exception as e:
    ok = False; print('MANIFEST INVALID', e)
for f in sorted(glob.glob(HERE + '/evidence/*.json')):
    try:
        jsonschema.validate(json.load(open(f)), es); print(os.path.basename(f), 'ok')
    except Exception as e:
        ok = False; print(f, 'INVALID', str(e)[:500])
sys.exit(0 if ok else 1)
