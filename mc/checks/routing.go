package checks

import (
	"fmt"
	"net/http"
	"net/http/httptest"
	"sort"
	"strings"

	"github.com/gookit/rux"

	"verif/mc/refmodel"
)

// shared helpers for the routing checks (C01, C02, C06, C07, C11, C13, C14 router clause)

type regErr struct{ msg string }

// safely runs f, returning the panic value (nil when none)
func try(f func()) (pv any) {
	defer func() {
		if r := recover(); r != nil {
			pv = r
		}
	}()
	f()
	return nil
}

// canonical text of params: "a=1,b=2"
func canonParams(ps map[string]string) string {
	if len(ps) == 0 {
		return ""
	}
	keys := make([]string, 0, len(ps))
	for k := range ps {
		keys = append(keys, k)
	}
	sort.Strings(keys)
	var sb strings.Builder
	for i, k := range keys {
		if i > 0 {
			sb.WriteByte(',')
		}
		sb.WriteString(k)
		sb.WriteByte('=')
		sb.WriteString(ps[k])
	}
	return sb.String()
}

// routeIdx recovers the registration index the harness stored in Route.Opts.
func routeIdx(rt *rux.Route) int {
	if rt == nil {
		return -1
	}
	if v, ok := rt.Opts["i"]; ok {
		return v.(int)
	}
	return -2
}

// hitRec records what the handler of a route observed.
type hitRec struct {
	idx    int
	params string
	n      int
}

// buildRouter registers defs in order on a fresh router. The i-th route's
// handler writes "<i>|<params>" and records the hit in rec.
func buildRouter(defs []refmodel.RouteDef, rec *hitRec, opts ...func(*rux.Router)) (r *rux.Router, pv any) {
	pv = try(func() {
		r = rux.New(opts...)
		for i, d := range defs {
			i := i
			rt := r.Add(d.Path, func(c *rux.Context) {
				if rec != nil {
					rec.idx = i
					rec.params = canonParams(c.Params)
					rec.n++
				}
				c.WriteString(fmt.Sprintf("%d|%s", i, canonParams(c.Params)))
			}, d.Methods...)
			rt.Opts = map[string]any{"i": i}
		}
	})
	return
}

func serve(r http.Handler, method, path string) (rec *httptest.ResponseRecorder, pv any) {
	rec = httptest.NewRecorder()
	req := &http.Request{Method: method, URL: mustURL(path), Header: http.Header{}, Proto: "HTTP/1.1", ProtoMajor: 1, ProtoMinor: 1, Host: "x"}
	pv = try(func() { r.ServeHTTP(rec, req) })
	return
}

// checkParams applies the C02 oracle to the params reported for pattern pt on
// the normalised path; returns "" when fine.
func checkParams(pt *refmodel.Pattern, np string, ps map[string]string) string {
	if pt.Static {
		if len(ps) != 0 {
			return fmt.Sprintf("static route exposes params %v", ps)
		}
		return ""
	}
	if len(ps) != len(pt.Vars) {
		return fmt.Sprintf("params %v do not have exactly the variable names %v", ps, pt.Vars)
	}
	for _, v := range pt.Vars {
		if _, ok := ps[v]; !ok {
			return fmt.Sprintf("params %v lack variable %q (names %v)", ps, v, pt.Vars)
		}
	}
	all := pt.MatchAll(np, 64)
	got := canonParams(ps)
	var alts []string
	for _, d := range all {
		c := canonParams(d)
		if c == got {
			return ""
		}
		alts = append(alts, "{"+c+"}")
	}
	return fmt.Sprintf("params {%s} are not a decomposition of %q by %q; valid: %s", got, np, pt.Path, strings.Join(alts, " "))
}

func tierName(pt *refmodel.Pattern) string {
	switch {
	case pt == nil:
		return "none"
	case pt.Static:
		return "static"
	case pt.FirstSeg != "":
		return "first-seg"
	}
	return "other"
}

func defsString(defs []refmodel.RouteDef) string {
	var parts []string
	for i, d := range defs {
		parts = append(parts, fmt.Sprintf("#%d %s %s", i, strings.Join(d.Methods, "+"), d.Path))
	}
	return strings.Join(parts, "; ")
}
