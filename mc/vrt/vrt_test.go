package vrt

import (
	"fmt"
	"sort"
	"strings"
	"testing"
)

// Self-tests of the explorer: the number of schedules of toy programs is known
// in closed form, a classic lost update is found at preemption bound 1, a
// lock-order inversion is reported as a deadlock, and replaying a recorded
// schedule reproduces it.

// explore runs the preemption-bounded DFS of the C03 worker over bodies built by mk.
func explore(bound int, mk func() ([]func(), func() string)) (execs int, outcomes map[string]int, deadlocks int) {
	outcomes = map[string]int{}
	var rec func(prefix []int)
	rec = func(prefix []int) {
		bodies, obs := mk()
		x := Run(prefix, 10000, bodies)
		execs++
		if x.Deadlock {
			deadlocks++
		} else {
			outcomes[obs()]++
		}
		used := 0
		for i, p := range x.Points {
			if i >= len(prefix) {
				cost := used
				if p.RunningEnabled {
					cost++
				}
				if cost <= bound {
					for alt := 1; alt < p.NEnabled; alt++ {
						np := make([]int, i+1)
						for k := 0; k < i; k++ {
							np[k] = x.Points[k].Chosen
						}
						np[i] = alt
						rec(np)
					}
				}
			}
			if p.RunningEnabled && p.Chosen != 0 {
				used++
			}
		}
	}
	rec(nil)
	return
}

// two threads, each appending its name at k yield-separated steps: with unbounded preemption every
// interleaving of the 2k steps must be produced exactly once: C(2k, k) distinct traces.
func TestAllInterleavingsAreEnumerated(t *testing.T) {
	for k := 1; k <= 4; k++ {
		mk := func() ([]func(), func() string) {
			var trace []string
			body := func(name string) func() {
				return func() {
					for i := 0; i < k; i++ {
						Yield()
						trace = append(trace, name)
					}
				}
			}
			return []func(){body("a"), body("b")}, func() string { return strings.Join(trace, "") }
		}
		_, outcomes, _ := explore(99, mk)
		want := 1
		for i := 1; i <= k; i++ {
			want = want * (k + i) / i
		}
		if len(outcomes) != want {
			t.Errorf("k=%d: %d distinct interleavings, want C(%d,%d)=%d", k, len(outcomes), 2*k, k, want)
		}
	}
}

// bound 0 = non-preemptive schedules only: thread a entirely before b, or b entirely before a
func TestBoundZeroIsNonPreemptive(t *testing.T) {
	mk := func() ([]func(), func() string) {
		var trace []string
		body := func(name string) func() {
			return func() {
				for i := 0; i < 3; i++ {
					Yield()
					trace = append(trace, name)
				}
			}
		}
		return []func(){body("a"), body("b")}, func() string { return strings.Join(trace, "") }
	}
	_, outcomes, _ := explore(0, mk)
	var got []string
	for k := range outcomes {
		got = append(got, k)
	}
	sort.Strings(got)
	if fmt.Sprint(got) != "[aaabbb bbbaaa]" {
		t.Errorf("bound 0 produced %v", got)
	}
}

// read-modify-write without a lock: the lost update needs exactly one preemption
func TestLostUpdateNeedsOnePreemption(t *testing.T) {
	mk := func() ([]func(), func() string) {
		counter := 0
		inc := func() {
			Yield()
			v := counter
			Yield()
			counter = v + 1
		}
		return []func(){inc, inc}, func() string { return fmt.Sprint(counter) }
	}
	_, o0, _ := explore(0, mk)
	if o0["1"] != 0 || o0["2"] == 0 {
		t.Errorf("bound 0: outcomes %v (the lost update must not be reachable)", o0)
	}
	_, o1, _ := explore(1, mk)
	if o1["1"] == 0 {
		t.Errorf("bound 1: outcomes %v (the lost update must be found)", o1)
	}
}

// with the shim mutex around the increment no schedule loses an update, and the lock disables the other thread
func TestMutexExcludes(t *testing.T) {
	mk := func() ([]func(), func() string) {
		var mu RWMutex
		counter := 0
		inc := func() {
			mu.Lock()
			v := counter
			Yield()
			counter = v + 1
			mu.Unlock()
		}
		return []func(){inc, inc, inc}, func() string { return fmt.Sprint(counter) }
	}
	execs, o, dl := explore(3, mk)
	if len(o) != 1 || o["3"] == 0 || dl != 0 {
		t.Errorf("outcomes %v deadlocks %d in %d executions", o, dl, execs)
	}
}

// lock-order inversion: some schedule deadlocks, and it is reported as such
func TestDeadlockIsReported(t *testing.T) {
	mk := func() ([]func(), func() string) {
		var a, b RWMutex
		return []func(){
			func() { a.Lock(); Yield(); b.Lock(); b.Unlock(); a.Unlock() },
			func() { b.Lock(); Yield(); a.Lock(); a.Unlock(); b.Unlock() },
		}, func() string { return "done" }
	}
	_, _, dl := explore(2, mk)
	if dl == 0 {
		t.Error("the lock-order inversion was not reported as a deadlock")
	}
}

// unordered writes under read locks are reported by the vector-clock monitor in every schedule; ordered ones never
func TestMonitor(t *testing.T) {
	type obj struct{}
	run := func(write bool) (races int, execs int) {
		var rec func(prefix []int)
		rec = func(prefix []int) {
			var mu RWMutex
			o := &obj{}
			body := func() {
				if write {
					mu.Lock()
				} else {
					mu.RLock()
				}
				Access(o, "obj", true)
				if write {
					mu.Unlock()
				} else {
					mu.RUnlock()
				}
			}
			x := Run(prefix, 1000, []func(){body, body})
			execs++
			if len(x.Races) > 0 {
				races++
			}
			for i := len(prefix); i < len(x.Points); i++ {
				for alt := 1; alt < x.Points[i].NEnabled; alt++ {
					np := make([]int, i+1)
					for k := 0; k < i; k++ {
						np[k] = x.Points[k].Chosen
					}
					np[i] = alt
					rec(np)
				}
			}
		}
		rec(nil)
		return
	}
	if r, n := run(false); r != n {
		t.Errorf("writes under RLock: race reported in %d of %d schedules, want all", r, n)
	}
	if r, n := run(true); r != 0 {
		t.Errorf("writes under Lock: race reported in %d of %d schedules, want none", r, n)
	}
}

// replaying the recorded choices of an execution reproduces it; an impossible choice is a divergence, not a guess
func TestReplay(t *testing.T) {
	mk := func() ([]func(), *[]string) {
		var trace []string
		body := func(name string) func() {
			return func() {
				for i := 0; i < 3; i++ {
					Yield()
					trace = append(trace, name)
				}
			}
		}
		return []func(){body("a"), body("b")}, &trace
	}
	b1, t1 := mk()
	x := Run([]int{1, 0, 1, 1}, 1000, b1)
	var choices []int
	for _, p := range x.Points {
		choices = append(choices, p.Chosen)
	}
	b2, t2 := mk()
	y := Run(choices, 1000, b2)
	if strings.Join(*t1, "") != strings.Join(*t2, "") || len(x.Points) != len(y.Points) {
		t.Errorf("replay differs: %v vs %v", *t1, *t2)
	}
	b3, _ := mk()
	z := Run([]int{5}, 1000, b3)
	if z.Diverged == "" {
		t.Error("an out-of-range choice must be reported as a divergence")
	}
}

// the deterministic pool hands objects out LIFO and reports duplicates
func TestPool(t *testing.T) {
	n := 0
	p := &Pool{New: func() any { n++; return &n }}
	a := p.Get()
	p.Put(a)
	if p.Get() != a {
		t.Error("LIFO reuse expected")
	}
	p.Put(a)
	p.Put(a)
	if _, dup := p.FreeLen(); !dup {
		t.Error("duplicate not reported")
	}
}

// Once: f runs exactly once in every schedule even when it gives up control inside, and nobody deadlocks;
// callers that arrive meanwhile wait for it (they observe its effect)
func TestOnceShim(t *testing.T) {
	mk := func() ([]func(), func() string) {
		var o Once
		runs, seen := 0, ""
		body := func() {
			o.Do(func() { Yield(); runs++; Yield() })
			seen += fmt.Sprint(runs)
		}
		return []func(){body, body, body}, func() string { return seen }
	}
	execs, o, dl := explore(2, mk)
	if len(o) != 1 || o["111"] == 0 || dl != 0 {
		t.Errorf("outcomes %v deadlocks %d in %d executions", o, dl, execs)
	}
}

// W: unordered writes to one variable are reported whatever the schedule; writes to different variables never
func TestWriteMonitor(t *testing.T) {
	count := func(same bool) (races, execs int) {
		var rec func(prefix []int)
		rec = func(prefix []int) {
			var a, b int
			x := Run(prefix, 1000, []func(){
				func() { Yield(); W(&a, "a"); a++ },
				func() {
					Yield()
					if same {
						W(&a, "a")
					} else {
						W(&b, "b")
					}
				},
			})
			execs++
			if len(x.Races) > 0 {
				races++
			}
			for i := len(prefix); i < len(x.Points); i++ {
				for alt := 1; alt < x.Points[i].NEnabled; alt++ {
					np := make([]int, i+1)
					for k := 0; k < i; k++ {
						np[k] = x.Points[k].Chosen
					}
					np[i] = alt
					rec(np)
				}
			}
		}
		rec(nil)
		return
	}
	if r, n := count(true); r != n || n < 2 {
		t.Errorf("same variable: reported in %d of %d schedules", r, n)
	}
	if r, _ := count(false); r != 0 {
		t.Errorf("different variables: %d reports", r)
	}
}

// Map operations are scheduling points
func TestMapShim(t *testing.T) {
	mk := func() ([]func(), func() string) {
		var m Map
		order := ""
		body := func(name string) func() {
			return func() {
				if _, loaded := m.LoadOrStore("k", name); !loaded {
					order += name
				}
			}
		}
		return []func(){body("a"), body("b")}, func() string { return order }
	}
	_, o, _ := explore(1, mk)
	if o["a"] == 0 || o["b"] == 0 {
		t.Errorf("both threads must be able to win the LoadOrStore: %v", o)
	}
}

// like the real RWMutex, readers queue behind a pending writer: a recursive read lock deadlocks in the schedules where a
// writer arrives between the two RLock calls - and only in those
func TestRecursiveReadLockDeadlocksBehindWriter(t *testing.T) {
	mk := func(withWriter bool) func() ([]func(), func() string) {
		return func() ([]func(), func() string) {
			var m RWMutex
			reader := func() {
				m.RLock()
				Yield()
				m.RLock()
				m.RUnlock()
				m.RUnlock()
			}
			bodies := []func(){reader}
			if withWriter {
				bodies = append(bodies, func() { m.Lock(); m.Unlock() })
			} else {
				bodies = append(bodies, reader)
			}
			return bodies, func() string { return "done" }
		}
	}
	execs, o, dl := explore(2, mk(true))
	if dl == 0 || o["done"] == 0 {
		t.Errorf("reader+writer: %d deadlocks, outcomes %v in %d executions (want some of each)", dl, o, execs)
	}
	_, _, dl = explore(2, mk(false))
	if dl != 0 {
		t.Errorf("two recursive readers without a writer: %d deadlocks", dl)
	}
}
